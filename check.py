#!/venv/bin/python
"""Static checks for the numqi properties.  Usage: check.py <Cxx> [--tier quick|thorough] [--replay path]

exit 0: every obligation discharged; exit 1 + VIOLATION line: definite violation not in known_findings.json;
exit 2 + ANALYSIS-ERROR: the analysis itself could not be completed (never a VIOLATION line).
"""
import argparse
import json
import os
import sys
import traceback

sys.path.insert(0, os.path.dirname(os.path.abspath(__file__)))

from sa.project import Project, AnalysisError  # noqa: E402
from sa.report import Report, write_evidence   # noqa: E402
from sa import props                           # noqa: E402


def run(prop, tier, root=None, write=True, quiet=False, replay_dir=None):
    seed = int(os.environ.get('VERIF_SEED', '0') or 0)
    rep = Report(prop, tier, seed)
    try:
        proj = Project(root)
        props.PROPS[prop](proj, rep, tier)
        if tier == 'thorough' and os.environ.get('VERIF_SELFTEST') == '1':
            from sa import selftest
            selftest.run(prop, rep)
    except AnalysisError as e:
        rep.error(str(e))
    except Exception:
        tb = traceback.format_exc()
        rep.error('internal error in checker: ' + tb.strip().splitlines()[-1])
        if not quiet:
            sys.stderr.write(tb)
    code, ev, new = rep.finish(replay_dir=replay_dir, quiet=quiet)
    if write:
        write_evidence(prop, ev)
    return code, ev, new, rep


def main():
    ap = argparse.ArgumentParser()
    ap.add_argument('prop')
    ap.add_argument('--tier', default=os.environ.get('VERIF_TIER') or 'quick', choices=['quick', 'thorough'])
    ap.add_argument('--root', default=None)
    ap.add_argument('--replay', default=None)
    ap.add_argument('--no-selftest', action='store_true')
    a = ap.parse_args()
    if a.prop not in props.PROPS:
        print(f'ANALYSIS-ERROR unknown property {a.prop}')
        return 2
    if a.replay:
        with open(a.replay) as f:
            want = json.load(f)
        code, ev, new, rep = run(a.prop, a.tier, a.root, write=False, quiet=True)
        hit = [i for i in rep.items if i['status'] == 'violation' and i['key'] == want['key']]
        if hit:
            i = hit[0]
            print(f"{i['file']}:{i['line']}: [{i['rule']}] {i['construct']}: {i['detail']}")
            print(f'VIOLATION property={a.prop} replay={a.replay}')
            return 1
        print(f'replay: violation {want["key"]!r} no longer present')
        return 0
    if a.tier == 'thorough' and not a.no_selftest:
        os.environ['VERIF_SELFTEST'] = '1'
    scratch = a.root is not None and os.path.realpath(a.root) != os.path.realpath(os.environ.get('NUMQI_REPO', '/repo'))
    code, ev, new, rep = run(a.prop, a.tier, a.root, write=not scratch,
                             replay_dir=('/dev/shm/numqi_variants/_violations' if scratch else None))
    return code


if __name__ == '__main__':
    try:
        rc = main()
    except SystemExit:
        raise
    except Exception:
        traceback.print_exc()
        print('ANALYSIS-ERROR internal error in driver')
        rc = 2
    sys.exit(rc)
