"""Structured forward dataflow over a function body (no CFG needed: numqi uses structured control flow only).

A client subclasses Forward and implements

    transfer(stmt, state, report) -> state     for simple statements (state is a dict; copy before changing)
    test(expr, state, report)                  expressions evaluated in conditions / iterables (optional)
    join(a, b) -> state

States are dicts; None is "unreachable" (bottom).  Loops are iterated to a fixpoint without reporting and then
walked once more with report=True, so every statement is reported exactly once with its stable entry state.
"""
import ast


class Forward:
    max_iter = 6

    def __init__(self):
        self.exit_states = []        # (node, state) at return / fall-off
        self.raise_states = []

    # -- to be provided by clients -------------------------------------------------
    def transfer(self, stmt, state, report):
        return state

    def test(self, expr, state, report):
        return None

    def join(self, a, b):
        if a is None:
            return b
        if b is None:
            return a
        out = {}
        for k in set(a) | set(b):
            out[k] = self.join_value(a.get(k), b.get(k))
        return out

    def join_value(self, x, y):
        return x if x == y else None

    def bind_target(self, target, value, state, stmt, report):
        """Loop / with targets; default: kill the names."""
        st = dict(state)
        for n in ast.walk(target):
            if isinstance(n, ast.Name):
                st.pop(n.id, None)
        return st

    # -- engine ---------------------------------------------------------------------
    def run(self, func_node, state):
        end = self.block(func_node.body, state, True, None)
        if end is not None:
            self.exit_states.append((func_node, end))
        return self.exit_states

    def block(self, body, state, report, loop):
        for st in body:
            if state is None:
                return None
            state = self.stmt(st, state, report, loop)
        return state

    def stmt(self, st, state, report, loop):
        if isinstance(st, ast.If):
            self.test(st.test, state, report)
            a = self.block(st.body, dict(state), report, loop)
            b = self.block(st.orelse, dict(state), report, loop) if st.orelse else dict(state)
            return self.join(a, b)
        if isinstance(st, (ast.For, ast.AsyncFor, ast.While)):
            return self.loop(st, state, report, loop)
        if isinstance(st, (ast.With, ast.AsyncWith)):
            for it in st.items:
                self.test(it.context_expr, state, report)
                if it.optional_vars is not None:
                    state = self.bind_target(it.optional_vars, it.context_expr, state, st, report)
            return self.block(st.body, state, report, loop)
        if isinstance(st, ast.Try):
            body_end = self.block(st.body, dict(state), report, loop)
            # a handler may be entered from any point of the body: approximate its entry by join(before, after)
            h_in = self.join(dict(state), body_end)
            outs = []
            for h in st.handlers:
                outs.append(self.block(h.body, dict(h_in) if h_in is not None else None, report, loop))
            if st.orelse and body_end is not None:
                body_end = self.block(st.orelse, body_end, report, loop)
            res = body_end
            for o in outs:
                res = self.join(res, o)
            if st.finalbody and res is not None:
                res = self.block(st.finalbody, res, report, loop)
            return res
        if isinstance(st, ast.Return):
            state = self.transfer(st, state, report)
            if report:
                self.exit_states.append((st, state))
            return None
        if isinstance(st, ast.Raise):
            state = self.transfer(st, state, report)
            if report:
                self.raise_states.append((st, state))
            return None
        if isinstance(st, ast.Break):
            if loop is not None:
                loop['break'] = self.join(loop.get('break'), dict(state))
            return None
        if isinstance(st, ast.Continue):
            if loop is not None:
                loop['continue'] = self.join(loop.get('continue'), dict(state))
            return None
        if isinstance(st, ast.Assert):
            # `assert False` terminates the path
            state = self.transfer(st, state, report)
            if isinstance(st.test, ast.Constant) and st.test.value is False:
                return None
            return state
        if isinstance(st, (ast.FunctionDef, ast.AsyncFunctionDef, ast.ClassDef)):
            return self.transfer(st, state, report)
        if hasattr(ast, 'Match') and isinstance(st, ast.Match):
            self.test(st.subject, state, report)
            res = dict(state)
            for c in st.cases:
                res = self.join(res, self.block(c.body, dict(state), report, loop))
            return res
        return self.transfer(st, state, report)

    def loop(self, st, state, report, outer):
        is_for = not isinstance(st, ast.While)
        head = dict(state)
        for _ in range(self.max_iter):
            info = {}
            s = dict(head)
            if is_for:
                self.test(st.iter, s, False)
                s = self.bind_target(st.target, st.iter, s, st, False)
            else:
                self.test(st.test, s, False)
            end = self.block(st.body, s, False, info)
            back = self.join(end, info.get('continue'))
            new_head = self.join(head, back)
            if new_head == head:
                break
            head = new_head
        info = {}
        s = dict(head)
        if is_for:
            self.test(st.iter, s, report)
            s = self.bind_target(st.target, st.iter, s, st, report)
        else:
            self.test(st.test, s, report)
        end = self.block(st.body, s, report, info)
        back = self.join(end, info.get('continue'))
        exit_normal = self.join(head, back)
        infinite = (not is_for) and isinstance(st.test, ast.Constant) and bool(st.test.value)
        if infinite:
            exit_normal = None
        if st.orelse and exit_normal is not None:
            exit_normal = self.block(st.orelse, exit_normal, report, outer)
        return self.join(exit_normal, info.get('break'))
