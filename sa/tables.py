"""Constant folding of literal tables (no evaluation of repository code: a closed interpreter over ast literals)."""
import ast


class Sym:
    """A symbolic atom (dotted name or unparsed expression) standing for a runtime value."""
    __slots__ = ('name',)

    def __init__(self, name):
        self.name = name

    def __repr__(self):
        return f'Sym({self.name})'

    def __eq__(self, o):
        return isinstance(o, Sym) and o.name == self.name

    def __hash__(self):
        return hash(('Sym', self.name))


class NotConst(Exception):
    pass


def const_eval(node, env=None, strict=False):
    """Evaluate literal displays; names/attributes become Sym atoms (or env values). Returns None/raises when not literal."""
    try:
        return _ev(node, env or {})
    except NotConst:
        if strict:
            raise
        return None


def _ev(n, env):
    if isinstance(n, ast.Constant):
        return n.value
    if isinstance(n, ast.Name):
        if n.id in env:
            return env[n.id]
        return Sym(n.id)
    if isinstance(n, ast.Attribute):
        return Sym(ast.unparse(n))
    if isinstance(n, ast.Tuple):
        return tuple(_ev(e, env) for e in n.elts)
    if isinstance(n, ast.List):
        return [_ev(e, env) for e in n.elts]
    if isinstance(n, ast.Set):
        return set(_ev(e, env) for e in n.elts)
    if isinstance(n, ast.Dict):
        out = {}
        for k, v in zip(n.keys, n.values):
            if k is None:
                raise NotConst()
            out[_ev(k, env)] = _ev(v, env)
        return out
    if isinstance(n, ast.UnaryOp):
        v = _ev(n.operand, env)
        if isinstance(v, Sym):
            return Sym(ast.unparse(n))
        if isinstance(n.op, ast.USub):
            return -v
        if isinstance(n.op, ast.UAdd):
            return +v
        if isinstance(n.op, ast.Not):
            return not v
        raise NotConst()
    if isinstance(n, ast.BinOp):
        a, b = _ev(n.left, env), _ev(n.right, env)
        if isinstance(a, Sym) or isinstance(b, Sym):
            return Sym(ast.unparse(n))
        try:
            if isinstance(n.op, ast.Add):
                return a + b
            if isinstance(n.op, ast.Sub):
                return a - b
            if isinstance(n.op, ast.Mult):
                return a * b
            if isinstance(n.op, ast.FloorDiv):
                return a // b
            if isinstance(n.op, ast.Mod):
                return a % b
            if isinstance(n.op, ast.Div):
                return a / b
            if isinstance(n.op, ast.Pow):
                if isinstance(b, (int, float)) and abs(b) < 64:
                    return a ** b
            if isinstance(n.op, ast.RShift):
                return a >> b
            if isinstance(n.op, ast.LShift):
                return a << b
            if isinstance(n.op, ast.BitAnd):
                return a & b
            if isinstance(n.op, ast.BitOr):
                return a | b
        except Exception:
            raise NotConst()
        raise NotConst()
    if isinstance(n, ast.BoolOp):
        vals = [_ev(v, env) for v in n.values]
        if any(isinstance(v, Sym) for v in vals):
            raise NotConst()
        if isinstance(n.op, ast.And):
            r = True
            for v in vals:
                r = r and v
            return r
        r = False
        for v in vals:
            r = r or v
        return r
    if isinstance(n, ast.Compare):
        left = _ev(n.left, env)
        res = True
        for op, c in zip(n.ops, n.comparators):
            right = _ev(c, env)
            if isinstance(left, Sym) or isinstance(right, Sym):
                raise NotConst()
            if isinstance(op, ast.Eq):
                r = left == right
            elif isinstance(op, ast.NotEq):
                r = left != right
            elif isinstance(op, ast.In):
                r = left in right
            elif isinstance(op, ast.NotIn):
                r = left not in right
            elif isinstance(op, ast.Lt):
                r = left < right
            elif isinstance(op, ast.LtE):
                r = left <= right
            elif isinstance(op, ast.Gt):
                r = left > right
            elif isinstance(op, ast.GtE):
                r = left >= right
            else:
                raise NotConst()
            res = res and r
            left = right
        return res
    if isinstance(n, ast.IfExp):
        t = _ev(n.test, env)
        if isinstance(t, Sym):
            raise NotConst()
        return _ev(n.body, env) if t else _ev(n.orelse, env)
    if isinstance(n, ast.Subscript):
        v = _ev(n.value, env)
        if isinstance(v, Sym):
            return Sym(ast.unparse(n))
        s = n.slice
        if isinstance(s, ast.Slice):
            lo = _ev(s.lower, env) if s.lower else None
            hi = _ev(s.upper, env) if s.upper else None
            st = _ev(s.step, env) if s.step else None
            return v[lo:hi:st]
        k = _ev(s, env)
        if isinstance(k, Sym):
            raise NotConst()
        try:
            return v[k]
        except Exception:
            raise NotConst()
    if isinstance(n, ast.Call):
        f = n.func
        if isinstance(f, ast.Name) and f.id in ('dict', 'zip', 'list', 'tuple', 'set', 'len', 'range', 'enumerate', 'sorted', 'int'):
            args = [_ev(a, env) for a in n.args]
            if f.id == 'dict':
                if n.keywords and not args:
                    return {k.arg: _ev(k.value, env) for k in n.keywords}
                if len(args) == 1:
                    return dict(args[0])
                raise NotConst()
            if any(isinstance(a, Sym) for a in args):
                raise NotConst()
            if f.id == 'zip':
                return list(zip(*args))
            if f.id == 'list':
                return list(*args)
            if f.id == 'tuple':
                return tuple(*args)
            if f.id == 'set':
                return set(*args)
            if f.id == 'len':
                return len(*args)
            if f.id == 'range':
                if all(isinstance(a, int) and abs(a) < 4096 for a in args):
                    return list(range(*args))
                raise NotConst()
            if f.id == 'enumerate':
                return list(enumerate(*args))
            if f.id == 'sorted':
                return sorted(*args)
            if f.id == 'int':
                return int(*args)
        return Sym(ast.unparse(n))
    if isinstance(n, (ast.ListComp, ast.GeneratorExp, ast.SetComp)):
        if len(n.generators) != 1:
            raise NotConst()
        g = n.generators[0]
        it = _ev(g.iter, env)
        if isinstance(it, Sym) or not isinstance(it, (list, tuple, str, set, dict)):
            raise NotConst()
        out = []
        for x in it:
            e2 = dict(env)
            _bind(g.target, x, e2)
            if all(_ev(c, e2) for c in g.ifs):
                out.append(_ev(n.elt, e2))
        return set(out) if isinstance(n, ast.SetComp) else out
    if isinstance(n, ast.DictComp):
        if len(n.generators) != 1:
            raise NotConst()
        g = n.generators[0]
        it = _ev(g.iter, env)
        if isinstance(it, Sym):
            raise NotConst()
        out = {}
        for x in it:
            e2 = dict(env)
            _bind(g.target, x, e2)
            if all(_ev(c, e2) for c in g.ifs):
                out[_ev(n.key, e2)] = _ev(n.value, e2)
        return out
    if isinstance(n, ast.JoinedStr):
        raise NotConst()
    raise NotConst()


def _bind(target, value, env):
    if isinstance(target, ast.Name):
        env[target.id] = value
    elif isinstance(target, (ast.Tuple, ast.List)):
        vals = list(value)
        if len(vals) != len(target.elts):
            raise NotConst()
        for t, v in zip(target.elts, vals):
            _bind(t, v, env)
    else:
        raise NotConst()
