"""Parse the numqi package from the working tree and resolve names.

Nothing here imports or executes numqi: the package is read with ``ast`` only.

Public surface
--------------
Project(root)                 parse every ``*.py`` under ``<root>/python/numqi``
proj.modules[name]            Module (tree, source, digest, bindings)
proj.resolve_expr(mod, expr)  Resolved for a Name / dotted Attribute chain
proj.func(qualname)           FuncInfo for ``numqi.a.b.f`` or ``numqi.a.b.Cls.meth``
proj.classes[qualname]        ClassInfo (methods incl. factory-made, bases)
bind_call(call, funcinfo)     positional/keyword -> parameter binding
"""
import ast
import hashlib
import os

PKG = 'numqi'


class AnalysisError(Exception):
    """The analysis cannot be completed (vanished anchor, unknown idiom)."""


class Module:
    def __init__(self, name, path, relpath, src, is_pkg):
        self.name = name
        self.path = path
        self.relpath = relpath
        self.src = src
        self.is_pkg = is_pkg
        self.digest = hashlib.sha256(src.encode()).hexdigest()[:16]
        self.tree = ast.parse(src, filename=path)
        self.lines = src.splitlines()
        self.bindings = {}     # top-level name -> binding tuple
        for node in ast.walk(self.tree):
            for child in ast.iter_child_nodes(node):
                child._parent = node
        self.tree._parent = None

    def package(self):
        return self.name if self.is_pkg else self.name.rsplit('.', 1)[0]

    def seg(self, node):
        try:
            return ast.get_source_segment(self.src, node) or ''
        except Exception:
            return ''


class Resolved:
    """kind in {'func','class','module','external','value','unknown'}"""
    __slots__ = ('kind', 'qual', 'node', 'module')

    def __init__(self, kind, qual, node=None, module=None):
        self.kind, self.qual, self.node, self.module = kind, qual, node, module

    def __repr__(self):
        return f'<{self.kind} {self.qual}>'


class FuncInfo:
    def __init__(self, qual, node, module, cls=None):
        self.qual = qual
        self.node = node
        self.module = module
        self.cls = cls            # ClassInfo or None
        a = node.args
        self.posonly = [x.arg for x in a.posonlyargs]
        self.params = [x.arg for x in a.posonlyargs + a.args]
        self.kwonly = [x.arg for x in a.kwonlyargs]
        self.vararg = a.vararg.arg if a.vararg else None
        self.kwarg = a.kwarg.arg if a.kwarg else None
        self.defaults = {}
        pos = a.posonlyargs + a.args
        for p, d in zip(pos[len(pos) - len(a.defaults):], a.defaults):
            self.defaults[p.arg] = d
        for p, d in zip(a.kwonlyargs, a.kw_defaults):
            if d is not None:
                self.defaults[p.arg] = d
        self.decorators = [ast.unparse(d) for d in node.decorator_list]
        self.is_static = any(d == 'staticmethod' for d in self.decorators)
        self.is_classmethod = any(d == 'classmethod' for d in self.decorators)

    @property
    def all_params(self):
        return self.params + self.kwonly

    @property
    def name(self):
        return self.node.name

    def __repr__(self):
        return f'<FuncInfo {self.qual}>'


class ClassInfo:
    def __init__(self, qual, node, module):
        self.qual = qual
        self.node = node
        self.module = module
        self.methods = {}        # name -> FuncInfo
        self.attr_assigns = {}   # name -> value node (class-level assignments)
        self.base_exprs = node.bases
        self.bases = []          # Resolved

    def __repr__(self):
        return f'<ClassInfo {self.qual}>'


def dotted_parts(expr):
    """['np','linalg','norm'] for np.linalg.norm, else None."""
    parts = []
    while isinstance(expr, ast.Attribute):
        parts.append(expr.attr)
        expr = expr.value
    if isinstance(expr, ast.Name):
        parts.append(expr.id)
        return parts[::-1]
    return None


class Project:
    def __init__(self, root=None):
        root = root or os.environ.get('NUMQI_REPO', '/repo')
        self.root = root
        self.pkgdir = os.path.join(root, 'python', PKG)
        if not os.path.isdir(self.pkgdir):
            raise AnalysisError(f'package directory missing: {self.pkgdir}')
        self.modules = {}
        self._load()
        self.funcs = {}
        self.classes = {}
        for m in self.modules.values():
            self._index_module(m)
        for c in self.classes.values():
            for b in c.base_exprs:
                c.bases.append(self.resolve_expr(c.module, b))

    # ------------------------------------------------------------------ load
    def _load(self):
        for dirpath, dirnames, filenames in os.walk(self.pkgdir):
            dirnames[:] = sorted(d for d in dirnames if d != '__pycache__')
            for fn in sorted(filenames):
                if not fn.endswith('.py'):
                    continue
                path = os.path.join(dirpath, fn)
                rel = os.path.relpath(path, self.root)
                sub = os.path.relpath(path, self.pkgdir)[:-3].split(os.sep)
                is_pkg = sub[-1] == '__init__'
                if is_pkg:
                    sub = sub[:-1]
                name = '.'.join([PKG] + sub)
                with open(path, encoding='utf-8') as f:
                    src = f.read()
                try:
                    self.modules[name] = Module(name, path, rel, src, is_pkg)
                except SyntaxError as e:
                    raise AnalysisError(f'cannot parse {rel}: {e}')

    def _abs_module(self, mod, level, name):
        if level == 0:
            return name
        base = mod.package().split('.')
        if level > 1:
            base = base[:-(level - 1)]
        return '.'.join(base + ([name] if name else []))

    def _index_module(self, m):
        b = m.bindings
        for node in m.tree.body:
            self._index_stmt(m, node, b)

    def _index_stmt(self, m, node, b):
        if isinstance(node, ast.Import):
            for a in node.names:
                if a.asname:
                    b[a.asname] = ('module', a.name)
                else:
                    b[a.name.split('.')[0]] = ('module', a.name.split('.')[0])
        elif isinstance(node, ast.ImportFrom):
            src = self._abs_module(m, node.level, node.module)
            for a in node.names:
                if a.name == '*':
                    continue
                b[a.asname or a.name] = ('from', src, a.name)
        elif isinstance(node, (ast.FunctionDef, ast.AsyncFunctionDef)):
            fi = FuncInfo(f'{m.name}.{node.name}', node, m)
            self.funcs[fi.qual] = fi
            b[node.name] = ('def', fi)
        elif isinstance(node, ast.ClassDef):
            ci = ClassInfo(f'{m.name}.{node.name}', node, m)
            self.classes[ci.qual] = ci
            b[node.name] = ('class', ci)
            for s in node.body:
                if isinstance(s, (ast.FunctionDef, ast.AsyncFunctionDef)):
                    fi = FuncInfo(f'{ci.qual}.{s.name}', s, m, ci)
                    ci.methods[s.name] = fi
                    self.funcs[fi.qual] = fi
                elif isinstance(s, ast.Assign):
                    for t in s.targets:
                        if isinstance(t, ast.Name):
                            ci.attr_assigns[t.id] = s.value
        elif isinstance(node, ast.Assign):
            for t in node.targets:
                if isinstance(t, ast.Name):
                    b[t.id] = ('assign', node.value)
                elif isinstance(t, ast.Tuple):
                    for e in t.elts:
                        if isinstance(e, ast.Name):
                            b[e.id] = ('assign', None)
        elif isinstance(node, (ast.If, ast.Try)):
            # top-level conditional definitions (rare): index both arms
            for s in getattr(node, 'body', []) + getattr(node, 'orelse', []):
                self._index_stmt(m, s, b)

    # --------------------------------------------------------------- resolve
    def _module_attr(self, modname, attr, depth=0):
        """Resolve attribute `attr` of numqi module `modname`."""
        if depth > 12:
            return Resolved('unknown', f'{modname}.{attr}')
        m = self.modules.get(modname)
        if m is None:
            return Resolved('external', f'{modname}.{attr}')
        bd = m.bindings.get(attr)
        if bd is None:
            sub = f'{modname}.{attr}'
            if sub in self.modules:
                return Resolved('module', sub, module=self.modules[sub])
            return Resolved('unknown', f'{modname}.{attr}')
        return self._from_binding(m, bd, depth)

    def _from_binding(self, m, bd, depth=0):
        k = bd[0]
        if k == 'module':
            name = bd[1]
            if name in self.modules:
                return Resolved('module', name, module=self.modules[name])
            return Resolved('external', name)
        if k == 'from':
            src, name = bd[1], bd[2]
            if src in self.modules:
                sub = f'{src}.{name}'
                # `from . import x` binds submodule x
                if name not in self.modules[src].bindings and sub in self.modules:
                    return Resolved('module', sub, module=self.modules[sub])
                if name in self.modules[src].bindings:
                    r = self._module_attr(src, name, depth + 1)
                    if r.kind != 'unknown':
                        return r
                if sub in self.modules:
                    return Resolved('module', sub, module=self.modules[sub])
                return Resolved('unknown', sub)
            if src.split('.')[0] == PKG:
                return Resolved('unknown', f'{src}.{name}')
            return Resolved('external', f'{src}.{name}')
        if k == 'def':
            return Resolved('func', bd[1].qual, bd[1], m)
        if k == 'class':
            return Resolved('class', bd[1].qual, bd[1], m)
        if k == 'assign':
            v = bd[1]
            # alias chains: `CNOT = CX`, `x = numqi.gate.X`
            if v is not None and isinstance(v, (ast.Name, ast.Attribute)) and depth < 12:
                r = self.resolve_expr(m, v, depth + 1)
                if r.kind in ('func', 'class', 'module', 'external'):
                    return r
            return Resolved('value', f'{m.name}.<value>', v, m)
        return Resolved('unknown', '?')

    def resolve_parts(self, mod, parts, depth=0):
        bd = mod.bindings.get(parts[0])
        if bd is None:
            return Resolved('unknown', '.'.join(parts))
        cur = self._from_binding(mod, bd, depth)
        for i, p in enumerate(parts[1:], 1):
            if cur.kind == 'module':
                cur = self._module_attr(cur.qual, p, depth)
            elif cur.kind == 'external':
                cur = Resolved('external', f'{cur.qual}.{p}')
            elif cur.kind == 'class':
                ci = cur.node
                meth = self.lookup_method(ci, p)
                if meth is not None:
                    cur = Resolved('func', meth.qual, meth, meth.module)
                else:
                    cur = Resolved('unknown', f'{cur.qual}.{p}')
            else:
                return Resolved('unknown', '.'.join(parts))
        return cur

    def resolve_expr(self, mod, expr, depth=0):
        parts = dotted_parts(expr)
        if parts is None:
            return Resolved('unknown', ast.unparse(expr) if expr is not None else '?')
        return self.resolve_parts(mod, parts, depth)

    def lookup_method(self, ci, name, seen=None):
        seen = seen or set()
        if ci.qual in seen:
            return None
        seen.add(ci.qual)
        if name in ci.methods:
            return ci.methods[name]
        for b in ci.bases:
            if b.kind == 'class':
                r = self.lookup_method(b.node, name, seen)
                if r is not None:
                    return r
        return None

    def func(self, qual):
        f = self.funcs.get(qual)
        if f is None:
            raise AnalysisError(f'anchor function vanished: {qual}')
        return f

    def cls(self, qual):
        c = self.classes.get(qual)
        if c is None:
            raise AnalysisError(f'anchor class vanished: {qual}')
        return c

    def mod(self, name):
        m = self.modules.get(name)
        if m is None:
            raise AnalysisError(f'anchor module vanished: {name}')
        return m

    def iter_functions(self, modules=None):
        for q, f in sorted(self.funcs.items()):
            if modules is None or f.module.name in modules:
                yield f

    def enclosing_class(self, node):
        p = getattr(node, '_parent', None)
        while p is not None:
            if isinstance(p, ast.ClassDef):
                return p
            p = getattr(p, '_parent', None)
        return None


# ---------------------------------------------------------------- call binding
class Binding:
    """Result of binding a call site to a signature."""

    def __init__(self):
        self.args = {}          # param -> expr node
        self.star = False       # *args present (positional binding incomplete)
        self.dstar_unknown = False   # **x that is not a literal dict(...)
        self.extra = []         # unbound positional / keyword (callee has *args/**kw)


def _local_dict_literal(name, scope_func):
    """If `name` is assigned exactly once in scope_func to dict(k=v,..) or {...}, return {k: node}."""
    if scope_func is None:
        return None
    found = []
    for n in ast.walk(scope_func):
        if isinstance(n, ast.Assign) and len(n.targets) == 1 and isinstance(n.targets[0], ast.Name) \
                and n.targets[0].id == name:
            found.append(n.value)
    if len(found) != 1:
        return None
    return dict_literal(found[0])


def dict_literal(v):
    if isinstance(v, ast.Call) and isinstance(v.func, ast.Name) and v.func.id == 'dict' and not v.args:
        if any(k.arg is None for k in v.keywords):
            return None
        return {k.arg: k.value for k in v.keywords}
    if isinstance(v, ast.Dict):
        out = {}
        for k, val in zip(v.keys, v.values):
            if not (isinstance(k, ast.Constant) and isinstance(k.value, str)):
                return None
            out[k.value] = val
        return out
    return None


def bind_call(call, fi, skip_self=None, scope_func=None):
    """Bind arguments of ast.Call `call` to parameters of FuncInfo `fi`.

    skip_self: drop the first parameter (bound method / constructor call). If None it
    is inferred: methods that are not static are assumed to be called bound.
    """
    b = Binding()
    params = list(fi.params)
    if skip_self is None:
        skip_self = fi.cls is not None and not fi.is_static
    if skip_self and params:
        params = params[1:]
    i = 0
    for a in call.args:
        if isinstance(a, ast.Starred):
            b.star = True
            break
        if i < len(params):
            b.args[params[i]] = a
        else:
            b.extra.append(a)
        i += 1
    for k in call.keywords:
        if k.arg is None:
            d = dict_literal(k.value)
            if d is None and isinstance(k.value, ast.Name):
                d = _local_dict_literal(k.value.id, scope_func)
            if d is None:
                b.dstar_unknown = True
            else:
                for kk, vv in d.items():
                    if kk in fi.all_params:
                        b.args[kk] = vv
                    else:
                        b.extra.append(vv)
        elif k.arg in fi.all_params:
            b.args[k.arg] = k.value
        else:
            b.extra.append(k.value)
    return b


def enclosing_function(node):
    p = getattr(node, '_parent', None)
    while p is not None:
        if isinstance(p, (ast.FunctionDef, ast.AsyncFunctionDef, ast.Lambda)):
            return p
        p = getattr(p, '_parent', None)
    return None


def norm_text(node):
    """Normalised statement text, used as a line-number independent key."""
    return ' '.join(ast.unparse(node).split())
