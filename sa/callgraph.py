"""Resolved callees for call sites inside function bodies."""
import ast
from .project import Resolved, dotted_parts, FuncInfo


def local_names(func_node):
    """Names bound inside a function (params, assignments, loop targets, nested defs...)."""
    cached = getattr(func_node, '_local_names', None)
    if cached is not None:
        return cached
    names = {}
    a = func_node.args
    for x in a.posonlyargs + a.args + a.kwonlyargs:
        names[x.arg] = 'param'
    if a.vararg:
        names[a.vararg.arg] = 'param'
    if a.kwarg:
        names[a.kwarg.arg] = 'param'

    def visit(n):
        for c in ast.iter_child_nodes(n):
            if isinstance(c, (ast.FunctionDef, ast.AsyncFunctionDef)):
                names[c.name] = c
                continue  # do not descend: own scope
            if isinstance(c, ast.ClassDef):
                names[c.name] = c
                continue
            if isinstance(c, ast.Lambda):
                continue
            if isinstance(c, ast.Name) and isinstance(c.ctx, (ast.Store, ast.Del)):
                names.setdefault(c.id, 'local')
            if isinstance(c, (ast.Import, ast.ImportFrom)):
                for al in c.names:
                    names.setdefault((al.asname or al.name).split('.')[0], 'import')
            if isinstance(c, ast.ExceptHandler) and c.name:
                names.setdefault(c.name, 'local')
            visit(c)
    if isinstance(func_node, ast.Lambda):
        pass
    else:
        for s in func_node.body:
            visit(ast.Module(body=[s], type_ignores=[]))
    func_node._local_names = names
    return names


def scope_chain(node):
    """Enclosing function nodes, innermost first."""
    out = []
    p = getattr(node, '_parent', None)
    while p is not None:
        if isinstance(p, (ast.FunctionDef, ast.AsyncFunctionDef, ast.Lambda)):
            out.append(p)
        p = getattr(p, '_parent', None)
    return out


def enclosing_classdef(node):
    p = getattr(node, '_parent', None)
    while p is not None:
        if isinstance(p, ast.ClassDef):
            return p
        p = getattr(p, '_parent', None)
    return None


def resolve_callee(proj, mod, call):
    """Resolve the callee of `call` (an ast.Call located inside module `mod`).

    Returns Resolved with kind:
      'func'      numqi function / method (node = FuncInfo); .qual
      'class'     numqi class constructor (node = ClassInfo)
      'external'  dotted external name, e.g. numpy.linalg.norm
      'localfunc' nested def in an enclosing function (node = ast.FunctionDef)
      'method'    method call on a local value: qual = '.<attr>'
      'unknown'
    """
    f = call.func
    chain = scope_chain(call)
    if isinstance(f, ast.Name):
        for fn in chain:
            ln = local_names(fn)
            if f.id in ln:
                v = ln[f.id]
                if isinstance(v, ast.FunctionDef):
                    return Resolved('localfunc', f.id, v, mod)
                if v == 'import':
                    break
                return Resolved('unknown', f.id)
        return proj.resolve_expr(mod, f)
    if isinstance(f, ast.Attribute):
        parts = dotted_parts(f)
        if parts is None:
            return Resolved('method', '.' + f.attr, f.value, mod)
        root = parts[0]
        if root == 'self' and len(parts) == 2:
            cd = enclosing_classdef(call)
            if cd is not None:
                ci = proj.classes.get(f'{mod.name}.{cd.name}')
                if ci is not None:
                    m = proj.lookup_method(ci, parts[1])
                    if m is not None:
                        return Resolved('func', m.qual, m, m.module)
                    if parts[1] in ci.attr_assigns:
                        return Resolved('value', f'{ci.qual}.{parts[1]}', ci.attr_assigns[parts[1]], mod)
            return Resolved('method', '.' + f.attr, f.value, mod)
        for fn in chain:
            ln = local_names(fn)
            if root in ln and ln[root] != 'import':
                return Resolved('method', '.' + f.attr, f.value, mod)
        r = proj.resolve_expr(mod, f)
        if r.kind == 'unknown' and root not in mod.bindings:
            return Resolved('method', '.' + f.attr, f.value, mod)
        return r
    return Resolved('unknown', ast.unparse(f))


def callee_funcinfo(proj, r):
    """FuncInfo to bind arguments against, and whether first param is implicit."""
    if r.kind == 'func':
        fi = r.node
        return fi, (fi.cls is not None and not fi.is_static)
    if r.kind == 'class':
        init = proj.lookup_method(r.node, '__init__')
        if init is not None:
            return init, True
    return None, False


def calls_in(func_node, include_nested=True):
    """All ast.Call nodes in a function body (optionally inside nested defs/lambdas)."""
    out = []

    def visit(n):
        for c in ast.iter_child_nodes(n):
            if not include_nested and isinstance(c, (ast.FunctionDef, ast.Lambda, ast.ClassDef)):
                continue
            if isinstance(c, ast.Call):
                out.append(c)
            visit(c)
    for s in func_node.body if not isinstance(func_node, ast.Lambda) else [func_node.body]:
        if isinstance(s, ast.Call):
            out.append(s)
        visit(s)
    return out
