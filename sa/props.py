"""Property -> rule composition."""
from .rules import kdefects


def dev(proj, rep, tier):
    kdefects.k1(proj, rep, None)
    kdefects.k2(proj, rep, None)
    kdefects.k3(proj, rep, None)
    kdefects.n1(proj, rep, None)


PROPS = {'DEV': dev}
