"""Property -> rule composition.  Each function decides the statically decidable clauses of one property."""
from .rules import kdefects, numeric, seed, typestate, ownership, clifford

M = 'numqi.'
DECISION_C05 = ['numqi.entangle.ppt.is_ppt', 'numqi.entangle.ppt.is_generalized_ppt',
                'numqi.entangle.ppt.get_generalized_ppt_boundary', 'numqi.entangle._misc.check_swap_witness',
                'numqi.entangle._misc.check_reduction_witness', 'numqi.utils.is_positive_semi_definite']
DECISION_C20 = ['numqi.matrix_space._numerical_range.detect_real_matrix_subspace_rank_one',
                'numqi.matrix_space._hierarchy.has_rank_hierarchical_method',
                'numqi.matrix_space._hierarchy.is_ABC_completely_entangled_subspace']

ENTANGLE = ['numqi.entangle.ppt', 'numqi.entangle._misc', 'numqi.entangle.eof', 'numqi.entangle.measure',
            'numqi.entangle.symext', 'numqi.utils']


def c05(proj, rep, tier):
    n = numeric.t1(proj, rep, DECISION_C05)
    rep.floor('T1 decision comparisons + PSD shift sites (C05)', n, 10)
    n = kdefects.k1(proj, rep, ENTANGLE)
    rep.floor('K1 int()/float() casts of names in entangle criteria', n, 8)
    n = numeric.f1(proj, rep, ['numqi.entangle.eof', 'numqi.entangle.measure', 'numqi.entangle._misc', 'numqi.utils'])
    rep.floor('F1 log sites in entangle measures + utils', n, 10)


def c07(proj, rep, tier):
    n = typestate.h1(proj, rep, ['numqi.sim.clifford.CliffordCircuit', 'numqi.gate._pauli.PauliOperator'],
                     require_memo=['numqi.sim.clifford.CliffordCircuit'])
    rep.floor('H1 mutators of a memoised source (CliffordCircuit recorders)', n, 1)
    n, nrec = clifford.h2(proj, rep)
    rep.floor('H2 recorder factories', nrec, 8)
    rep.floor('H2 table entries', n, 30)
    n = clifford.h3(proj, rep)
    rep.floor('H3 composition-order + scatter obligations', n, 3)
    ncache, nsites = ownership.o1(proj, rep, focus={'numqi.sim.clifford._basic_clifford_dagger_f2',
                                                    'numqi.gate._pauli.get_pauli_group',
                                                    'numqi.group.spf2._get_number_internal'})
    rep.floor('O1 cached functions in focus (+wrappers)', ncache, 3)
    nfun, tot = seed.run(proj, rep, ['numqi.sim.clifford'])
    rep.floor('seeded CliffordCircuit methods', nfun, 3)
    n = seed.s5(proj, rep, ['numqi.sim.clifford'])
    rep.floor('S5 bounded index draws in CliffordCircuit', n, 2)
    rep.assume('phase bookkeeping of apply_clifford_on_pauli / clifford_multiply / clifford_array_to_F2 is Z4 arithmetic on '
               'runtime arrays and is not decided')


def c10(proj, rep, tier):
    nfun, tot = seed.run(proj, rep, None)
    n = seed.s5(proj, rep, None)
    rep.floor('S5 bounded index / radix draws', n, 4)
    rep.floor('seed-accepting functions', nfun, 50)
    rep.floor('S2 nested seeded call sites', tot['S2'], 70)
    rep.floor('S4 generator draws', tot['S4'], 40)
    rep.assume('calls through user callables (model(), gate.forward, theta0 callables) are not followed: the claim is '
               '"no seed leak in numqi\'s own code on the resolved paths"')
    rep.assume('bit-identical output additionally needs deterministic NumPy/LAPACK kernels (assumed)')


def c11(proj, rep, tier):
    n = kdefects.n1(proj, rep, ['numqi.sim.state', 'numqi.sim.circuit', 'numqi.sim.dm'])
    nfun, tot = seed.run(proj, rep, ['numqi.sim.state', 'numqi.sim.circuit'])
    rep.floor('seed-accepting functions in sim.state/sim.circuit', nfun, 4)


def c18(proj, rep, tier):
    mods = ['numqi.state._internal', 'numqi.entangle.upb', 'numqi.dicke', 'numqi.utils', 'numqi.unique_determine._internal']
    n = kdefects.k2(proj, rep, mods)
    rep.floor('K2 true divisions in catalogue modules', n, 100)
    n = numeric.f1(proj, rep, mods)
    rep.floor('F1 log sites in catalogue modules', n, 10)


def c20(proj, rep, tier):
    n = numeric.t1(proj, rep, DECISION_C20)
    rep.floor('T1 decision comparisons (C20)', n, 4)


def dev(proj, rep, tier):
    print(seed.s5(proj, rep, None))


PROPS = {'C05': c05, 'C07': c07, 'C10': c10, 'C11': c11, 'C18': c18, 'C20': c20, 'DEV': dev}
