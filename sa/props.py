"""Property -> rule composition."""
from .rules import kdefects, numeric, seed

DECISION_C05 = ['numqi.entangle.ppt.is_ppt', 'numqi.entangle.ppt.is_generalized_ppt',
                'numqi.entangle.ppt.get_generalized_ppt_boundary', 'numqi.entangle._misc.check_swap_witness',
                'numqi.entangle._misc.check_reduction_witness', 'numqi.utils.is_positive_semi_definite']
DECISION_C20 = ['numqi.matrix_space._numerical_range.detect_real_matrix_subspace_rank_one',
                'numqi.matrix_space._hierarchy.has_rank_hierarchical_method',
                'numqi.matrix_space._hierarchy.is_ABC_completely_entangled_subspace']


def dev(proj, rep, tier):
    seed.run(proj, rep, None)


PROPS = {'DEV': dev}
