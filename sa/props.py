"""Property -> rule composition.  Each function decides the statically decidable clauses of one property."""
from .rules import kdefects, numeric, seed, typestate, ownership, clifford, circuit, stabilizer, adjoint, manifold, gellmann, twins, backend, masks, axes, pauli, convexroof, boundary, measure, relabel, angles, shapes, hermitian, ptrace, symplectic, groups, round3b, flatten

M = 'numqi.'
DECISION_C05 = ['numqi.entangle.ppt.is_ppt', 'numqi.entangle.ppt.is_generalized_ppt',
                'numqi.entangle.ppt.get_generalized_ppt_boundary', 'numqi.entangle._misc.check_swap_witness',
                'numqi.entangle._misc.check_reduction_witness', 'numqi.utils.is_positive_semi_definite',
                'numqi.entangle.symext.is_ABk_symmetric_ext']
DECISION_C20 = ['numqi.matrix_space._numerical_range.detect_real_matrix_subspace_rank_one',
                'numqi.matrix_space._hierarchy.has_rank_hierarchical_method',
                'numqi.matrix_space._hierarchy.is_ABC_completely_entangled_subspace']

ENTANGLE = ['numqi.entangle.ppt', 'numqi.entangle._misc', 'numqi.entangle.eof', 'numqi.entangle.measure',
            'numqi.entangle.symext', 'numqi.utils']


def c05(proj, rep, tier):
    n = round3b.psd1(proj, rep, None)
    rep.floor('PSD1 calls of is_positive_semi_definite', n, 2)
    n = numeric.t1(proj, rep, DECISION_C05)
    rep.floor('T1 decision comparisons + PSD shift sites (C05)', n, 10)
    n = numeric.t2(proj, rep, DECISION_C05)
    rep.floor('T2 tolerance-direction sites (C05)', n, 6)
    n = numeric.t3(proj, rep, DECISION_C05)
    rep.floor('T3 thresholds checked against the precision class of the compared value', n, 6)
    n = numeric.sv1(proj, rep, ['numqi.entangle.symext', 'numqi.entangle.ppt', 'numqi.entangle.cha', 'numqi.entangle._misc'])
    rep.floor('SV1 SDP feasibility verdict sites', n, 2)
    n = kdefects.k1(proj, rep, ENTANGLE)
    rep.floor('K1 int()/float() casts of names in entangle criteria', n, 8)
    n = boundary.p1(proj, rep)
    rep.floor('P1 partial-transpose sites', n, 3)
    n = numeric.f2(proj, rep, ['numqi.entangle.eof', 'numqi.entangle.measure'])
    rep.floor('F2 sqrt(1-C^2) sites in the closed forms', n, 2)
    n = numeric.f1(proj, rep, ['numqi.entangle.eof', 'numqi.entangle.measure', 'numqi.entangle._misc', 'numqi.utils'])
    rep.floor('F1 log sites in entangle measures + utils', n, 10)
    n = numeric.f5(proj, rep, ['numqi.entangle.eof', 'numqi.entangle.measure', 'numqi.entangle._misc', 'numqi.utils'])
    rep.floor('F5 clamped square roots in the closed forms', n, 5)
    n = kdefects.ar2(proj, rep, None)
    rep.floor('AR2 multipartite reshapes with role-named sizes', n, 12)
    n = kdefects.eo1(proj, rep, ENTANGLE)
    rep.floor('EO1 partial-trace einsums in the entangle criteria', n, 1)
    n = kdefects.cs1(proj, rep, None)
    rep.floor('CS1 (function, argument pair) groups with several call sites', n, 20)
    nfun, nmemo = kdefects.mc1(proj, rep, ENTANGLE)
    rep.floor('MC1 functions of the entangle modules scanned for module-level memos', nfun, 60)
    n = round3b.dom1(proj, rep, round3b.DOM1_TABLE_C05)
    rep.floor('DOM1 effective admissible lower bounds (symmetric-extension entry points)', n, 4)
    n = round3b.rs1(proj, rep, ['numqi.entangle'] if tier == 'quick' else None)
    rep.floor('RS1 matricisations whose axes come from a loop variable', n, 1)
    n = kdefects.fz1_so1_id1_ev1(proj, rep, ENTANGLE if tier == 'quick' else None)
    rep.floor('EV1 / FZ1 / SO1 / ID1 lint sweep: functions scanned (entangle + utils)', n, 60)
    round3b.dt10(proj, rep, ENTANGLE if tier == 'quick' else None)
    n = round3b.p2(proj, rep)
    rep.floor('P2 partial transposes of the irrep blocks', n, 2)
    n = round3b.hm5(proj, rep)
    rep.floor('HM5 functions of numqi.entangle with a state argument', n, 30)
    n = round3b.q8_un1_d4b_chk1(proj, rep, {'CHK1'})
    rep.floor('CHK1 re-bindings of rho in the SDP input checker', n, 1)


def c06(proj, rep, tier):
    n = boundary.p1(proj, rep)
    rep.floor('P1 partial-transpose sites', n, 3)
    n = boundary.i1(proj, rep)
    rep.floor('I1 boundary-interval obligations', n, 10)
    n = boundary.c1(proj, rep)
    rep.floor('C1 SDP / LP builders', n, 4)
    n = numeric.t2(proj, rep, ['numqi.entangle.ppt.get_generalized_ppt_boundary'])
    n = kdefects.n2(proj, rep, ['numqi.gellmann', 'numqi.entangle.symext', 'numqi.entangle.ppt', 'numqi.entangle.cha', 'numqi.entangle._misc'])
    rep.floor('N2 norms of explicitly batched vectors', n, 1)
    n = kdefects.ar1(proj, rep, None)
    rep.floor('AR1 ordered-role call sites in the package', n, 12)
    n = boundary.c2(proj, rep)
    rep.floor('C2 CHA boundary-history entries', n, 2)
    ncache, nsites = ownership.o1(proj, rep, focus={'numqi.group.symext._get_symmetric_extension_irrep_coeff_internal', 'numqi.entangle.symext.get_symmetric_extension_index_list',
                                                    'numqi.entangle.symext.get_cvxpy_transpose0213_indexing'})
    rep.floor('O1 alias sites of the cached symmetric-extension tables', nsites, 3)
    nf, ns = shapes.sh1b(proj, rep, ['numqi.entangle._misc.get_density_matrix_boundary'])
    rep.floor('SH1 batched operations of get_density_matrix_boundary', ns, 5)
    n = round3b.hm4(proj, rep, None)
    rep.floor('HM4 broadcast outer products v v^dagger in the package', n, 5)
    n = round3b.sdp1(proj, rep, None)
    rep.floor('SDP1 functions that answer by solving a convex program', n, 12)
    n = round3b.df1(proj, rep)
    rep.floor('DF1 pinned public defaults', n, 1)
    n = round3b.dom1(proj, rep, round3b.DOM1_TABLE_C05)
    rep.floor('DOM1 effective admissible lower bounds (symmetric-extension entry points)', n, 4)
    n = round3b.f9(proj, rep, ['numqi.gellmann', 'numqi.entangle'] if tier == 'quick' else None)
    rep.floor('F9 square roots scanned for norm-difference cancellation', n, 10)
    round3b.cc1(proj, rep, ['numqi.entangle'] if tier == 'quick' else None)
    n = round3b.i2(proj, rep)
    rep.floor('I2 interpolation-parameter assignments', n, 1)
    n = round3b.hm5(proj, rep)
    rep.floor('HM5 functions of numqi.entangle with a state argument', n, 30)
    n = round3b.q8_un1_d4b_chk1(proj, rep, {'CHK1'})
    rep.floor('CHK1 re-bindings of rho in the SDP input checker', n, 1)
    rep.assume('threshold exactness, interpolation distance, every beta inequality of the hierarchy and "inner-model states pass '
               'outer tests" are eigenvalue / solver quantities: not decided. Decided: the structural necessary conditions - a genuine '
               'partial transpose for symbolic dims, monotone intersection of intervals, complete constraint sets that only grow.')


def c13(proj, rep, tier):
    n = convexroof.v1(proj, rep)
    rep.floor('V1 convex-roof model obligations', n, 18)
    n = convexroof.v2(proj, rep, ['numqi.entangle.eof', 'numqi.entangle.measure'])
    rep.floor('V2 state-derived attributes of the convex-roof setters', n, 6)
    n = manifold.w5(proj, rep, ['numqi.manifold._stiefel.to_stiefel_polar'])
    rep.floor('W5 Gram-matrix orthonormalisation of the Stiefel map used by the models', n, 2)
    n = numeric.f5(proj, rep, ['numqi.entangle.eof', 'numqi.entangle.measure'])
    rep.floor('F5 clamped square roots in the closed forms', n, 4)
    hermitian.hm3(proj, rep, ['numqi.entangle.eof', 'numqi.entangle.measure'] if tier == 'quick' else sorted(proj.modules))
    n = numeric.f1(proj, rep, ['numqi.entangle.eof', 'numqi.entangle.measure'])
    rep.floor('F1 log sites in eof / measure', n, 2)
    n = numeric.f2(proj, rep, ['numqi.entangle.eof', 'numqi.entangle.measure'])
    rep.floor('F2 sqrt(1-C^2) sites in the closed forms', n, 2)
    n6, n7 = round3b.f6_f7(proj, rep, ['numqi.entangle.eof', 'numqi.entangle.measure'] if tier == 'quick' else None)
    rep.floor('F6 functions scanned for scipy.linalg.sqrtm', n6, 19)
    rep.floor('F7 entr sites', n7, 1)
    n = round3b.v3(proj, rep, ['numqi.entangle.eof', 'numqi.entangle.measure'] if tier == 'quick' else None)
    rep.floor('V3 rank truncations of the target spectrum', n, 4)
    M13 = ['numqi.entangle.eof', 'numqi.entangle.measure', 'numqi.entangle._misc'] if tier == 'quick' else None
    n = round3b.zs1(proj, rep, M13)
    rep.floor('ZS1 closed-form measure functions scanned for tolerance-gated zeros', n, 6)
    n = round3b.v4(proj, rep, ['numqi.entangle.eof', 'numqi.entangle.measure'] if tier == 'quick' else None)
    rep.floor('V4 convex-roof forward methods', n, 4)
    n = round3b.v5(proj, rep, ['numqi.entangle.eof', 'numqi.entangle.measure'] if tier == 'quick' else None)
    rep.floor('V5 convex-roof forward methods with ensemble weights', n, 2)
    n = round3b.sg1(proj, rep, ['numqi.entangle.measure.get_gme_2qubit', 'numqi.entangle.eof.get_eof_2qubit', 'numqi.entangle.eof.get_concurrence_2qubit',
                                'numqi.entangle._misc.get_negativity', 'numqi.entangle.eof.get_eof_pure', 'numqi.entangle.eof.get_concurrence_pure'])
    rep.floor('SG1 closed-form two-qubit measures with a single formulation', n, 6)
    n = round3b.hm5(proj, rep)
    rep.floor('HM5 functions of entangle + utils with a state argument', n, 40)
    n = kdefects.fz1_so1_id1_ev1(proj, rep, M13)
    rep.floor('EV1 / FZ1 / SO1 / ID1 lint sweep: functions scanned (eof / measure / _misc)', n, 30)
    rep.assume('ranges, local-unitary invariance, monotone relations between the measures, "non-zero iff NPT" and loss >= closed form '
               'numerically are value-level: not decided. The GME model builds its contraction lists from len(dim_list) (not literal): '
               'only clauses (a),(b) are decided for it.')


def c07(proj, rep, tier):
    n = circuit.u1(proj, rep)
    rep.floor('U1 to_unitary (exported circuit)', n, 2)
    n = round3b.dtype1_h7b_gr7_e4b(proj, rep, {'H7B'})
    rep.floor('H7B register size of Circuit from every index slot', n, 1)
    n = typestate.h1(proj, rep, ['numqi.sim.clifford.CliffordCircuit', 'numqi.gate._pauli.PauliOperator'],
                     require_memo=['numqi.sim.clifford.CliffordCircuit'])
    rep.floor('H1 mutators of a memoised source (CliffordCircuit recorders)', n, 1)
    n = kdefects.md1(proj, rep, ['numqi.sim.clifford', 'numqi.gate._pauli', 'numqi.random._spf2'] if tier == 'quick' else sorted(proj.modules))
    rep.floor('MD1 functions with default arguments (Clifford / Pauli modules)', n, 10)
    n = clifford.h7(proj, rep)
    rep.floor('H7 register size from every index slot', n, 1)
    n = clifford.h8(proj, rep)
    rep.floor('H8 phase-convention conversions in clifford_array_to_F2', n, 2)
    n = clifford.h9(proj, rep)
    rep.floor('H9 formulations of the ordering-phase term of clifford_multiply', n, 1)
    n = round3b.h10(proj, rep)
    rep.floor('H10 arms of the CliffordCircuit export', n, 2)
    nd, n4 = round3b.dt13_st4(proj, rep, ['numqi.sim'] if tier == 'quick' else None)
    nopen, nfun = round3b.ax1_sm1_sinc1_vm1(proj, rep, ['numqi.sim'] if tier == 'quick' else None)
    rep.floor('VM1 / SINC1 / SM1 / AX1 sweep: functions scanned (simulator)', nfun, 60)
    n, nrec = clifford.h2(proj, rep)
    rep.floor('H2 recorder factories', nrec, 8)
    rep.floor('H2 table entries', n, 30)
    n = clifford.h3(proj, rep)
    rep.floor('H3 composition-order + scatter obligations', n, 4)
    n = clifford.h4(proj, rep)
    rep.floor('H4 recorder factories', n, 2)
    n = twins.tw(proj, rep, ['numqi.sim.clifford', 'numqi.gate._pauli', 'numqi.group.spf2'])
    rep.floor('TW twin blocks in the Clifford modules (X-half / Z-half of clifford_array_to_F2)', n, 1)
    ncache, nsites = ownership.o1(proj, rep, focus={'numqi.sim.clifford._basic_clifford_dagger_f2',
                                                    'numqi.gate._pauli.get_pauli_group',
                                                    'numqi.group.spf2._get_number_internal'})
    rep.floor('O1 cached functions in focus (+wrappers)', ncache, 3)
    nfun, tot = seed.run(proj, rep, ['numqi.sim.clifford'])
    rep.floor('seeded CliffordCircuit methods', nfun, 3)
    n = seed.s5(proj, rep, ['numqi.sim.clifford'])
    rep.floor('S5 bounded index draws in CliffordCircuit', n, 2)
    rep.assume('phase bookkeeping of apply_clifford_on_pauli / clifford_multiply / clifford_array_to_F2 is Z4 arithmetic on '
               'runtime arrays and is not decided')


# B1 sites that compare equal on the reviewed tree (floor by identity: losing one is an analysis error, not a violation)
B1_MANIFOLD = {'numqi.manifold._ABk.ABk_skew_symmetry_index_to_full#0', 'numqi.manifold._internal.symmetric_matrix_to_trace1PSD#0',
               'numqi.manifold._internal.to_ball#0', 'numqi.manifold._internal.to_discrete_probability_softmax#0',
               'numqi.manifold._internal.to_open_interval#0', 'numqi.manifold._internal.to_positive_real_exp#0',
               'numqi.manifold._internal.to_positive_real_softplus#0', 'numqi.manifold._internal.to_special_orthogonal_cayley#0',
               'numqi.manifold._internal.to_special_orthogonal_exp#0', 'numqi.manifold._internal.to_sphere_coordinate#0',
               'numqi.manifold._internal.to_sphere_quotient#0', 'numqi.manifold._internal.to_symmetric_matrix#0',
               'numqi.manifold._internal.to_trace1_psd_cholesky#0', 'numqi.manifold._internal.to_trace1_psd_ensemble#0',
               'numqi.manifold._stiefel._to_stiefel_euler_real#0', 'numqi.manifold._stiefel.to_stiefel_choleskyL#0',
               'numqi.manifold._stiefel.to_stiefel_qr#0', 'numqi.manifold._stiefel.to_stiefel_qr#1'}
B1_GATE = {'numqi.gate._internal.pauli_exponential#0', 'numqi.gate._internal.rx#0', 'numqi.gate._internal.rz#0',
           'numqi.gate._internal.rzz#0', 'numqi.gate._internal.u3#0'}
B1_GELLMANN = {'numqi.gellmann.gellmann_basis_to_dm#0', 'numqi.gellmann.get_density_matrix_distance2#0',
               'numqi.gellmann.matrix_to_gellmann_basis#0'}
B1_CHANNEL = {'numqi.channel._internal.apply_choi_op#0', 'numqi.channel._internal.kraus_op_to_choi_op#0',
              'numqi.utils.get_Renyi_entropy#0', 'numqi.utils.get_fidelity#0', 'numqi.utils.get_purity#0'}
B1_QEC = {'numqi.qec._varqec.knill_laflamme_loss#0'}

SH1_FUNCS = ['numqi.manifold._stiefel._to_stiefel_euler_real', 'numqi.manifold._stiefel._to_stiefel_euler_complex',
             'numqi.manifold._internal.to_sphere_coordinate', 'numqi.manifold._internal.to_trace1_psd_cholesky',
             'numqi.manifold._internal.to_symmetric_matrix', 'numqi.manifold._stiefel.to_stiefel_choleskyL',
             'numqi.manifold._stiefel.to_stiefel_polar']

MS1_FUNCS = {'numqi.group._lie._so3_to_angle_hf0': ['x00', 'x02', 'x12', 'x20', 'x21', 'x22'],
             'numqi.state._internal.get_Werner_eof': ['alpha'],
             'numqi.state._internal.get_Isotropic_eof': ['alpha']}

MANIFOLD = ['numqi.manifold._internal', 'numqi.manifold._stiefel', 'numqi.manifold._compose', 'numqi.manifold._ABk',
            'numqi.manifold._misc']


def c01(proj, rep, tier):
    ncls, narms = manifold.w1(proj, rep)
    rep.floor('W1 manifold classes with a functional twin', ncls, 9)
    rep.floor('W1 delegation arms', narms, 19)
    n = kdefects.dt1(proj, rep, [q for q in sorted(proj.modules) if q.startswith('numqi.manifold')])
    rep.floor('DT1 manifold buffers typed after the parameter vector', n, 1)
    n = manifold.w2(proj, rep)
    rep.floor('W2 classes with a method option', n, 6)
    n3, n4 = manifold.w3(proj, rep)
    rep.floor('W3 (class, option, field) configurations with a length test', n3, 25)
    n = manifold.rb1(proj, rep)
    rep.floor('RB1 radial ball map (both backends)', n, 2)
    n = kdefects.k3(proj, rep, MANIFOLD)
    n = kdefects.k1(proj, rep, MANIFOLD)
    n = twins.tw(proj, rep, MANIFOLD)
    rep.floor('TW twin blocks in the manifold modules (real / complex constructor halves)', n, 3)
    backend.b1(proj, rep, MANIFOLD, expect_match=B1_MANIFOLD)
    nf, ne = shapes.sh1(proj, rep, SH1_FUNCS)
    rep.floor('SH1 batched manifold maps whose batch axis is tracked', nf, 7)
    rep.floor('SH1 array expressions typed with a batch-axis position', ne, 120)
    n = manifold.w5(proj, rep, ['numqi.manifold._stiefel.to_stiefel_polar', 'numqi.manifold._stiefel.to_stiefel_choleskyL'])
    rep.floor('W5 Gram-matrix orthonormalisations', n, 4)
    n = numeric.f4(proj, rep, MANIFOLD)
    rep.floor('F4 hand-written softplus sites', n, 1)
    n = kdefects.ar3(proj, rep, None)
    rep.floor('AR3 call sites with bare-name arguments', n, 150)
    n = manifold.w6(proj, rep, ['numqi.manifold._compose.QuantumChannel.forward'])
    rep.floor('W6 batched / unbatched einsum pairs', n, 1)
    n = kdefects.k5(proj, rep, MANIFOLD if tier == 'quick' else sorted(proj.modules))
    rep.floor('K5 eigsh calls in the manifold modules', n, 1)
    n = shapes.sh2(proj, rep)
    rep.floor('SH2 Euler-recursion reshape sites with an exact width function', n, 4)
    nopen, nfun = round3b.ax1_sm1_sinc1_vm1(proj, rep, MANIFOLD if tier == 'quick' else None)
    rep.floor('AX1 / SM1 / SINC1 / VM1 sweep: functions scanned (manifold)', nfun, 50)
    n = round3b.rt1(proj, rep, MANIFOLD if tier == 'quick' else None)
    n = round3b.fd2_det1_nrm1(proj, rep, MANIFOLD if tier == 'quick' else None)
    rep.floor('FD2 / DET1 / NRM1 sweep: functions scanned (manifold)', n, 50)
    round3b.so2_he1(proj, rep, MANIFOLD if tier == 'quick' else None)
    rep.assume('membership itself (unit norm, PSD, X^dagger X = I, simplex, interval) for all theta is value-level: not decided; '
               'known blind spots: float32 conditioning, formulas whose error keeps shapes, parity and backend agreement')


def c02(proj, rep, tier):
    n3, n4 = manifold.w3(proj, rep)
    rep.floor('W4 parameter-count vs manifold-dimension configurations', n4, 30)
    ncls, narms = manifold.w1(proj, rep)
    rep.floor('W1 delegation arms (theta reaches the map)', narms, 19)
    nsite, ntyped = gellmann.g2(proj, rep, ['numqi.manifold._internal', 'numqi.manifold._stiefel'])
    rep.floor('G2 projected Gell-Mann synthesis sites in the manifold maps', ntyped, 6)
    n = manifold.w7(proj, rep, MANIFOLD)
    rep.floor('W7 branch paths whose theta column slices are typed', n, 6)
    n = hermitian.hm1(proj, rep, MANIFOLD if tier == 'quick' else sorted(proj.modules))
    rep.floor('HM1 self-transpose compositions in the manifold maps', n, 10)
    n = round3b.w8(proj, rep, MANIFOLD if tier == 'quick' else None)
    rep.floor('W8 forward trivialization maps scanned for saturating functions', n, 25)
    round3b.dt7(proj, rep, MANIFOLD if tier == 'quick' else None)
    n = kdefects.dt1(proj, rep, [q for q in sorted(proj.modules) if q.startswith('numqi.manifold')])
    rep.floor('DT1 manifold buffers typed after the parameter vector', n, 1)
    n10, n11 = round3b.w10_w11(proj, rep)
    rep.floor('W10 power sites of the Cayley chart', n10, 2)
    rep.floor('W11 triu / tril splits of a parameter matrix', n11, 2)
    n = kdefects.up1_fw1(proj, rep, MANIFOLD if tier == 'quick' else None)
    rep.floor('UP1 / FW1 parameters checked (manifold modules, constructors included)', n, 150)
    n = round3b.dtype1_h7b_gr7_e4b(proj, rep, {'DTYPE1'})
    rep.assume('full rank of the Jacobian at generic theta is value-level: only necessary conditions (parameter count, theta '
               'placed in a field the projection keeps, theta reaches the map) are decided')
    rep.assume('Stiefel so-exp/so-cayley at rank==dim parametrise SO(d)/SU(d) (as the option name says), so the bound used '
               'there is min(dim St(d,r), dim SO/SU(d))')


def c08(proj, rep, tier):
    n = pauli.e1(proj, rep)
    rep.floor('E1 literal table obligations', n, 22)
    nn = round3b.fw2_rnd1_ord1(proj, rep, ['RND1'], ['numqi.gate'])
    rep.floor('RND1 angles quantised to quarter turns', nn['RND1'], 1)
    n = pauli.e2(proj, rep)
    rep.floor('E2 phase-folding obligations', n, 6)
    n = pauli.e4(proj, rep)
    rep.floor('E4 PauliOperator group-law obligations', n, 4)
    n = typestate.h6(proj, rep, ['numqi.gate._pauli.PauliOperator'])
    rep.floor('H6 memo-field stores of PauliOperator', n, 3)
    n = typestate.o4(proj, rep, 'numqi.gate._pauli.PauliOperator', 'F2')
    rep.floor('O4 external reads of PauliOperator.F2 (positive control)', n, 2)
    n = shapes.sh4(proj, rep, ['numqi.gate._pauli'])
    rep.floor('SH4 trailing-axis slices in the Pauli conversions', n, 1)
    n = pauli.e3(proj, rep)
    rep.floor('E3 rand_pauli hermiticity obligations', n, 2)
    ncache, nsites = ownership.o1(proj, rep, focus={'numqi.gate._pauli.get_pauli_group'})
    nfun, tot = seed.run(proj, rep, ['numqi.random._spf2'])
    rep.floor('seed functions in random._spf2 (rand_pauli)', nfun, 4)
    n = twins.tw(proj, rep, ['numqi.gate._pauli'])
    n, n6 = round3b.pr1_e6(proj, rep, ['numqi.gate._pauli'] if tier == 'quick' else None)
    rep.floor('PR1 integer bit-weight constructions (Pauli index conversions)', n, 1)
    rep.floor('E6 functions converting unicode Pauli-string batches', n6, 2)
    n = round3b.par1_st3(proj, rep, ['numqi.gate._pauli', 'numqi.random._spf2'] if tier == 'quick' else None)
    rep.floor('PAR1 / ST3 sweep: functions scanned (Pauli modules)', n, 30)
    n = round3b.dtype1_h7b_gr7_e4b(proj, rep, {'E4B'})
    rep.floor('E4B identity-gated shortcuts in PauliOperator.__matmul__', n, 1)
    n = kdefects.ro1(proj, rep, ['numqi.gate._pauli'])
    rep.floor('RO1 reshape / ravel calls in the Pauli conversions', n, 20)
    n = round3b.id2_lm2_dt12(proj, rep, ['numqi.gate._pauli', 'numqi.random._spf2'] if tier == 'quick' else None)
    rep.floor('ID2 / LM2 / DT12 sweep: functions scanned (Pauli modules)', n, 30)
    n = round3b.e5(proj, rep)
    rep.floor('E5 scalar index -> F2 phase-bit obligations', n, 2)
    n = kdefects.st2(proj, rep, ['numqi.gate._pauli'] if tier == 'quick' else None)
    rep.floor('ST2 shape snapshots used to restore a batch layout (Pauli conversions)', n, 3)
    n = kdefects.fz1_so1_id1_ev1(proj, rep, ['numqi.gate._pauli', 'numqi.random._spf2'] if tier == 'quick' else None)
    rep.floor('ID1 / FZ1 / SO1 / EV1 lint sweep: functions scanned (Pauli modules)', n, 30)
    rep.assume('the group law on F2 vectors (phase carries of product / inverse), byte order of unpackbits and Hermiticity of '
               'rand_pauli are value-level on a finite domain - the right tool is the exhaustive enumeration the property itself '
               'proposes, which is not this family: not decided')


def c12(proj, rep, tier):
    n = axes.x1(proj, rep)
    rep.floor('X1 typed return sites of the channel conversions / applications', n, 9)
    n = axes.kraus_tp(proj, rep)
    rep.floor('TP built-in noise channels', n, 3)
    backend.b1(proj, rep, ['numqi.channel._internal', 'numqi.utils'], expect_match=B1_CHANNEL)
    n = numeric.f1(proj, rep, ['numqi.utils'])
    rep.floor('F1 log sites of the entropy / relative-entropy formulas', n, 10)
    n = kdefects.ro1(proj, rep, ['numqi.channel._internal', 'numqi.utils'])
    rep.floor('RO1 reshape / ravel calls in channel + utils', n, 30)
    n = kdefects.al2(proj, rep, ['numqi.channel._internal'])
    rep.floor('AL2 probe calls of user channel callables', n, 2)
    n = round3b.ch1_ln1(proj, rep)
    rep.floor('CH1 probe loops + LN1 linear application functions', n, 6)
    nfun, nq = round3b.qf1_hm6_ac1_lg1(proj, rep, ['numqi.utils', 'numqi.channel'] if tier == 'quick' else None)
    rep.floor('QF1 quadratic forms vdot(v, M @ v) in utils + channel', nq, 2)
    n = round3b.sg1(proj, rep, ['numqi.gellmann.dm_to_gellmann_basis', 'numqi.gellmann.gellmann_basis_to_dm', 'numqi.gellmann.matrix_to_gellmann_basis',
                                'numqi.gellmann.gellmann_basis_to_matrix'])
    rep.floor('SG1 Gell-Mann conversions with a single formulation', n, 4)
    n = round3b.hm5(proj, rep, ('numqi.utils', 'numqi.channel'))
    rep.floor('HM5 functions of utils + channel with a state argument', n, 8)
    round3b.dt9(proj, rep, ['numqi.gellmann', 'numqi.channel', 'numqi.utils'] if tier == 'quick' else None)
    n6, n7 = round3b.f6_f7(proj, rep, ['numqi.utils', 'numqi.channel'])
    rep.floor('F6 functions of utils + channel scanned (sqrtm / entr of a raw spectrum)', n6, 30)
    n = hermitian.hm1(proj, rep, ['numqi.utils', 'numqi.channel._internal'])
    rep.floor('HM1 self-adjoint compositions / spectral reconstructions in utils + channel', n, 5)
    n = ownership.o3(proj, rep, ['numqi.channel._internal'])
    rep.floor('O3 public functions of numqi.channel', n, 12)
    nf, ns = shapes.sh3(proj, rep, ['numqi.channel._internal', 'numqi.utils'])
    rep.floor('SH3 reshape sites whose axis roles are tracked (channel, utils)', ns, 2)
    rep.assume('contractivity (data processing), fidelity range / symmetry and entropy bounds are theorems about values: not decided; '
               'choi_op_to_bloch_map (double Gell-Mann transform with computed reshapes) is not typed')


def c15(proj, rep, tier):
    nf, ns = masks.ms1(proj, rep, {k: v for k, v in MS1_FUNCS.items() if '_lie' in k})
    rep.floor('MS1 elementwise operations / masked stores in the Euler-angle extraction', ns, 30)
    n = masks.ms2(proj, rep, [k for k in MS1_FUNCS if '_lie' in k])
    rep.floor('MS2 mask-guarded update blocks in the Euler-angle extraction', n, 3)
    n = twins.tw(proj, rep, ['numqi.group._lie'])
    n = angles.ag2(proj, rep)
    rep.floor('AG2 SU(2)->SO(3) polynomial obligations', n, 25)
    n = angles.ag3(proj, rep)
    rep.floor('AG3 Euler constructor / extractor symbolic obligations', n, 17)
    n = angles.ag4(proj, rep)
    rep.floor('AG4 double-cover consistency obligations', n, 10)
    n = angles.ag5(proj, rep)
    rep.floor('AG5 gimbal-threshold defaults', n, 3)
    n = angles.ag1(proj, rep)
    rep.floor('AG1/F3 inverse-trigonometric sites of the angle extraction', n, 6)
    G15 = ['numqi.group._lie', 'numqi.matrix_space._clebsch_gordan'] if tier == 'quick' else None
    n = kdefects.fz1_so1_id1_ev1(proj, rep, G15)
    rep.floor('FZ1 / SO1 / ID1 / EV1 lint sweep: functions scanned (SU(2)/SO(3) modules)', n, 15)
    n = kdefects.up1_fw1(proj, rep, G15)
    rep.floor('UP1 / FW1 parameters checked (SU(2)/SO(3) modules)', n, 30)
    n = round3b.dt6(proj, rep, G15)
    rep.floor('DT6 angle buffers allocated with zeros_like', n, 2)
    round3b.al4(proj, rep, G15)
    n = round3b.ag6(proj, rep)
    rep.floor('AG6 comparisons with the gimbal tolerance in the angle extraction', n, 2)
    n = round3b.pg2_ag7_m3g(proj, rep, {'PG2', 'AG7'})
    rep.floor('PG2 / AG7 obligations (spin-j angle wrap, 4 pi sheet test)', n, 2)
    round3b.dt13_st4(proj, rep, ['numqi.group'])
    rep.assume('numerical accuracy of the recovered angles, the SU(2)->SO(3) homomorphism, Wigner-d and Clebsch-Gordan relations are '
               'value-level: not decided. Decided: batches are converted element-wise (MS1); full-circle angles are never recovered from '
               'one arccos alone (AG1); arccos arguments that reach 1+ulp at degenerate rotations are clipped (F3).')


def c16(proj, rep, tier):
    n = gellmann.g1(proj, rep)
    rep.floor('G1 layout obligations inside numqi.gellmann', n, 12)
    n = gellmann.g4(proj, rep)
    rep.floor('G4 linearity / with_I-order obligations', n, 3)
    n = gellmann.g6(proj, rep)
    rep.floor('G6 Hermiticity / normalisation of the basis arms', n, 4)
    n = kdefects.nz2(proj, rep, ['numqi.gellmann'] if tier == 'quick' else sorted(proj.modules))
    n = kdefects.dt3(proj, rep, ['numqi.gellmann'] if tier == 'quick' else sorted(proj.modules))
    rep.floor('DT3 torch.sqrt normalisers built from arange', n, 1)
    kdefects.kr1(proj, rep, ['numqi.gellmann'] if tier == 'quick' else sorted(proj.modules))
    numeric.f2(proj, rep, ['numqi.gellmann'])
    n = round3b.f9(proj, rep, ['numqi.gellmann'])
    rep.floor('F9 square roots in numqi.gellmann scanned for norm-difference cancellation', n, 2)
    round3b.ax2(proj, rep, ['numqi.gellmann'] if tier == 'quick' else None)
    round3b.dt9(proj, rep, ['numqi.gellmann'] if tier == 'quick' else None)
    n = round3b.gellmann_dtype(proj, rep)
    rep.floor('DT11 torch constructors in numqi.gellmann', n, 3)
    n = round3b.sg1(proj, rep, ['numqi.gellmann.dm_to_gellmann_basis', 'numqi.gellmann.gellmann_basis_to_dm', 'numqi.gellmann.matrix_to_gellmann_basis',
                                'numqi.gellmann.gellmann_basis_to_matrix'])
    rep.floor('SG1 Gell-Mann conversions with a single formulation', n, 4)
    nd, n4 = round3b.dt13_st4(proj, rep, ['numqi.gellmann'] if tier == 'quick' else None)
    rep.floor('ST4 flattened batches of numqi.gellmann that restore their layout', n4, 4)
    nopen, nfun = round3b.ax1_sm1_sinc1_vm1(proj, rep, ['numqi.gellmann'])
    nsite, ntyped = gellmann.g2(proj, rep, None)
    rep.floor('G2 synthesis call sites in the package', nsite, 20)
    rep.floor('G2 projected sites typed', ntyped, 10)
    backend.b1(proj, rep, ['numqi.gellmann'], expect_match=B1_GELLMANN)
    ncache, nsites = ownership.o1(proj, rep, focus={'numqi.gellmann._all_gellmann_matrix_cache'})
    rep.floor('O1 Gell-Mann cache + wrapper', ncache, 2)
    rep.assume('orthogonality Tr(G_i G_j) = 2 delta_ij, exact round trip and the float32 path are value-level: not decided')


def c03(proj, rep, tier):
    n = circuit.d2(proj, rep)
    rep.floor('D2 gate registry entries', n, 24)
    n = adjoint.d1(proj, rep)
    rep.floor('D1 dispatch obligations', n, 17)
    n = circuit.u1(proj, rep)
    rep.floor('U1 to_unitary', n, 2)
    n = relabel.r1(proj, rep)
    rep.floor('R1 leg-relabelling contractions', n, 7)
    n = circuit.d5(proj, rep)
    rep.floor('D5 target-order assignments in the Circuit builders', n, 5)
    n = round3b.lm1(proj, rep, ['numqi.sim'] if tier == 'quick' else None)
    rep.floor('LM1 local memos inside loops (simulator)', n, 1)
    n = round3b.dtype1_h7b_gr7_e4b(proj, rep, {'H7B'})
    rep.floor('H7B register size of Circuit from every index slot', n, 1)
    nd, n4 = round3b.dt13_st4(proj, rep, ['numqi.sim'] if tier == 'quick' else None)
    n = round3b.so2_he1(proj, rep, ['numqi.sim'] if tier == 'quick' else None)
    rep.floor('SO2 set-typed parameters of the simulator', n, 3)
    nl, na, nf = round3b.sim_sweeps(proj, rep)
    rep.floor('D6 sweeps over the gate list', nl, 5)
    rep.floor('NR1 apply_* primitives of the simulator', na, 5)
    rep.floor('PG1 functions of numqi.sim + numqi.gate scanned for angle wrapping', nf, 100)
    round3b.fw2_rnd1_ord1(proj, rep, ['ORD1'], ['numqi.sim'])
    n = round3b.sg1(proj, rep, ['numqi.sim.dm.apply_gate', 'numqi.sim.dm.operator_expectation', 'numqi.sim.state.apply_gate', 'numqi.sim.state.apply_control_n_gate'])
    rep.floor('SG1 simulator kernels with a single formulation', n, 4)
    n = round3b.tr1(proj, rep, ['numqi.sim'])
    rep.floor('TR1 truthiness tests of optional arguments (simulator)', n, 1)
    n = ownership.pu1(proj, rep, ['numqi.sim.state', 'numqi.sim.dm'] if tier == 'quick' else sorted(proj.modules))
    rep.floor('PU1 simulator primitives with in-place stores', n, 3)
    n = typestate.h5(proj, rep, ['numqi.sim.circuit.Circuit'])
    rep.floor('H5 query methods of Circuit', n, 5)
    n = adjoint.ip1(proj, rep)
    rep.floor('IP1 factor order of inner_product_psi0_O_psi1', n, 1)
    n = kdefects.er1(proj, rep, ['numqi.sim.state.apply_gate', 'numqi.sim.dm.apply_gate', 'numqi.sim.dm.operator_expectation', 'numqi.sim.state.apply_gate_grad',
                                 'numqi.sim.state.apply_control_n_gate'])
    rep.floor('ER1 returns of the index-relabelling primitives', n, 4)
    backend.b1(proj, rep, ['numqi.gate._internal'], expect_match=B1_GATE)
    n = ownership.o2(proj, rep)
    rep.floor('O2 cached functions examined', n, 20)
    rep.assume("the kind 'kraus' has no dispatch arm by the source's own `# TODO kraus` (circuit.py): recorded but not claimed")
    rep.assume('the einsum relabelling inside state.apply_gate / _control_n_index / dm.apply_gate is built from computed index '
               'lists and is value-level: not decided')


def c04(proj, rep, tier):
    n = round3b.a13(proj, rep, None)
    rep.floor('A13 custom backward functions scanned for in-place writes into saved tensors', n, 5)
    n = adjoint.a4_a5(proj, rep)
    rep.floor('A4 autograd.Function classes', n, 5)
    n = adjoint.a2_grad_helpers(proj, rep)
    rep.floor('A2 adjoint pairings in the *_grad helpers', n, 4)
    n = adjoint.a_kl(proj, rep)
    rep.floor('A Knill-Laflamme backward obligations', n, 5)
    n = adjoint.d1(proj, rep)
    rep.floor('D1/A1/A3 circuit sweep obligations', n, 17)
    n = relabel.r1(proj, rep)
    rep.floor('R1 leg-relabelling contractions (op_grad legs)', n, 7)
    n = adjoint.a6(proj, rep, ['numqi._torch_op'])
    rep.floor('A6 nonzero-index-table uses in the sqrtm backward', n, 1)
    n = adjoint.a7(proj, rep)
    rep.floor('A7 gradient buffers cleared before backward', n, 1)
    adjoint.a9(proj, rep)
    n = adjoint.a8(proj, rep, ['numqi.utils'])
    rep.floor('A8 custom-backward logm dispatch sites', n, 2)
    backend.b1(proj, rep, ['numqi.gate._internal'], expect_match=B1_GATE)
    n = twins.tw(proj, rep, ['numqi.sim.state', 'numqi.sim._torch_utils', 'numqi._torch_op', 'numqi.qec._internal'])
    rep.floor('TW twin blocks in the backward helpers (grad / conj halves of the op_grad contraction)', n, 2)
    n = round3b.a10(proj, rep)
    rep.floor('A10 forward / backward methods of the autograd Functions', n, 8)
    n = round3b.a11(proj, rep)
    rep.floor('A11 backward primitives whose gradient structure is value-independent', n, 2)
    n = round3b.al3(proj, rep, None)
    rep.floor('AL3 memo keys compared with an argument', n, 3)
    n = round3b.a12(proj, rep)
    rep.floor('A12 backward methods of the autograd Functions', n, 4)
    n = round3b.fd2_det1_nrm1(proj, rep, ['numqi.qec', 'numqi.query', 'numqi.sim', 'numqi._torch_op'] if tier == 'quick' else None)
    rep.floor('DET1 / FD2 / NRM1 sweep: functions scanned (qec, query, sim)', n, 100)
    round3b.sd1(proj, rep, ['numqi._torch_op', 'numqi.sim', 'numqi.qec'] if tier == 'quick' else None)
    rep.assume('that the accumulated numbers equal the derivative (Sylvester backward of sqrtm, Pade logm, the op_grad einsum) is '
               'value-level: not decided')


def c19(proj, rep, tier):
    n = circuit.q1(proj, rep)
    rep.floor('Q1 parser letters', n, 3)
    n = circuit.q2(proj, rep)
    rep.floor('Q2 enumeration obligations', n, 4)
    n = circuit.q5(proj, rep)
    rep.floor('Q5 count loops of the asymmetric error set', n, 2)
    n = circuit.q6(proj, rep)
    rep.floor('Q6 weight-enumerator normalisations', n, 2)
    n = circuit.q7(proj, rep)
    rep.floor('Q7 position-to-label translations in hf_split_element', n, 2)
    n = kdefects.it1(proj, rep, ['numqi.qec._internal', 'numqi.qec._qecc'] if tier == 'quick' else sorted(proj.modules))
    rep.floor('IT1 named iterators in the qec modules', n, 2)
    n = kdefects.al1(proj, rep, ['numqi.qec._internal', 'numqi.qec._qecc'] if tier == 'quick' else sorted(proj.modules))
    rep.floor('AL1 loop-local containers that are modified in place (qec)', n, 2)
    n = circuit.q3(proj, rep)
    rep.floor('Q3 shipped codes', n, 8)
    n = circuit.d2(proj, rep)
    rep.floor('D2 gate registry entries (ties encoder gate names to operators)', n, 24)
    n = stabilizer.q4(proj, rep)
    rep.floor('Q4 encoders interpreted in the tableau domain', n, 8)
    n = adjoint.a_kl(proj, rep)
    rep.floor('A Knill-Laflamme backward obligations', n, 5)
    adjoint.a4_a5(proj, rep, only={'numqi.qec._internal._KnillLaflammeInnerProductTorchOp'})
    backend.b1(proj, rep, ['numqi.qec._varqec', 'numqi.qec._internal'], expect_match=B1_QEC)
    n = ownership.o2(proj, rep)
    rep.floor('O2 cached functions examined', n, 20)
    rep.assume('Q4 assumes the simulator applies each recorded gate as the operator of its registry entry (subject of C03)')
    n = round3b.q8_un1_d4b_chk1(proj, rep, {'Q8', 'UN1'})
    rep.floor('Q8 tokenizer pattern + UN1 split / unpack order in numqi.qec', n, 2)
    n = round3b.al5_nq1_ce1(proj, rep, ['numqi.qec'] if tier == 'quick' else None)
    rep.floor('AL5 / NQ1 / CE1 sweep: functions scanned (qec)', n, 20)
    rep.assume('asymmetric error sets and weight-enumerator sum rules are value-level: not decided')


def c10(proj, rep, tier):
    nfun, tot = seed.run(proj, rep, None)
    n = seed.s5(proj, rep, None)
    rep.floor('S5 bounded index / radix draws', n, 4)
    n = seed.s6(proj, rep, None)
    rep.floor('S6 functions with a seed parameter', n, 40)
    n = seed.s7(proj, rep, None)
    rep.floor('S7 generator constructions from the seed parameter', n, 35)
    rep.floor('seed-accepting functions', nfun, 50)
    rep.floor('S2 nested seeded call sites', tot['S2'], 70)
    rep.floor('S4 generator draws', tot['S4'], 40)
    n = typestate.o4(proj, rep, 'numqi.gate._pauli.PauliOperator', 'F2')
    rep.floor('O4 external reads of PauliOperator.F2 (positive control)', n, 2)
    n = hermitian.hm1(proj, rep, ['numqi.random._internal'] if tier == 'quick' else sorted(proj.modules))
    rep.floor('HM1 self-adjoint compositions in the random generators', n, 8)
    n = kdefects.n2(proj, rep, ['numqi.random._internal', 'numqi.random._public', 'numqi.random._spf2'])
    rep.floor('N2 norms of (count, dim) samples in the random generators', n, 1)
    n = round3b.s8(proj, rep, None)
    rep.floor('S8 unseeded generator constructions in seed-accepting functions', n, 2)
    n = round3b.s9(proj, rep, None)
    rep.floor('S9 generator uses in seed-accepting methods', n, 6)
    n = round3b.fd2_det1_nrm1(proj, rep, ['numqi.random'] if tier == 'quick' else None)
    rep.floor('NRM1 / FD2 / DET1 sweep: functions scanned (random generators)', n, 20)
    round3b.len1(proj, rep, None)
    rep.assume('calls through user callables (model(), gate.forward, theta0 callables) are not followed: the claim is '
               '"no seed leak in numqi\'s own code on the resolved paths"')
    rep.assume('bit-identical output additionally needs deterministic NumPy/LAPACK kernels (assumed)')


def c11(proj, rep, tier):
    n = kdefects.n1(proj, rep, ['numqi.sim.state', 'numqi.sim.circuit', 'numqi.sim.dm'])
    nfun, tot = seed.run(proj, rep, ['numqi.sim.state', 'numqi.sim.circuit'])
    rep.floor('seed-accepting functions in sim.state/sim.circuit', nfun, 4)
    canon = adjoint.canonical_kinds(proj)
    n = adjoint.shift_arms(proj, rep, canon)
    rep.floor('D3 shift arms (measure bookkeeping)', n, 3)
    n = circuit.d4(proj, rep)
    rep.floor('D4 MeasureGate role obligations', n, 3)
    n = measure.m1(proj, rep)
    rep.floor('M1 bit-order obligation', n, 1)
    n = measure.m3(proj, rep)
    rep.floor('M3 Born-rule / collapse structure obligations', n, 7)
    n = round3b.d7(proj, rep)
    rep.floor('D7 dispatch arms of Circuit.apply_state', n, 4)
    n = round3b.pg2_ag7_m3g(proj, rep, {'M3G'})
    rep.floor('M3(g) tolerance obligation of measure_quantum_vector', n, 1)
    n = round3b.q8_un1_d4b_chk1(proj, rep, {'D4B'})
    rep.floor('D4B arguments of the measurement call in MeasureGate.forward', n, 1)
    n = round3b.m4(proj, rep)
    rep.floor('M4 item stores into the collapsed buffer', n, 1)
    n = round3b.gi1(proj, rep)
    rep.floor('GI1 per-position gate/index entries in tables built over enumerate(gate_index_list)', n, 6)
    n = round3b.tr1(proj, rep, ['numqi.sim'] if tier == 'quick' else None)
    rep.floor('TR1 functions with an int-capable parameter (simulator)', n, 10)
    n = kdefects.pu2(proj, rep, ['numqi.sim.circuit.Circuit'])
    rep.floor('PU2 Circuit builder methods that take arguments', n, 10)
    n = ownership.pu1(proj, rep, ['numqi.sim.state'])
    rep.floor('PU1 simulator primitives with in-place stores', n, 2)
    n = adjoint.d1(proj, rep)
    rep.floor('D1 circuit sweep obligations (measure branch goes through MeasureGate.forward)', n, 17)


def c18(proj, rep, tier):
    mods = ['numqi.state._internal', 'numqi.entangle.upb', 'numqi.dicke', 'numqi.utils', 'numqi.unique_determine._internal']
    n = kdefects.k2(proj, rep, mods)
    rep.floor('K2 true divisions in catalogue modules', n, 100)
    n = numeric.f1(proj, rep, mods)
    rep.floor('F1 log sites in catalogue modules', n, 10)
    n = kdefects.rd1(proj, rep, None)
    rep.floor('RD1 return_dm constructors', n, 2)
    nn = round3b.td1_dt14_drop1_rd2(proj, rep, ['TD1', 'DT14', 'RD2'])
    rep.floor('TD1 trial-division sweeps of the package', nn['TD1'], 2)
    rep.floor('RD2 return_dm constructors whose conversion is the last transformation', nn['RD2'], 2)
    nf, ns = masks.ms1(proj, rep, {k: v for k, v in MS1_FUNCS.items() if 'state._internal' in k})
    rep.floor('MS1 sites in the closed-form Werner / isotropic EOF', ns, 10)
    n = masks.ms2(proj, rep, [k for k in MS1_FUNCS if 'state._internal' in k])
    rep.floor('MS2 mask-guarded update blocks in the closed forms', n, 3)
    n = hermitian.pj1(proj, rep, ['numqi.entangle.upb', 'numqi.matrix_space._misc', 'numqi.matrix_space._geometric_measure', 'numqi.manifold._misc'])
    rep.floor('PJ1 complement-projector sites', n, 4)
    wide = mods if tier == 'quick' else sorted(proj.modules)
    n = kdefects.dt1(proj, rep, wide)
    rep.floor('DT1 buffers typed after a parameter', n, 1)
    n = kdefects.st1(proj, rep, wide)
    rep.floor('ST1 list-derived values', n, 2)
    n = kdefects.kr1(proj, rep, ['numqi.utils', 'numqi.state._internal', 'numqi.entangle.upb'])
    rep.floor('KR1 batched Kronecker products (tetrahedron POVM)', n, 1)
    n = ownership.o3(proj, rep, ['numqi.state._internal', 'numqi.entangle.upb', 'numqi.dicke'])
    rep.floor('O3 public constructors of numqi.state / entangle.upb', n, 20)
    n = round3b.o3b(proj, rep, ['numqi.state._internal', 'numqi.entangle.upb', 'numqi.dicke'])
    rep.floor('O3B value returns of the public catalogue constructors', n, 25)
    n = round3b.f8(proj, rep, ['numqi.state._internal'] if tier == 'quick' else None)
    rep.floor('F8 computed radicands with a clamp in reach', n, 1)
    n = round3b.ex1(proj, rep, ['numqi.state._internal', 'numqi.entangle.upb', 'numqi.dicke'] if tier == 'quick' else None)
    rep.floor('EX1 asserted-enumeration dispatch chains (catalogue)', n, 1)
    n6, n7 = round3b.f6_f7(proj, rep, ['numqi.utils', 'numqi.state._internal'])
    rep.floor('F7 entr sites in utils + state catalogue', n7, 2)
    n = round3b.rp1(proj, rep, ['numqi.entangle.upb.load_upb'])
    n = round3b.upb1_gr8(proj, rep, {'UPB1'})
    rep.floor('UPB1 pairs of the literal four-qubit UPB', n, 15)
    nfun, nq = round3b.qf1_hm6_ac1_lg1(proj, rep, ['numqi.state', 'numqi.entangle.upb', 'numqi.dicke', 'numqi.unique_determine._internal'] if tier == 'quick' else None)
    rep.floor('HM6 / AC1 / LG1 / QF1 sweep: functions scanned (catalogue modules)', nfun, 40)
    n = round3b.o6(proj, rep, ['numqi.state._internal', 'numqi.entangle.upb', 'numqi.dicke'])
    rep.floor('O6 value returns of the public catalogue constructors', n, 25)
    n = round3b.id2_lm2_dt12(proj, rep, ['numqi.state', 'numqi.entangle.upb', 'numqi.dicke', 'numqi.unique_determine._internal'] if tier == 'quick' else None)
    rep.floor('DT12 / ID2 / LM2 sweep: functions scanned (catalogue modules)', n, 40)
    rep.floor('RP1 two-party block lists built from role-suffixed parameters', n, 1)


def c20(proj, rep, tier):
    n = numeric.t1(proj, rep, DECISION_C20)
    rep.floor('T1 decision comparisons (C20)', n, 4)
    n = numeric.t2(proj, rep, DECISION_C20)
    rep.floor('T2 tolerance-direction sites (C20)', n, 3)
    n = numeric.t3(proj, rep, DECISION_C20)
    rep.floor('T3 thresholds checked against the precision class (C20)', n, 3)
    n = gellmann.g5(proj, rep)
    rep.floor('G5 (basis, complement) return pairs', n, 7)
    round3b.evs1(proj, rep, ['numqi.matrix_space'] if tier == 'quick' else None)
    nn = round3b.td1_dt14_drop1_rd2(proj, rep, ['DROP1'])
    rep.floor('DROP1 accumulating loops of the hierarchy certificate routines', nn['DROP1'], 3)
    n = kdefects.nz1(proj, rep, ['numqi.matrix_space._misc', 'numqi.matrix_space._numerical_range', 'numqi.matrix_space._hierarchy'] if tier == 'quick' else sorted(proj.modules))
    n = kdefects.k5(proj, rep, ['numqi.matrix_space._numerical_range'])
    rep.floor('K5 eigsh calls in the numerical-range routines', n, 4)
    nf, ns = shapes.sh3(proj, rep, ['numqi.matrix_space._numerical_range', 'numqi.matrix_space._hierarchy', 'numqi.matrix_space._misc']
                        if tier == 'quick' else sorted(proj.modules))
    rep.floor('SH3 reshape sites whose axis roles are tracked (matrix_space)', ns, 3)
    nsite, ntyped = gellmann.g2(proj, rep, ['numqi.matrix_space._misc'])
    rep.floor('G2 projected synthesis sites in matrix_space._misc', ntyped, 2)
    n = gellmann.g3(proj, rep, ['numqi.matrix_space._misc.get_matrix_orthogonal_basis',
                                'numqi.matrix_space._misc.detect_commute_matrix'])
    rep.floor('G3 analyse/reduce/synthesise sites', n, 4)
    G20 = ['numqi.matrix_space._misc', 'numqi.matrix_space._numerical_range', 'numqi.matrix_space._hierarchy'] if tier == 'quick' else None
    n = kdefects.fz1_so1_id1_ev1(proj, rep, G20)
    rep.floor('EV1 / FZ1 / SO1 / ID1 lint sweep: functions scanned (matrix_space)', n, 30)
    rep.floor('EV1 eigenvector selections in matrix_space', rep.analysed.get('EV1.eigenvector_selections', 0), 2)
    round3b.dt4(proj, rep, G20)
    n = round3b.ex1(proj, rep, G20)
    rep.floor('EX1 asserted-enumeration dispatch chains (matrix_space)', n, 3)
    nfun, nre = round3b.fs1_ar4_t4(proj, rep, G20)
    rep.floor('FS1 / AR4 / T4 sweep: functions scanned (matrix_space)', nfun, 30)
    rep.floor('AR4 grouped reshapes of multipartite tensors', nre, 2)
    nfun, nq = round3b.qf1_hm6_ac1_lg1(proj, rep, G20)
    rep.floor('AC1 / HM6 / LG1 / QF1 sweep: functions scanned (matrix_space)', nfun, 30)
    n = round3b.id2_lm2_dt12(proj, rep, G20)
    rep.floor('LM2 / ID2 / DT12 sweep: functions scanned (matrix_space)', n, 30)


def c17(proj, rep, tier):
    n = ptrace.pt1(proj, rep)
    rep.floor('PT1 partial_trace leg-typing obligations', n, 5)
    n = ptrace.pt2(proj, rep)
    rep.floor('PT2 Dicke reduction table obligations', n, 3)
    n = ptrace.pt3(proj, rep)
    rep.floor('PT3 reduction contraction / reorder obligations', n, 4)
    n = ownership.o3(proj, rep, ['numqi.dicke'])
    rep.floor('O3 public functions of numqi.dicke', n, 6)
    n = kdefects.ro1(proj, rep, ['numqi.utils', 'numqi.dicke'] if tier == 'quick' else sorted(proj.modules))
    rep.floor('RO1 reshape / ravel calls in utils + dicke', n, 20)
    n = kdefects.dt2(proj, rep, ['numqi.dicke'])
    rep.floor('DT2 functions of numqi.dicke', n, 7)
    backend.b1(proj, rep, ['numqi.dicke'], expect_match={'numqi.dicke.partial_trace_ABk_to_AB#0'})
    n = kdefects.ar3(proj, rep, ['numqi.dicke', 'numqi.utils'])
    rep.floor('AR3 call sites with bare-name arguments in dicke + utils', n, 7)
    n = round3b.dom1(proj, rep)
    rep.floor('DOM1 admissible-domain lower bounds of the Dicke table constructors', n, 6)
    n = round3b.nr1_extra(proj, rep)
    rep.floor('NR1 reduction maps that stay linear', n, 2)
    n = round3b.mr2(proj, rep)
    rep.floor('MR2 radix keys in numqi.dicke', n, 2)
    nfun, nq = round3b.qf1_hm6_ac1_lg1(proj, rep, ['numqi.dicke', 'numqi.utils'] if tier == 'quick' else None)
    rep.floor('LG1 / HM6 / AC1 / QF1 sweep: functions scanned (dicke + utils)', nfun, 20)
    n = round3b.sg1(proj, rep, ['numqi.dicke.Dicke', 'numqi.dicke.get_dicke_basis'])
    rep.floor('SG1 Dicke constructors with a single formulation', n, 2)
    n = round3b.tr1(proj, rep, ['numqi.utils', 'numqi.dicke'] if tier == 'quick' else None)
    rep.floor('TR1 functions with an int-capable parameter (utils + dicke)', n, 3)
    rep.assume('orthonormality / permutation invariance of the Dicke vectors and the occupation-number identity itself '
               '(<r|D_a><D_b|s> summed over the other copies) are value-level: not decided')


def c09(proj, rep, tier):
    n = symplectic.sp1(proj, rep)
    rep.floor('SP1 radix arms', n, 5)
    n = symplectic.sp2(proj, rep)
    rep.floor('SP2 embedding / extraction', n, 2)
    n = symplectic.sp3(proj, rep)
    rep.floor('SP3 (a_i, b_i) codec obligations', n, 4)
    n = symplectic.sp4(proj, rep)
    rep.floor('SP4 bit/byte order', n, 1)
    n = symplectic.sp5(proj, rep)
    rep.floor('SP5 inner product / transvection / inverse / purity', n, 4)
    n = symplectic.sp6(proj, rep)
    rep.floor('SP6 find_transvection twin blocks', n, 1)
    n = round3b.el1(proj, rep, ['numqi.group.spf2'] if tier == 'quick' else None)
    rep.floor('EL1 new axes appended under an open-rank guard', n, 1)
    n = round3b.dt5(proj, rep, ['numqi.group.spf2', 'numqi.random._spf2'])
    rep.floor('DT5 float-default constructors in the GF(2) modules', n, 5)
    n = round3b.mr1(proj, rep, ['numqi.group.spf2', 'numqi.random._spf2'] if tier == 'quick' else None)
    rep.floor('MR1 single-loop comprehensions scanned for same-number residues', n, 5)
    n = round3b.bi2(proj, rep)
    rep.floor('BI2 functions of numqi.group.spf2 scanned for fixed-width conversions', n, 8)
    n = seed.s5(proj, rep, ['numqi.random._spf2'])
    n = seed.s7(proj, rep, ['numqi.random._spf2'])
    rep.floor('S7 generator constructions in random._spf2', n, 3)
    n = ownership.o5(proj, rep, ['numqi.group.spf2'])
    rep.floor('O5 memoised functions of numqi.group.spf2', n, 1)
    rep.assume('the bijection itself (distinct tuples -> distinct matrices, image = the whole group, Lemma 2 case analysis mapping v0 to v1) '
               'is a property of run-time bit vectors: not decided. Decided: encoder/decoder agreement and the helper tables they share.')


def c14(proj, rep, tier):
    n = groups.gr1(proj, rep)
    rep.floor('GR1 left-regular placement', n, 1)
    n = groups.gr2(proj, rep) + groups.gr2b(proj, rep)
    rep.floor('GR2 literal Klein table + quaternion seed', n, 3)
    n = groups.gr3(proj, rep)
    rep.floor('GR3 residue-arithmetic tables', n, 2)
    round3b.mr3(proj, rep, ['numqi.group'])
    n = groups.gr4(proj, rep)
    rep.floor('GR4 permutation-composition tables', n, 3)
    n = groups.gr5(proj, rep)
    rep.floor('GR5 hook-length obligations', n, 2)
    n = groups.gr6(proj, rep)
    rep.floor('GR6 partition recurrence', n, 1)
    n = hermitian.hm2(proj, rep, ['numqi.group._internal'] if tier == 'quick' else sorted(proj.modules))
    rep.floor('HM2 unitary changes of basis in the irrep reduction', n, 1)
    ncache, nsites = ownership.o1(proj, rep, focus={'numqi.group._symmetric._get_symmetric_group_cayley_table_hf0', 'numqi.group._symmetric._get_hook_length_hf0',
                                                    'numqi.group._symmetric._get_sym_group_num_irrep_hf0'})
    G14 = ['numqi.group._symmetric', 'numqi.group._internal'] if tier == 'quick' else None
    n = round3b.mc2(proj, rep, G14)
    rep.floor('MC2 modules scanned for hand-rolled module-level memos', n, 2)
    n = kdefects.fz1_so1_id1_ev1(proj, rep, G14)
    rep.floor('SO1 / FZ1 / ID1 / EV1 lint sweep: functions scanned (group modules)', n, 25)
    n = kdefects.up1_fw1(proj, rep, G14)
    rep.floor('UP1 parameters read beyond their own normalisation (group modules)', n, 40)
    n = round3b.dt8_ov1(proj, rep, G14)
    rep.floor('DT8 / OV1 sweep: functions scanned (group modules)', n, 25)
    nfun, nq = round3b.qf1_hm6_ac1_lg1(proj, rep, G14)
    rep.floor('HM6 / AC1 / LG1 / QF1 sweep: functions scanned (group modules)', nfun, 25)
    round3b.upb1_gr8(proj, rep, {'GR8'})
    n = round3b.dtype1_h7b_gr7_e4b(proj, rep, {'GR7'})
    rep.floor('GR7 hook-branch bounds of the tableau recursion', n, 1)
    rep.assume('that a computed table satisfies the group axioms, that irreducible blocks are unitary homomorphisms with sum d^2 = |G|, that the Young-diagram '
               'list is the set of partitions and that the tableau enumeration matches the hook-length count are value-level: not decided')


MC3_SCOPE = {
    'C01': MANIFOLD, 'C02': MANIFOLD, 'C03': ['numqi.sim', 'numqi.gate._internal'], 'C04': ['numqi.sim', 'numqi._torch_op', 'numqi.qec', 'numqi.query', 'numqi.optimize'],
    'C05': ['numqi.entangle', 'numqi.utils'], 'C06': ['numqi.entangle', 'numqi.gellmann'], 'C07': ['numqi.sim.clifford', 'numqi.gate._pauli'],
    'C08': ['numqi.gate._pauli', 'numqi.random._spf2'], 'C09': ['numqi.group.spf2', 'numqi.random._spf2'], 'C10': ['numqi'],
    'C11': ['numqi.sim.state', 'numqi.sim.circuit'], 'C12': ['numqi.channel', 'numqi.utils'], 'C13': ['numqi.entangle.eof', 'numqi.entangle.measure', 'numqi._torch_op'],
    'C14': ['numqi.group._symmetric', 'numqi.group._internal'], 'C15': ['numqi.group._lie', 'numqi.matrix_space._clebsch_gordan'], 'C16': ['numqi.gellmann'],
    'C17': ['numqi.dicke', 'numqi.utils'], 'C18': ['numqi.state', 'numqi.entangle.upb', 'numqi.dicke'], 'C19': ['numqi.qec'], 'C20': ['numqi.matrix_space'],
}


def with_mc3(pid, f):
    def g(proj, rep, tier):
        f(proj, rep, tier)
        n = round3b.mc3(proj, rep, MC3_SCOPE[pid] if tier == 'quick' else None)
        if pid != 'C14':
            round3b.mc2(proj, rep, MC3_SCOPE[pid] if tier == 'quick' else None)
        if tier != 'quick':
            rep.floor('MC3 memoised functions of the package (reviewed set)', n, 20)
        # PU1 over the modules of the property (package-wide in the thorough tier); the properties that already run it keep their own floors
        scope = [q for q in sorted(proj.modules) if any(q == x or q.startswith(x + '.') for x in MC3_SCOPE[pid])] if tier == 'quick' else sorted(proj.modules)
        round3b.dtf1(proj, rep, MC3_SCOPE[pid] if tier == 'quick' else None)
        round3b.cast1(proj, rep, MC3_SCOPE[pid] if tier == 'quick' else None)
        round3b.cj1(proj, rep, MC3_SCOPE[pid] if tier == 'quick' else None)
        round3b.bt1_out2_rk1(proj, rep, ['BT1', 'OUT2', 'RK1'], MC3_SCOPE[pid] if tier == 'quick' else None)
        ns = round3b.self1(proj, rep, MC3_SCOPE[pid] if tier == 'quick' else None)
        if tier != 'quick':
            rep.floor('SELF1 sites scanned in the package', ns, 1500)
        nev = round3b.evh1(proj, rep, MC3_SCOPE[pid] if tier == 'quick' else None)
        if tier != 'quick':
            rep.floor('EVH1 transposes of eigh eigenvector matrices in the package', nev, 8)
        nuv = round3b.uv1(proj, rep, MC3_SCOPE[pid] if tier == 'quick' else None)
        if tier != 'quick':
            rep.floor('UV1 local bindings of the package', nuv, 3500)
        nn = round3b.fw2_rnd1_ord1(proj, rep, ['FW2'], MC3_SCOPE[pid] if tier == 'quick' else None)
        if tier != 'quick':
            rep.floor('FW2 same-named options of a numqi callee left at their default', nn['FW2'], 8)
        nfl, ndec = flatten.fl1(proj, rep, MC3_SCOPE[pid] if tier == 'quick' else None)
        if tier != 'quick':
            rep.floor('FL1 reshape / contraction sites typed in the package', ndec, 15)
        if pid != 'C05':
            kdefects.mc1(proj, rep, scope)
        if pid not in ('C03', 'C11'):
            n = ownership.pu1(proj, rep, scope)
            if tier != 'quick':
                rep.floor('PU1 functions with in-place stores in the package', n, 80)
    return g


def dev(proj, rep, tier):
    pass


PROPS = {'C01': c01, 'C02': c02, 'C06': c06, 'C08': c08, 'C13': c13, 'C12': c12, 'C15': c15, 'C16': c16, 'C03': c03, 'C04': c04, 'C05': c05, 'C07': c07, 'C19': c19, 'C10': c10, 'C11': c11, 'C18': c18, 'C20': c20, 'C17': c17, 'C09': c09, 'C14': c14, 'DEV': dev}

for _pid in list(PROPS):
    if _pid in MC3_SCOPE:
        PROPS[_pid] = with_mc3(_pid, PROPS[_pid])
