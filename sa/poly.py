"""Exact multivariate polynomials over Q (for parameter-count formulas) and a tiny symbolic evaluator."""
import ast
import itertools
from fractions import Fraction


class Poly:
    __slots__ = ('t',)

    def __init__(self, terms=None):
        self.t = {k: Fraction(v) for k, v in (terms or {}).items() if v != 0}

    @staticmethod
    def const(c):
        return Poly({(): Fraction(c)})

    @staticmethod
    def var(name):
        return Poly({((name, 1),): Fraction(1)})

    def _coerce(o):
        if isinstance(o, Poly):
            return o
        if isinstance(o, bool):
            return Poly.const(int(o))
        if isinstance(o, (int, Fraction)):
            return Poly.const(o)
        return None

    def __add__(self, o):
        o = Poly._coerce(o)
        if o is None:
            return NotImplemented
        r = dict(self.t)
        for k, v in o.t.items():
            r[k] = r.get(k, 0) + v
        return Poly(r)
    __radd__ = __add__

    def __neg__(self):
        return Poly({k: -v for k, v in self.t.items()})

    def __sub__(self, o):
        o = Poly._coerce(o)
        if o is None:
            return NotImplemented
        return self + (-o)

    def __rsub__(self, o):
        o = Poly._coerce(o)
        return o + (-self)

    def __mul__(self, o):
        o = Poly._coerce(o)
        if o is None:
            return NotImplemented
        r = {}
        for k1, v1 in self.t.items():
            for k2, v2 in o.t.items():
                d = dict(k1)
                for n, e in k2:
                    d[n] = d.get(n, 0) + e
                k = tuple(sorted(d.items()))
                r[k] = r.get(k, 0) + v1 * v2
        return Poly(r)
    __rmul__ = __mul__

    def div_const(self, c):
        return Poly({k: v / Fraction(c) for k, v in self.t.items()})

    def is_const(self):
        return all(k == () for k in self.t)

    def const_value(self):
        return self.t.get((), Fraction(0))

    def vars(self):
        return sorted({n for k in self.t for n, e in k})

    def eval(self, env):
        s = Fraction(0)
        for k, v in self.t.items():
            p = v
            for n, e in k:
                p *= Fraction(env[n]) ** e
            s += p
        return s

    def always_multiple_of(self, m):
        """Is the (integer-coefficient) polynomial divisible by m for all integer arguments?  Exact: an integer polynomial
        is always 0 mod m iff it vanishes mod m on {0..m*L-1}^k where L bounds the degree (we use a generous cube)."""
        if any(v.denominator != 1 for v in self.t.values()):
            return False
        vs = self.vars()
        deg = max([sum(e for n, e in k) for k in self.t] + [0])
        rng = range(0, m * (deg + 1))
        for vals in itertools.product(rng, repeat=len(vs)):
            if self.eval(dict(zip(vs, vals))) % m != 0:
                return False
        return True

    def __eq__(self, o):
        o = Poly._coerce(o)
        if o is None:
            return False
        return self.t == o.t

    def __hash__(self):
        return hash(tuple(sorted(self.t.items())))

    def __repr__(self):
        if not self.t:
            return '0'
        parts = []
        for k, v in sorted(self.t.items(), key=lambda kv: (-sum(e for n, e in kv[0]), kv[0])):
            mon = '*'.join(n if e == 1 else f'{n}^{e}' for n, e in k)
            c = v
            if mon:
                if c == 1:
                    s = mon
                elif c == -1:
                    s = '-' + mon
                else:
                    s = f'{c}*{mon}'
            else:
                s = str(c)
            parts.append(s)
        out = ' + '.join(parts).replace('+ -', '- ')
        return out


class Unknown:
    def __repr__(self):
        return '<?>'


UNK = Unknown()


class Atom:
    """Opaque named constant (torch.float64, ...)."""
    __slots__ = ('name',)

    def __init__(self, name):
        self.name = name

    def __eq__(self, o):
        return isinstance(o, Atom) and o.name == self.name

    def __hash__(self):
        return hash(('Atom', self.name))

    def __repr__(self):
        return self.name


class SymEval:
    """Evaluate a subset of Python over {int, bool, str, None, Poly, tuple, set, Atom}; everything else is UNK."""

    def __init__(self, env):
        self.env = dict(env)

    def ev(self, n):
        try:
            return self._ev(n)
        except (KeyError, TypeError, ZeroDivisionError, AttributeError, ValueError):
            return UNK

    def _ev(self, n):
        if isinstance(n, ast.Constant):
            return n.value
        if isinstance(n, ast.Name):
            return self.env.get(n.id, UNK)
        if isinstance(n, ast.Attribute):
            base = ast.unparse(n)
            if base in self.env:
                return self.env[base]
            if isinstance(n.value, ast.Name) and n.value.id in ('torch', 'np', 'numpy'):
                return Atom(f'{n.value.id}.{n.attr}')
            return UNK
        if isinstance(n, ast.Tuple):
            return tuple(self._ev(e) for e in n.elts)
        if isinstance(n, (ast.Set, ast.List)):
            vals = [self._ev(e) for e in n.elts]
            if any(v is UNK for v in vals):
                return UNK
            return set(vals) if isinstance(n, ast.Set) else list(vals)
        if isinstance(n, ast.UnaryOp):
            v = self._ev(n.operand)
            if v is UNK:
                return UNK
            if isinstance(n.op, ast.Not):
                return not v
            if isinstance(n.op, ast.USub):
                return -v
            return UNK
        if isinstance(n, ast.BinOp):
            a, b = self._ev(n.left), self._ev(n.right)
            if a is UNK or b is UNK:
                return UNK
            if isinstance(a, tuple) and isinstance(b, tuple) and isinstance(n.op, ast.Add):
                return a + b
            if isinstance(a, (Poly, int, bool)) and isinstance(b, (Poly, int, bool)):
                pa, pb = Poly._coerce(a), Poly._coerce(b)
                if isinstance(n.op, ast.Add):
                    return self._simp(pa + pb)
                if isinstance(n.op, ast.Sub):
                    return self._simp(pa - pb)
                if isinstance(n.op, ast.Mult):
                    return self._simp(pa * pb)
                if isinstance(n.op, ast.Div):
                    if pb.is_const() and pb.const_value() != 0:
                        return self._simp(pa.div_const(pb.const_value()))
                    return UNK
                if isinstance(n.op, ast.FloorDiv):
                    if pb.is_const() and pb.const_value() > 0 and pb.const_value().denominator == 1:
                        m = int(pb.const_value())
                        if pa.always_multiple_of(m):
                            return self._simp(pa.div_const(m))
                    return UNK
                if isinstance(n.op, ast.Pow) and pb.is_const() and pb.const_value().denominator == 1 and 0 <= pb.const_value() <= 6:
                    r = Poly.const(1)
                    for _ in range(int(pb.const_value())):
                        r = r * pa
                    return self._simp(r)
            return UNK
        if isinstance(n, ast.BoolOp):
            vals = [self._ev(v) for v in n.values]
            if isinstance(n.op, ast.And):
                if any(v is False for v in vals):
                    return False
                if any(v is UNK for v in vals):
                    return UNK
                return all(vals)
            if any(v is True for v in vals):
                return True
            if any(v is UNK for v in vals):
                return UNK
            return any(vals)
        if isinstance(n, ast.Compare):
            if len(n.ops) != 1:
                return UNK
            a, b = self._ev(n.left), self._ev(n.comparators[0])
            op = n.ops[0]
            if isinstance(op, ast.Is):
                if b is None:
                    return UNK if a is UNK else (a is None)
                return UNK
            if isinstance(op, ast.IsNot):
                if b is None:
                    return UNK if a is UNK else (a is not None)
                return UNK
            if a is UNK or b is UNK:
                return UNK
            if isinstance(op, ast.Eq):
                if isinstance(a, Poly) or isinstance(b, Poly):
                    pa, pb = Poly._coerce(a), Poly._coerce(b)
                    if pa is None or pb is None:
                        return False
                    d = pa - pb
                    return True if not d.t else (False if d.is_const() else UNK)
                return a == b
            if isinstance(op, ast.NotEq):
                if isinstance(a, Poly) or isinstance(b, Poly):
                    return UNK
                return a != b
            if isinstance(op, ast.In):
                return a in b
            if isinstance(op, ast.NotIn):
                return a not in b
            return UNK
        if isinstance(n, ast.IfExp):
            t = self._ev(n.test)
            if t is UNK:
                return UNK
            return self._ev(n.body) if t else self._ev(n.orelse)
        if isinstance(n, ast.Call):
            if isinstance(n.func, ast.Name) and n.func.id in ('int', 'bool') and len(n.args) == 1:
                return self._ev(n.args[0])
            return UNK
        return UNK

    def _simp(self, p):
        if isinstance(p, Poly) and p.is_const() and p.const_value().denominator == 1:
            return int(p.const_value())
        return p

    # ---- statements
    def run(self, body, on_call=None):
        """Execute a straight-line/if body; returns False if a Return was executed."""
        for st in body:
            if isinstance(st, ast.Assign):
                v = self.ev(st.value)
                for t in st.targets:
                    self._bind(t, v)
                if on_call:
                    on_call(st.value, self)
            elif isinstance(st, ast.AugAssign):
                if isinstance(st.target, ast.Name):
                    cur = self.env.get(st.target.id, UNK)
                    v = self.ev(ast.BinOp(left=st.target, op=st.op, right=st.value))
                    self.env[st.target.id] = v
            elif isinstance(st, ast.If):
                t = self.ev(st.test)
                if t is UNK:
                    # both arms unknown: names assigned in either arm become UNK
                    for s in ast.walk(st):
                        if isinstance(s, ast.Name) and isinstance(s.ctx, ast.Store):
                            self.env[s.id] = UNK
                elif t:
                    if self.run(st.body, on_call) is False:
                        return False
                else:
                    if self.run(st.orelse, on_call) is False:
                        return False
            elif isinstance(st, ast.Expr):
                if on_call:
                    on_call(st.value, self)
            elif isinstance(st, ast.Return):
                self.env['<return>'] = st.value
                return False
            elif isinstance(st, (ast.Assert, ast.Pass, ast.FunctionDef, ast.Import, ast.ImportFrom)):
                continue
            else:
                for s in ast.walk(st):
                    if isinstance(s, ast.Name) and isinstance(s.ctx, ast.Store):
                        self.env[s.id] = UNK
        return True

    def _bind(self, t, v):
        if isinstance(t, ast.Name):
            self.env[t.id] = v
        elif isinstance(t, ast.Attribute):
            self.env[ast.unparse(t)] = v
        elif isinstance(t, ast.Tuple):
            if isinstance(v, tuple) and len(v) == len(t.elts):
                for e, x in zip(t.elts, v):
                    self._bind(e, x)
            else:
                for e in t.elts:
                    self._bind(e, UNK)
