"""Tiny exact polynomial arithmetic with complex (Gaussian-rational) coefficients, for sibling comparison of literal formulas.
Coefficients are pairs of Fractions (re, im); monomials are sorted tuples of (var, power)."""
import ast
from fractions import Fraction


class CPoly:
    def __init__(self, terms=None):
        self.t = {k: v for k, v in (terms or {}).items() if v != (0, 0)}

    @staticmethod
    def const(c):
        if isinstance(c, complex):
            return CPoly({(): (Fraction(c.real).limit_denominator(1 << 20), Fraction(c.imag).limit_denominator(1 << 20))})
        return CPoly({(): (Fraction(c).limit_denominator(1 << 20), Fraction(0))})

    @staticmethod
    def var(n):
        return CPoly({((n, 1),): (Fraction(1), Fraction(0))})

    def __add__(self, o):
        r = dict(self.t)
        for k, (a, b) in o.t.items():
            x, y = r.get(k, (Fraction(0), Fraction(0)))
            r[k] = (x + a, y + b)
        return CPoly(r)

    def __neg__(self):
        return CPoly({k: (-a, -b) for k, (a, b) in self.t.items()})

    def __sub__(self, o):
        return self + (-o)

    def __mul__(self, o):
        r = {}
        for k1, (a, b) in self.t.items():
            for k2, (c, d) in o.t.items():
                m = dict(k1)
                for n, e in k2:
                    m[n] = m.get(n, 0) + e
                k = tuple(sorted(m.items()))
                x, y = r.get(k, (Fraction(0), Fraction(0)))
                r[k] = (x + a * c - b * d, y + a * d + b * c)
        return CPoly(r)

    def is_zero(self):
        return not self.t

    def __eq__(self, o):
        return (self - o).is_zero()

    def __repr__(self):
        return ' + '.join(f'({a}+{b}j)*' + '*'.join(f'{n}^{e}' for n, e in k) for k, (a, b) in sorted(self.t.items())) or '0'


class Unsupported(Exception):
    pass


def from_ast(e, env):
    """CPoly of a Python arithmetic expression over the names in env (name -> CPoly)"""
    if isinstance(e, ast.Constant) and isinstance(e.value, (int, float, complex)) and not isinstance(e.value, bool):
        return CPoly.const(e.value)
    if isinstance(e, ast.Name):
        if e.id in env:
            return env[e.id]
        raise Unsupported(e.id)
    if isinstance(e, ast.UnaryOp) and isinstance(e.op, ast.USub):
        return -from_ast(e.operand, env)
    if isinstance(e, ast.UnaryOp) and isinstance(e.op, ast.UAdd):
        return from_ast(e.operand, env)
    if isinstance(e, ast.BinOp):
        if isinstance(e.op, ast.Add):
            return from_ast(e.left, env) + from_ast(e.right, env)
        if isinstance(e.op, ast.Sub):
            return from_ast(e.left, env) - from_ast(e.right, env)
        if isinstance(e.op, ast.Mult):
            return from_ast(e.left, env) * from_ast(e.right, env)
        if isinstance(e.op, ast.Pow) and isinstance(e.right, ast.Constant) and isinstance(e.right.value, int) and 0 <= e.right.value <= 6:
            r = CPoly.const(1)
            b = from_ast(e.left, env)
            for _ in range(e.right.value):
                r = r * b
            return r
        if isinstance(e.op, ast.Div) and isinstance(e.right, ast.Constant) and isinstance(e.right.value, (int, float)) and e.right.value != 0:
            return from_ast(e.left, env) * CPoly.const(Fraction(1) / Fraction(e.right.value).limit_denominator(1 << 20))
    raise Unsupported(ast.unparse(e)[:40])
