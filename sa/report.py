"""Obligation bookkeeping, verdicts, known findings, evidence files."""
import ast
import hashlib
import json
import os
import time

from .project import norm_text, AnalysisError

VERIF = os.path.dirname(os.path.dirname(os.path.abspath(__file__)))
KNOWN = os.path.join(VERIF, 'known_findings.json')


def load_known():
    if not os.path.exists(KNOWN):
        return {'open': [], 'fixed': []}
    with open(KNOWN) as f:
        d = json.load(f)
    d.setdefault('open', [])
    d.setdefault('fixed', [])
    return d


class Report:
    def __init__(self, prop, tier, seed=0):
        self.prop = prop
        self.tier = tier
        self.seed = seed
        self.t0 = time.time()
        self.items = []          # every obligation
        self.errors = []         # analysis errors (exit 2)
        self.rules = {}          # rule -> text
        self.analysed = {}       # free-form counters / lists
        self.modules = {}        # relpath -> digest
        self.assumptions = []
        self.selftest = None

    # ---------------------------------------------------------------- inputs
    def rule(self, rid, text):
        self.rules[rid] = ' '.join(text.split())

    def touch(self, mod):
        self.modules[mod.relpath] = mod.digest

    def count(self, key, n=1):
        self.analysed[key] = self.analysed.get(key, 0) + n

    def note(self, key, value):
        self.analysed[key] = value

    def assume(self, text):
        if text not in self.assumptions:
            self.assumptions.append(text)

    # ------------------------------------------------------------- verdicts
    def _item(self, status, rule, construct, detail, mod, node, text=None):
        line = getattr(node, 'lineno', None) if node is not None else None
        if text is None and node is not None and isinstance(node, ast.AST):
            try:
                text = norm_text(node)
            except Exception:
                text = ''
        it = dict(status=status, rule=rule, construct=construct, detail=detail,
                  file=mod.relpath if mod is not None else None, line=line,
                  text=(text or '')[:300])
        it['key'] = f"{rule}|{construct}|{(text or '')[:300]}"
        if mod is not None:
            self.touch(mod)
        self.items.append(it)
        return it

    def ok(self, rule, construct, detail='', mod=None, node=None, text=None):
        return self._item('ok', rule, construct, detail, mod, node, text)

    def violation(self, rule, construct, detail, mod=None, node=None, text=None):
        return self._item('violation', rule, construct, detail, mod, node, text)

    def undecided(self, rule, construct, detail, mod=None, node=None, text=None):
        return self._item('undecided', rule, construct, detail, mod, node, text)

    def error(self, msg):
        self.errors.append(msg)

    def floor(self, name, got, minimum):
        """A rule that matches fewer instances than were confirmed by hand cannot pass."""
        self.analysed[f'floor:{name}'] = {'found': got, 'minimum': minimum}
        if got < minimum:
            self.error(f'instance floor not met: {name}: found {got} < {minimum} '
                       f'(anchor moved or idiom unknown to the rule; re-calibrate)')

    # ------------------------------------------------------------- finalise
    def finish(self, replay_dir=None, quiet=False):
        known = load_known()
        open_keys = {}
        for k in known['open']:
            if k.get('property') == self.prop:
                open_keys[k['key']] = k
        viol = [i for i in self.items if i['status'] == 'violation']
        und = [i for i in self.items if i['status'] == 'undecided']
        oks = [i for i in self.items if i['status'] == 'ok']
        new, listed = [], []
        seen = set()
        for v in viol:
            if v['key'] in seen:
                continue
            seen.add(v['key'])
            (listed if v['key'] in open_keys else new).append(v)
        lines = []
        for v in listed:
            lines.append(f"KNOWN-FINDING: property={self.prop} {v['rule']} {v['construct']} "
                         f"({v['file']}:{v['line']}) {open_keys[v['key']].get('what', v['detail'])}")
        stale = [k for k in open_keys if k not in seen]
        replay_dir = replay_dir or os.path.join(VERIF, 'evidence', 'violations')
        for v in new:
            os.makedirs(replay_dir, exist_ok=True)
            h = hashlib.sha256(v['key'].encode()).hexdigest()[:10]
            path = os.path.join(replay_dir, f'{self.prop}-{h}.json')
            with open(path, 'w') as f:
                json.dump(dict(property=self.prop, **v, rule_text=self.rules.get(v['rule'], '')), f, indent=1)
            lines.append(f"  {v['file']}:{v['line']}: [{v['rule']}] {v['construct']}: {v['detail']}")
            lines.append(f"    >> {v['text']}")
            lines.append(f"VIOLATION property={self.prop} replay={path}")
        for e in self.errors:
            lines.append(f'ANALYSIS-ERROR property={self.prop} {e}')
        code = 0
        if self.errors:
            code = 2
        if new:
            code = 1
        wall = time.time() - self.t0
        n_obl = len(oks) + len(viol) + len(und)
        per_rule = {}
        for i in self.items:
            d = per_rule.setdefault(i['rule'], {'ok': 0, 'violation': 0, 'undecided': 0})
            d[i['status']] += 1
        samples = []
        rules_seen = set()
        for i in self.items:           # one sample per (rule, status) first, then fill
            k = (i['rule'], i['status'])
            if k in rules_seen:
                continue
            rules_seen.add(k)
            samples.append({x: i[x] for x in ('status', 'rule', 'construct', 'file', 'line', 'detail', 'text')})
        for i in self.items:
            if len(samples) >= 60:
                break
            s = {x: i[x] for x in ('status', 'rule', 'construct', 'file', 'line', 'detail', 'text')}
            if s not in samples:
                samples.append(s)
        distinct = len({i['key'] for i in self.items})
        explanation = (
            'Static analysis of the working-tree sources with python ast (nothing from numqi is imported or run). '
            'Each obligation is one (rule, construct) instance found in the code; "ok" = the rule is discharged at '
            'that construct, "violation" = the construct is by itself sufficient for the clause to fail, '
            '"undecided" = idiom outside the rule (never reported as a violation). Rules applied: '
            + '; '.join(f'{k}: {v}' for k, v in sorted(self.rules.items())))
        ev = {
            'property_id': self.prop,
            'tier': self.tier,
            'seed': int(self.seed),
            'level': 'other',
            'coverage': {
                'explanation': explanation,
                'obligations': n_obl,
                'discharged': len(oks),
                'undecided': len(und),
                'violations_total': len(viol),
                'violations_known': len(listed),
                'evaluations': max(n_obl, 1),
                'distinct_nontrivial': max(distinct, 0),
                'rule': 'one obligation per (rule, construct) instance located by the analysis in the current tree; '
                        'distinct = distinct (rule, construct, normalised statement text) keys',
                'per_rule': per_rule,
                'analysed': self.analysed,
                'modules': self.modules,
                'samples': samples,
                'undecided_items': [{x: i[x] for x in ('rule', 'construct', 'file', 'line', 'detail')} for i in und][:40],
                'exhaustive': False,
                'trusted_base': ['CPython ast parser', 'NumPy/PyTorch API conventions encoded in the rule tables',
                                 'name resolution of sa/project.py (unresolved callees are listed, not guessed)'],
            },
            'assumptions': self.assumptions,
            'wall_s': round(wall, 3),
            'violations': len(new),
        }
        if self.selftest is not None:
            ev['coverage']['selftest'] = self.selftest
        if stale:
            ev['coverage']['known_findings_not_reproduced'] = stale
        ev['coverage']['exit_code'] = code
        if not quiet:
            for ln in lines:
                print(ln)
            print(f'[{self.prop}/{self.tier}] obligations={n_obl} ok={len(oks)} undecided={len(und)} '
                  f'violations={len(viol)} (known={len(listed)}, new={len(new)}) errors={len(self.errors)} '
                  f'modules={len(self.modules)} wall={wall:.2f}s -> exit {code}')
        return code, ev, new


def write_evidence(prop, ev):
    d = os.path.join(VERIF, 'evidence')
    os.makedirs(d, exist_ok=True)
    with open(os.path.join(d, f'{prop}.json'), 'w') as f:
        json.dump(ev, f, indent=1, sort_keys=False, default=str)
