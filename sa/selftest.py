"""Self-test of the checker (thorough tier): a corpus of variants of the current tree, each built in a scratch directory,
analysed in a worker process and deleted.

Three kinds of variants
  * re-introduced defects: the reverse of each `fix:` commit (selftest/patches/fix_*.diff, applied with git apply -R);
  * seeded changes confirmed in scratch worktrees (/verif/seeded/<id>-m<k>/patch.diff) with the verdict recorded for them;
  * textual edits computed here (`edit` = list of (relative file, old, new)): breaking ones that must be reported by a named
    rule, and behaviour-preserving ones that must stay silent.
A breaking variant that is not reported, or a preserving variant that is, makes the thorough run fail with exit 2.
A variant whose edit no longer applies to the tree is counted as skipped (the tree moved), never as a pass.
"""
import json
import multiprocessing as mp
import os
import shutil
import subprocess
import tempfile

HERE = os.path.dirname(os.path.dirname(os.path.abspath(__file__)))
REPO = os.environ.get('NUMQI_REPO', '/repo')
PATCHES = os.path.join(HERE, 'selftest', 'patches')

M = 'python/numqi/'
# name -> dict(kind, ..., expect={prop: rule or None})   rule=None means "must stay silent (exit 0)"
VARIANTS = {}


def breaking(name, prop_rules, patch_reverse=None, patch=None, edit=None):
    VARIANTS[name] = dict(kind='breaking', patch_reverse=patch_reverse, patch=patch, edit=edit, expect=prop_rules)


def preserving(name, props, edit):
    VARIANTS[name] = dict(kind='preserving', edit=edit, expect={p: None for p in props})


# ---- re-introduced defects (reverse of the fix commits)
breaking('refix-rand_bipartite_state', {'C10': 'S2'}, patch_reverse='fix_957efd3.diff')
breaking('refix-rand_Clifford_group', {'C10': 'S2'}, patch_reverse='fix_b18995a.diff')
breaking('refix-check_UD_is_UD', {'C10': 'S2'}, patch_reverse='fix_eac86f7.diff')
breaking('refix-measure_quantum_vector', {'C11': 'N1'}, patch_reverse='fix_ebe18c0.diff')
breaking('refix-get_negativity', {'C05': 'K1'}, patch_reverse='fix_6340280.diff')
breaking('refix-is_generalized_ppt', {'C05': 'T1'}, patch_reverse='fix_be56f3f.diff')
breaking('refix-get_eof_2qubit', {'C05': 'F1', 'C13': 'F1'}, patch_reverse='fix_02c1816.diff')
breaking('refix-werner-isotropic-eof', {'C18': 'F1'}, patch_reverse='fix_36cf286.diff')
breaking('refix-maximally_mixed_state', {'C18': 'K2'}, patch_reverse='fix_29edc9b.diff')
breaking('refix-SeparableDensityMatrix', {'C01': 'K3'}, patch_reverse='fix_88b6ae2.diff')
breaking('refix-cayley', {'C02': 'G2'}, patch_reverse='fix_55bbd5a.diff')
breaking('refix-clifford-cache', {'C07': 'H1'}, patch_reverse='fix_c3ac8d1.diff')
breaking('refix-parse_simple_pauli', {'C19': 'Q1'}, patch_reverse='fix_c93f031.diff')
breaking('refix-so3_to_angle', {'C15': 'MS1'}, edit=[(M + 'group/_lie.py', "tmp0 = np.arctan2(x10[ind0], x00[ind0]) % (2*np.pi) #(0,2*pi) alpha+gamma", "tmp0 = np.arctan2(x10, x00) % (2*np.pi) #(0,2*pi) alpha+gamma"), (M + 'group/_lie.py', "tmp1 = np.arccos(np.clip(x02[ind2]*tmp0, -1, 1)) #(0,pi)", "tmp1 = np.arccos(np.clip(x02*tmp0, -1, 1)) #(0,pi)")])
breaking('refix-rank-one-detector', {'C20': 'T1'}, patch_reverse='fix_4bf16b8.diff')
breaking('refix-to_ball', {'C01': 'RB1'}, patch_reverse='fix_24b05d5.diff')
breaking('refix-maximally_coherent_state', {'C18': 'RD1'}, patch_reverse='fix_b540f01.diff')
breaking('refix-gimbal-sign', {'C15': 'AG1'}, edit=[(M + 'group/_lie.py', "tmp0 = np.arctan2(x10[ind0], x00[ind0]) % (2*np.pi) #(0,2*pi) alpha+gamma", "tmp0 = np.arccos(np.clip(x00[ind0], -1, 1)) #(0,pi) alpha+gamma")])
breaking('refix-arccos-clip-beta', {'C15': 'F3'}, edit=[(M + 'group/_lie.py', "beta = np.arccos(np.clip(x22, -1, 1))", "beta = np.arccos(x22)")])
breaking('refix-arccos-clip-generic', {'C15': 'F3'}, patch_reverse='fix_8f74388.diff')
breaking('refix-euler-batch', {'C01': 'SH1'}, patch_reverse='fix_e495357.diff')
breaking('R1-conj-wrong-condition', {'C03': 'R1'}, edit=[(M + 'sim/dm.py', "tmp2 = np.conjugate(op).reshape(", "tmp2 = (op if np.isrealobj(dm) else np.conjugate(op)).reshape(")])
breaking('R1-control-uniform-offset', {'C03': 'R1'}, edit=[(M + 'sim/state.py', "    tmp0 = [x for x in range(num_qubit) if x not in ind_control_set]\n    index_map = {y:x for x,y in enumerate(tmp0)}\n    ind_target_new = [index_map[x] for x in ind_target]", "    tmp0 = sum(1 for x in ind_control_set if x<ind_target[0])\n    ind_target_new = [(x-tmp0) for x in ind_target]")])
breaking('D5-sorted-targets', {'C03': 'D5'}, edit=[(M + 'sim/circuit.py', "target_qubit = hf_tuple_of_int(index[1])", "target_qubit = tuple(sorted(hf_tuple_of_int(index[1])))")])
breaking('refix-euler-rank-eq-dim', {'C01': 'SH2'}, patch_reverse='fix_dd44bd4.diff')
breaking('SH2-row-short', {'C01': 'SH2'}, edit=[(M + 'manifold/_stiefel.py', "rowJ = np.concatenate([ct[:,:1], ct[:,1:]*cum_st[:,:-1], cum_st[:,-1:]], axis=1).reshape(batch,N0+1,1)", "rowJ = np.concatenate([ct[:,:1], ct[:,2:]*cum_st[:,:-2], cum_st[:,-1:]], axis=1).reshape(batch,N0+1,1)")])
breaking('refix-asym-error-set', {'C19': 'Q5'}, patch_reverse='fix_b3deded.diff')
breaking('HM1-lost-conj', {'C10': 'HM1'}, edit=[(M + 'random/_internal.py', "        tmp0 = EVC.T.conj() if tag_complex else EVC.T\n        ret = (EVC * EVL) @ tmp0", "        ret = (EVC * EVL) @ EVC.T")])
breaking('HM1-lost-conj-ginibre', {'C10': 'HM1'}, edit=[(M + 'random/_internal.py', "ret = ginibre_ensemble @ ginibre_ensemble.T.conj()", "ret = ginibre_ensemble @ ginibre_ensemble.T")])
breaking('A6-batch-column-dropped', {'C04': 'A6'}, edit=[(M + '_torch_op.py', "tmp1[ind_zero[:,0],ind_zero[:,1],ind_zero[:,1]] = 0", "tmp1[:,ind_zero[:,1],ind_zero[:,1]] = 0")])
breaking('G4-antilinear-synthesis', {'C16': 'G4'}, edit=[(M + 'gellmann.py', "ret1 = torch.scatter(zero0, 0, indU012, (vec0 + 1j*vec1).view(-1)).reshape(N0, N1, N1).transpose(1,2)", "ret1 = ret0.conj().transpose(1,2)")])
breaking('G4-with_I-before-kron', {'C16': 'G4'}, edit=[(M + 'gellmann.py', "    tmp0 = [gellmann_matrix(0, 0, d)]\n", "    tmp0 = [gellmann_matrix(0, 0, d)] if with_I else []\n")])
breaking('T3-gram-nuclear-norm', {'C05': 'T3'}, edit=[(M + 'entangle/ppt.py', "ret.append((dim0, dim1, np.linalg.norm(tmp1, ord='nuc')))", "ret.append((dim0, dim1, np.sqrt(np.maximum(0, np.linalg.eigvalsh(tmp1 @ tmp1.T.conj()))).sum()))")])
breaking('SV1-status-optimal-only', {'C05': 'SV1'}, edit=[(M + 'entangle/symext.py', "tmp0 = not np.isinf(prob.value)", "tmp0 = prob.status==cvxpy.OPTIMAL")])
breaking('B1-dropped-clamp', {'C12': 'B1'}, edit=[(M + 'utils.py', "            ret = np.sum(np.sqrt(np.maximum(0, tmp2)))**2", "            ret = np.sum(np.sqrt(tmp2))**2")])
breaking('Q5-nz-short', {'C19': 'Q5'}, edit=[(M + 'qec/_internal.py', "for nz in range(min(num_qubit-nxy+1, tmp0)):", "for nz in range(min(num_qubit-nxy, tmp0)):")])
breaking('E3-wrong-slot', {'C08': 'E3'}, edit=[(M + 'random/_spf2.py', "            F2[1] = 1-tmp0", "            F2[0] = 1-tmp0")])
breaking('E2-unreduced-code', {'C08': 'E2'}, edit=[(M + 'gate/_pauli.py', "tmp0 = np.einsum(ret[:,:num_qubit], [0,1], ret[:,num_qubit:], [0,1], [0], optimize=True) % 4", "tmp0 = np.einsum(ret[:,:num_qubit], [0,1], ret[:,num_qubit:], [0,1], [0], optimize=True)")])
breaking('F4-unstable-softplus', {'C01': 'F4'}, edit=[(M + 'manifold/_internal.py', "    tmp0 = np.sign(x)\n    ret = np.log1p(np.exp(-tmp0 * x)) + (1+tmp0)/2 * x", "    ret = x + np.log1p(np.exp(-x))")])
preserving('Q5-commuted-bound', ['C19'], edit=[(M + 'qec/_internal.py', "for nz in range(min(num_qubit-nxy+1, tmp0)):", "for nz in range(min(1+num_qubit-nxy, tmp0)):")])
preserving('F4-abs-form', ['C01'], edit=[(M + 'manifold/_internal.py', "    tmp0 = np.sign(x)\n    ret = np.log1p(np.exp(-tmp0 * x)) + (1+tmp0)/2 * x", "    ret = np.log1p(np.exp(-np.abs(x))) + np.maximum(x, 0)")])
preserving('HM1-conj-first', ['C10'], edit=[(M + 'random/_internal.py', "ret = ginibre_ensemble @ ginibre_ensemble.T.conj()", "ret = ginibre_ensemble @ ginibre_ensemble.conj().T")])
preserving('R1-control-renamed', ['C03', 'C04'], edit=[(M + 'sim/state.py', "    tmp0 = [x for x in range(num_qubit) if x not in ind_control_set]\n    index_map = {y:x for x,y in enumerate(tmp0)}\n    ind_target_new = [index_map[x] for x in ind_target]", "    kept = [q for q in range(num_qubit) if q not in ind_control_set]\n    position = {q:k for k,q in enumerate(kept)}\n    ind_target_new = [position[q] for q in ind_target]")])
preserving('D5-explicit-tuple', ['C03'], edit=[(M + 'sim/circuit.py', "target_qubit = hf_tuple_of_int(index[1])", "target_qubit = tuple(int(x) for x in index[1])")])
preserving('A6-named-columns', ['C04'], edit=[(M + '_torch_op.py', "tmp1[ind_zero[:,0],ind_zero[:,1],ind_zero[:,1]] = 0", "tmp1[ind_zero[:,0], ind_zero[:,1], ind_zero[:,1]] = 0.0")])
preserving('SV1-isinf-swapped', ['C05'], edit=[(M + 'entangle/symext.py', "tmp0 = not np.isinf(prob.value)", "tmp0 = (not np.isinf(prob.value))")])
breaking('PT1-loop-over-kept', {'C17': 'PT1'}, edit=[(M + 'utils.py', "    tmp2 = set(range(N0))-set(keep_index)\n", "    tmp2 = set(keep_index)\n")])
breaking('PT1-output-cols-first', {'C17': 'PT1'}, edit=[(M + 'utils.py', "    tmp3 = list(keep_index) + [x+N0 for x in keep_index]", "    tmp3 = [x+N0 for x in keep_index] + list(keep_index)")])
breaking('PT1-wrong-shared-leg', {'C17': 'PT1'}, edit=[(M + 'utils.py', "    for x in tmp2:\n        tmp1[x] = x\n", "    for x in tmp2:\n        tmp1[x] = 0\n")])
breaking('PT2-swapped-occupations', {'C17': 'PT2'}, edit=[(M + 'dicke.py', "tmp3 = np.sqrt(klist_np[tmp1,ind0]*klist_np[tmp2,ind1])/num_qudit", "tmp3 = np.sqrt(klist_np[tmp1,ind1]*klist_np[tmp2,ind0])/num_qudit")])
breaking('PT3-conj-on-ket', {'C17': 'PT3'}, edit=[(M + 'dicke.py', "ret.append((state[:,ind0] * value) @ state_conj[:,ind1].T)", "ret.append((state_conj[:,ind0] * value) @ state[:,ind1].T)")])
breaking('PT3-numpy-no-reorder', {'C17': 'PT3'}, edit=[(M + 'dicke.py', ".reshape(dimA,dimA,dimB,dimB).transpose(0,2,1,3).reshape(dimA*dimB,dimA*dimB)", ".reshape(dimA,dimA,dimB,dimB).transpose(0,1,2,3).reshape(dimA*dimB,dimA*dimB)")])
preserving('PT1-renamed', ['C17'], edit=[(M + 'utils.py', "    tmp0 = list(range(N0))\n    tmp1 = list(range(N0,2*N0))\n    tmp2 = set(range(N0))-set(keep_index)\n    for x in tmp2:\n        tmp1[x] = x\n    tmp3 = list(keep_index) + [x+N0 for x in keep_index]\n    N1 = np.prod([dim[x] for x in keep_index])\n    ret = np.einsum(rho, tmp0+tmp1, tmp3, optimize=True).reshape(N1, N1)", "    row_legs = list(range(N0))\n    col_legs = list(range(N0,2*N0))\n    traced = set(range(N0))-set(keep_index)\n    for k in traced:\n        col_legs[k] = k\n    out_legs = list(keep_index) + [k+N0 for k in keep_index]\n    N1 = np.prod([dim[x] for x in keep_index])\n    ret = np.einsum(rho, row_legs+col_legs, out_legs, optimize=True).reshape(N1, N1)")])
breaking('SP1-coset-factor', {'C09': 'SP1'}, edit=[(M + 'group/spf2.py', "ret = tuple((x-1)*(x>>1) for x in tmp0)", "ret = tuple((x-1)*(x>>2) for x in tmp0)")])
breaking('SP2-swapped-block', {'C09': 'SP2'}, edit=[(M + 'group/spf2.py', "g[1:N0,(N0+1):] = tmp0[:(N0-1),(N0-1):]", "g[1:N0,(N0+1):] = tmp0[(N0-1):,:(N0-1)]")])
breaking('SP3-offset-lost', {'C09': 'SP3'}, edit=[(M + 'group/spf2.py', "ai = bitarray_to_int(mat[0]) - 1", "ai = bitarray_to_int(mat[0])")])
breaking('SP3-polarity', {'C09': 'SP3'}, edit=[(M + 'group/spf2.py', "tmp0 = (T1,T0,h0,e1) if (tw[0]==0) else (T1,T0,h0)", "tmp0 = (T1,T0,h0,e1) if (tw[0]==1) else (T1,T0,h0)")])
breaking('SP4-big-endian', {'C09': 'SP4'}, edit=[(M + 'group/spf2.py', "ret = int.from_bytes(np.packbits(b, axis=0, bitorder='little').tobytes(), byteorder='little', signed=False)", "ret = int.from_bytes(np.packbits(b, axis=0, bitorder='little').tobytes(), byteorder='big', signed=False)")])
breaking('SP5-roll-one-axis', {'C09': 'SP5'}, edit=[(M + 'group/spf2.py', "ret = np.roll(mat.T, N0, axis=(0,1))", "ret = np.roll(mat.T, N0, axis=0)")])
breaking('SP6-wrong-vector', {'C09': 'SP6'}, edit=[(M + 'group/spf2.py', "                    v2[ind0] = v1[ind0+N0]\n", "                    v2[ind0] = v0[ind0+N0]\n")])
preserving('SP1-pow-generator', ['C09'], edit=[(M + 'group/spf2.py', "tmp0 = (1<<(2*x) for x in range(1,n+1))", "tmp0 = (4**x for x in range(1,n+1))")])
breaking('MS2-elif-masks', {'C15': 'MS2'}, edit=[(M + 'group/_lie.py', "    if np.any(ind1):\n        tmp0 = np.arctan2(-x10[ind1], -x00[ind1])", "    elif np.any(ind1):\n        tmp0 = np.arctan2(-x10[ind1], -x00[ind1])")])
breaking('AG2-transposed-entry', {'C15': 'AG2'}, edit=[(M + 'group/_lie.py', "        0.5j*(a*a-aH*aH-b*b+bH*bH), #x10", "        -0.5j*(a*a-aH*aH+b*b-bH*bH), #x10")])
breaking('AG2-so3-entry-sign', {'C15': 'AG2'}, edit=[(M + 'group/_lie.py', "        aH*b+a*bH, 1j*(aH*b-a*bH), a*aH-b*bH,\n    ], axis=1).real.reshape(shape)", "        aH*b+a*bH, 1j*(a*bH-aH*b), a*aH-b*bH,\n    ], axis=1).real.reshape(shape)")])
breaking('AG3-constructor-sign', {'C15': 'AG3'}, edit=[(M + 'group/_lie.py', "        -sb*cg,sb*sg,cb,", "        sb*cg,sb*sg,cb,")])
breaking('AG3-extractor-sign', {'C15': 'AG3'}, edit=[(M + 'group/_lie.py', "tmp0 = np.arctan2(-x10[ind1], -x00[ind1]) % (2*np.pi)", "tmp0 = np.arctan2(x10[ind1], -x00[ind1]) % (2*np.pi)")])
breaking('AG3-stored-combination', {'C15': 'AG3'}, edit=[(M + 'group/_lie.py', "        alpha[ind0] = tmp0/2\n        gamma[ind0] = tmp0/2", "        alpha[ind0] = tmp0/2\n        gamma[ind0] = 0")])
breaking('AG3-generic-wrong-entry', {'C15': 'AG3'}, edit=[(M + 'group/_lie.py', "tmp2 = (x21[ind2]*tmp0)<0\n        gamma[ind2]", "tmp2 = (x12[ind2]*tmp0)<0\n        gamma[ind2]")])
preserving('AG2-reordered-terms', ['C15'], edit=[(M + 'group/_lie.py', "        0.5j*(a*a-aH*aH-b*b+bH*bH), #x10", "        0.5j*(bH*bH-b*b+a*a-aH*aH), #x10")])
breaking('AG4-su2-sign-convention', {'C15': 'AG4'}, edit=[(M + 'group/_lie.py', "cb*exp_apg.conj(), -sb*exp_amg.conj(), sb*exp_amg, cb*exp_apg", "cb*exp_apg.conj(), sb*exp_amg.conj(), -sb*exp_amg, cb*exp_apg")])
breaking('AG4-su2-not-unitary-form', {'C15': 'AG4'}, edit=[(M + 'group/_lie.py', "cb*exp_apg.conj(), -sb*exp_amg.conj(), sb*exp_amg, cb*exp_apg", "cb*exp_apg.conj(), -sb*exp_amg.conj(), sb*exp_amg.conj(), cb*exp_apg")])
breaking('AG4-swapped-phases', {'C15': 'AG4'}, edit=[(M + 'group/_lie.py', "cb*exp_apg.conj(), -sb*exp_amg.conj(), sb*exp_amg, cb*exp_apg", "cb*exp_apg, -sb*exp_amg, sb*exp_amg.conj(), cb*exp_apg.conj()")])
breaking('PJ1-conj-on-ket', {'C18': 'PJ1'}, edit=[(M + 'entangle/upb.py', "ret = np.eye(upb.shape[1]) - upb.T @ upb.conj()", "ret = np.eye(upb.shape[1]) - upb.conj().T @ upb")])
breaking('DT1-int-buffer', {'C18': 'DT1'}, edit=[(M + 'state/_internal.py', "    coeff = coeff / np.linalg.norm(coeff)\n    N0 = coeff.shape[0]\n    ret = np.zeros(2**N0, dtype=coeff.dtype)\n    ret[2**np.arange(N0)] = coeff", "    coeff = np.asarray(coeff)\n    N0 = coeff.shape[0]\n    ret = np.zeros(2**N0, dtype=coeff.dtype)\n    ret[2**np.arange(N0)] = coeff / np.linalg.norm(coeff)")])
breaking('O3-cached-constructor', {'C18': 'O3', 'C17': 'O3'}, edit=[(M + 'dicke.py', "def Dicke(*klist:tuple[int]):", "@functools.lru_cache\ndef Dicke(*klist:tuple[int]):"), (M + 'dicke.py', "import itertools\n", "import functools\nimport itertools\n")])
breaking('PT1-hermitised', {'C17': 'PT1'}, edit=[(M + 'utils.py', "    ret = np.einsum(rho, tmp0+tmp1, tmp3, optimize=True).reshape(N1, N1)\n    return ret", "    ret = np.einsum(rho, tmp0+tmp1, tmp3, optimize=True).reshape(N1, N1)\n    ret = (ret + ret.T.conj())/2\n    return ret")])
breaking('SP5-inplace-transvection', {'C09': 'SP5'}, edit=[(M + 'group/spf2.py', "        x = (x + tmp0*h)%2", "        x ^= tmp0*h")])
breaking('SP1-numpy-prod', {'C09': 'SP1'}, edit=[(M + 'group/spf2.py', "        ret = 1\n        for x in tmp0:\n            ret = ret * (x-1) * (x>>1)", "        ret = int(np.prod([(x-1)*(x>>1) for x in tmp0]))")])
preserving('DT1-cast-first', ['C18'], edit=[(M + 'state/_internal.py', "    coeff = coeff / np.linalg.norm(coeff)\n    N0 = coeff.shape[0]", "    coeff = np.asarray(coeff).astype(np.float64)\n    coeff = coeff / np.linalg.norm(coeff)\n    N0 = coeff.shape[0]")])
breaking('G5-conj-basis-only', {'C20': 'G5'}, edit=[(M + 'matrix_space/_misc.py', "ret = tmp0.reshape(-1,N1,N2), tmp1.reshape(-1,N1,N2), 'C'", "ret = tmp0.conj().reshape(-1,N1,N2), tmp1.reshape(-1,N1,N2), 'C'")])
breaking('SH3-swapped-shape-unpack', {'C20': 'SH3'}, edit=[(M + 'matrix_space/_numerical_range.py', "    dimA = matrix_subspace.shape[1]\n    dimB = matrix_subspace.shape[2]\n    basis = get_matrix_orthogonal_basis", "    dimB,dimA = matrix_subspace.shape[-2:]\n    basis = get_matrix_orthogonal_basis")])
breaking('W5-regularised-gram', {'C01': 'W5', 'C13': 'W5'}, edit=[(M + 'manifold/_stiefel.py', "            tmp0 = torch.linalg.inv(numqi._torch_op.PSDMatrixSqrtm.apply(mat.transpose(1,2).conj() @ mat))", "            tmp0 = mat.transpose(1,2).conj() @ mat + torch.finfo(theta.dtype).eps*torch.eye(rank, dtype=mat.dtype, device=mat.device)\n            tmp0 = torch.linalg.inv(numqi._torch_op.PSDMatrixSqrtm.apply(tmp0))")])
breaking('V2-early-return', {'C13': 'V2'}, edit=[(M + 'entangle/eof.py', "        self._sqrt_rho = torch.tensor(tmp0, dtype=self.cdtype)\n        tmp0 = self._sqrt_rho.conj().resolve_conj()\n        if self.dimA<=self.dimB:\n            self.contract_expr = opt_einsum.contract_expression(self._sqrt_rho, [0,3,4], tmp0, [1,3,5],\n                                [self.num_term,self.rank], [2,4], [self.num_term,self.rank], [2,5], [2,0,1], constants=[0,1])\n        else:\n            self.contract_expr = opt_einsum.contract_expression(self._sqrt_rho, [3,0,4], tmp0, [3,1,5],\n                                [self.num_term,self.rank], [2,4], [self.num_term,self.rank], [2,5], [2,0,1], constants=[0,1])\n        tmp0 = min(", "        self._sqrt_rho = torch.tensor(tmp0, dtype=self.cdtype)\n        if self.contract_expr1 is not None:\n            return\n        tmp0 = self._sqrt_rho.conj().resolve_conj()\n        if self.dimA<=self.dimB:\n            self.contract_expr = opt_einsum.contract_expression(self._sqrt_rho, [0,3,4], tmp0, [1,3,5],\n                                [self.num_term,self.rank], [2,4], [self.num_term,self.rank], [2,5], [2,0,1], constants=[0,1])\n        else:\n            self.contract_expr = opt_einsum.contract_expression(self._sqrt_rho, [3,0,4], tmp0, [3,1,5],\n                                [self.num_term,self.rank], [2,4], [self.num_term,self.rank], [2,5], [2,0,1], constants=[0,1])\n        tmp0 = min(")])
breaking('N2-norm-without-axis', {'C06': 'N2'}, edit=[(M + 'gellmann.py', "ret = np.linalg.norm((dm - tmp0).reshape(-1,N0*N0), ord=2, axis=1)/np.sqrt(2)", "ret = np.linalg.norm((dm - tmp0).reshape(-1,N0*N0), ord=2)/np.sqrt(2)")])
breaking('AR1-swapped-dims', {'C06': 'AR1'}, edit=[(M + 'entangle/cha.py', "numqi.manifold.SeparableDensityMatrix(dim0, dim1, num_state, dtype=torch.complex128)", "numqi.manifold.SeparableDensityMatrix(dim1, dim0, num_state, dtype=torch.complex128)")])
breaking('ST1-derived-before-append', {'C18': 'ST1'}, edit=[(M + 'unique_determine/_internal.py', "    basis_list = [basis0,basis1,basis2,basis3]\n", "    basis_list = [basis0,basis1,basis2,basis3]\n    tmp0 = np.concatenate(basis_list, axis=0)\n"), (M + 'unique_determine/_internal.py', "\n    tmp0 = np.concatenate(basis_list, axis=0)\n    ret = tmp0[:,:,np.newaxis]", "\n    ret = tmp0[:,:,np.newaxis]")])
breaking('PT3-early-shortcut', {'C17': 'PT3'}, edit=[(M + 'dicke.py', "    ret = []\n    state_conj = state.conj()\n", "    if dimBk==dimB:\n        tmp0 = state.reshape(-1)\n        return tmp0.reshape(-1,1) * tmp0.conj()\n    ret = []\n    state_conj = state.conj()\n")])
breaking('E4-overlap-swapped', {'C08': 'E4'}, edit=[(M + 'gate/_pauli.py', "tmp1 = np.dot(self.F2[(2+self.num_qubit):], b.F2[2:(2+self.num_qubit)]) % 2", "tmp1 = np.dot(self.F2[2:(2+self.num_qubit)], b.F2[(2+self.num_qubit):]) % 2")])
breaking('E4-carry-dropped', {'C08': 'E4'}, edit=[(M + 'gate/_pauli.py', "        tmp0[0] = (tmp0[0] + tmp1 + tmp2) % 2", "        tmp0[0] = (tmp0[0] + tmp1) % 2")])
breaking('E4-inverse-no-b1', {'C08': 'E4'}, edit=[(M + 'gate/_pauli.py', "tmp0[0] = (self.F2[0] + self.F2[1] + np.dot(self.F2[2:(2+self.num_qubit)], self.F2[(2+self.num_qubit):])) % 2", "tmp0[0] = (self.F2[0] + np.dot(self.F2[2:(2+self.num_qubit)], self.F2[(2+self.num_qubit):])) % 2")])
preserving('E4-reordered-sum', ['C08'], edit=[(M + 'gate/_pauli.py', "        tmp0[0] = (tmp0[0] + tmp1 + tmp2) % 2", "        tmp0[0] = (tmp2 + tmp0[0] + tmp1) % 2")])
breaking('M3-sum-over-kept', {'C11': 'M3'}, edit=[(M + 'sim/state.py', "prob = (np.abs(q1)**2).sum(axis=reduce_dim).reshape(-1)", "prob = (np.abs(q1)**2).sum(axis=keep_dim).reshape(-1)")])
breaking('M3-not-squared', {'C11': 'M3'}, edit=[(M + 'sim/state.py', "        prob = np.abs(q1.reshape(-1))**2", "        prob = np.abs(q1.reshape(-1))")])
breaking('M3-no-sqrt', {'C11': 'M3'}, edit=[(M + 'sim/state.py', "q2[ind2] = q1[ind2] / np.sqrt(prob[ind1])", "q2[ind2] = q1[ind2] / prob[ind1]")])
breaking('M3-roles-swapped', {'C11': 'M3'}, edit=[(M + 'sim/state.py', "    keep_dim = tuple(x for x,y in enumerate(z0) if y[0]==1)\n    reduce_dim = tuple(x for x,y in enumerate(z0) if y[0]==0)", "    keep_dim = tuple(x for x,y in enumerate(z0) if y[0]==0)\n    reduce_dim = tuple(x for x,y in enumerate(z0) if y[0]==1)")])
breaking('AL1-shared-template', {'C19': 'AL1'}, edit=[(M + 'qec/_internal.py', "        for op0 in tmp0:\n            tmp1 = [numqi.gate.pauli.s0 for _ in range(num_qubit)]", "        identity = [numqi.gate.pauli.s0]*num_qubit\n        for op0 in tmp0:\n            tmp1 = identity")])
breaking('Q6-padded-dimension', {'C19': 'Q6'}, edit=[(M + 'qec/_internal.py', "    num_logical_dim = code.shape[0]\n    num_logical_qubit = numqi.utils.hf_num_state_to_num_qubit(num_logical_dim, kind='ceil')\n    if 2**num_logical_qubit > num_logical_dim:\n        code = np.pad(code, [(0,2**num_logical_qubit-num_logical_dim),(0,0)], mode='constant', constant_values=0)\n", "    num_logical_qubit = numqi.utils.hf_num_state_to_num_qubit(code.shape[0], kind='ceil')\n    if 2**num_logical_qubit > code.shape[0]:\n        code = np.pad(code, [(0,2**num_logical_qubit-code.shape[0]),(0,0)], mode='constant', constant_values=0)\n    num_logical_dim = code.shape[0]\n")])
breaking('refix-choi-probe-buffer', {'C12': 'AL2'}, patch_reverse='fix_56ef454.diff')
breaking('A7-zero-after-backward', {'C04': 'A7'}, edit=[(M + 'optimize/_internal.py', "            for x in parameter_sorted:\n                if x.grad is not None:\n                    x.grad.zero_()\n            if hasattr(model, 'grad_backward'): #designed for custom automatic differentiation\n                model.grad_backward(loss)\n            else:\n                loss.backward() #if no .grad_backward() method, it should be a normal torch.nn.Module\n", "            if hasattr(model, 'grad_backward'): #designed for custom automatic differentiation\n                model.grad_backward(loss)\n            else:\n                loss.backward() #if no .grad_backward() method, it should be a normal torch.nn.Module\n            for x in parameter_sorted:\n                if x.grad is not None:\n                    x.grad.zero_()\n")])
breaking('A8-dispatch-on-rho-only', {'C04': 'A8'}, edit=[(M + 'utils.py', "        if (rho.requires_grad or sigma.requires_grad) and (_torch_logm!='eigen'):", "        if rho.requires_grad and (_torch_logm!='eigen'):")])
breaking('HM1-mT-reconstruction', {'C12': 'HM1'}, edit=[(M + 'utils.py', "log_sigma = (EVC * torch.log(torch.maximum(eps, EVL))) @ EVC.T.conj()", "log_sigma = (EVC * torch.log(torch.maximum(eps, EVL))) @ EVC.mT")])
breaking('O3-cached-noise-channel', {'C12': 'O3'}, edit=[(M + 'channel/_internal.py', "import numpy as np\nimport torch\n", "import functools\nimport numpy as np\nimport torch\n"), (M + 'channel/_internal.py', "def hf_dephasing_kraus_op(noise_rate):", "@functools.lru_cache\ndef hf_dephasing_kraus_op(noise_rate):")])
breaking('MD1-shared-history', {'C07': 'MD1'}, edit=[(M + 'sim/clifford.py', "    def __init__(self, seed=None):\n        self.gate_index_list = []", "    def __init__(self, seed=None, gate_index_list=[]):\n        self.gate_index_list = gate_index_list")])
breaking('H3-unembedded-shortcut', {'C07': 'H3'}, edit=[(M + 'sim/clifford.py', "                tmpR = R0.copy()\n                tmpS = S0.copy()\n                tmpR[index] = tmp0[0]\n                tmpS[index[:,np.newaxis], index] = tmp0[1]", "                if len(index)==2*num_qubit:\n                    tmpR,tmpS = tmp0\n                else:\n                    tmpR = R0.copy()\n                    tmpS = S0.copy()\n                    tmpR[index] = tmp0[0]\n                    tmpS[index[:,np.newaxis], index] = tmp0[1]")])
breaking('PU1-inplace-control-gate', {'C03': 'PU1'}, edit=[(M + 'sim/state.py', "    ret = q0.copy()\n    tmp0 = q0.reshape(shape0)[index_tuple0]", "    ret = q0.astype(np.result_type(q0.dtype, op.dtype), copy=False)\n    tmp0 = q0.reshape(shape0)[index_tuple0]")])
breaking('IP1-forward-order', {'C03': 'IP1'}, edit=[(M + 'sim/state.py', "        for tmp0 in reversed(term_i):", "        for tmp0 in term_i:")])
breaking('W6-batched-legs', {'C01': 'W6'}, edit=[(M + 'manifold/_compose.py', "ret = torch.einsum(ret, [5,0,1,2], ret.conj(), [5,0,3,4], [5,1,2,3,4])", "ret = torch.einsum(ret, [5,0,1,2], ret.conj(), [5,0,3,4], [5,1,4,3,2])")])
breaking('K5-eigsh-default-which', {'C01': 'K5'}, edit=[(M + 'manifold/_internal.py', "scipy.sparse.linalg.eigsh(tmp3[x], k=1, which='LA', return_eigenvectors=False)", "scipy.sparse.linalg.eigsh(tmp3[x], k=1, return_eigenvectors=False)")])
breaking('W5-spectrum-floor', {'C01': 'W5'}, edit=[(M + 'manifold/_stiefel.py', "            EVL,EVC = np.linalg.eigh(mat.transpose(0,2,1).conj() @ mat)\n", "            EVL,EVC = np.linalg.eigh(mat.transpose(0,2,1).conj() @ mat)\n            EVL = np.maximum(EVL, 1e-12)\n")])
breaking('R1-position-ordered-legs', {'C04': 'R1'}, edit=[(M + 'sim/state.py', "        tmp4 = list(index) + list(range(num_qubit,num_qubit+len(index)))\n        op_grad = opt_einsum.contract(tmp0, tmp1, tmp2, tmp3, tmp4).reshape(op.shape)\n    else:\n        op_grad = None\n    q0_grad = apply_gate(q0_grad, op.T.conj(), index)", "        tmp4 = list(index) + [x for x in tmp3 if x>=num_qubit]\n        op_grad = opt_einsum.contract(tmp0, tmp1, tmp2, tmp3, tmp4).reshape(op.shape)\n    else:\n        op_grad = None\n    q0_grad = apply_gate(q0_grad, op.T.conj(), index)")])
breaking('H5-cached-unitary', {'C03': 'H5'}, edit=[(M + 'sim/circuit.py', "        ret = ret.T.copy()\n        return ret", "        ret = ret.T.copy()\n        self._unitary_cache = ret\n        return self._unitary_cache")])
breaking('GR1-transposed-regular-form', {'C14': 'GR1'}, edit=[(M + 'group/_internal.py', "ret[ind0,np.array(index_tuple[ind0]),tmp0] = 1", "ret[ind0,tmp0,np.array(index_tuple[ind0])] = 1")])
breaking('GR2-klein-is-z4', {'C14': 'GR2'}, edit=[(M + 'group/_internal.py', "        (1,0,3,2),\n        (2,3,0,1),\n        (3,2,1,0),", "        (1,2,3,0),\n        (2,3,0,1),\n        (3,0,1,2),")])
breaking('GR2-klein-nonassociative', {'C14': 'GR2'}, edit=[(M + 'group/_internal.py', "        (1,0,3,2),\n        (2,3,0,1),\n        (3,2,1,0),", "        (1,0,3,2),\n        (2,3,1,0),\n        (3,2,0,1),")])
breaking('GR3-cyclic-minus', {'C14': 'GR3'}, edit=[(M + 'group/_internal.py', "np.remainder(tmp0[:,np.newaxis] + tmp0, n)", "np.remainder(tmp0[:,np.newaxis] - tmp0, n)")])
breaking('GR3-nonunits', {'C14': 'GR3'}, edit=[(M + 'group/_internal.py', "element = [x for x in range(1, n) if math.gcd(n,x)==1]", "element = [x for x in range(1, n) if math.gcd(n,x)<=2]")])
breaking('GR4-odd-parity', {'C14': 'GR4'}, edit=[(M + 'group/_symmetric.py', "if sum((len(x)-1) for x in y)%2==0:", "if sum(len(x) for x in y)%2==0:")])
breaking('GR5-hook-off-by-one', {'C14': 'GR5'}, edit=[(M + 'group/_symmetric.py', "tmp2 = (mask[::-1].cumsum(axis=0)[::-1] + mask[:,::-1].cumsum(axis=1)[:,::-1] - 1)", "tmp2 = (mask[::-1].cumsum(axis=0)[::-1] + mask[:,::-1].cumsum(axis=1)[:,::-1])")])
breaking('GR6-recurrence-same-m', {'C14': 'GR6'}, edit=[(M + 'group/_symmetric.py', "z0[n,m] = z0[n-r*m, m-1].sum()", "z0[n,m] = z0[n-r*m, m].sum()")])
breaking('G6-diag-scale', {'C16': 'G6'}, edit=[(M + 'gellmann.py', "data = np.sqrt(2/(i*(i+1)))*np.array([1]*i + [-i])", "data = np.sqrt(2/(i*(i-1)))*np.array([1]*i + [-i])")])
breaking('G6-diag-not-traceless', {'C16': 'G6'}, edit=[(M + 'gellmann.py', "data = np.sqrt(2/(i*(i+1)))*np.array([1]*i + [-i])", "data = np.sqrt(2/(i*(i+1)))*np.array([1]*i + [i])")])
breaking('G6-identity-norm', {'C16': 'G6'}, edit=[(M + 'gellmann.py', "data = np.ones(d)*(np.sqrt(2/d))", "data = np.ones(d)*(np.sqrt(1/d))")])
breaking('refix-concurrence-pure', {'C13': 'F2', 'C05': 'F2'}, patch_reverse='fix_8943922.diff')
breaking('F5-clamp-after-sqrt', {'C13': 'F5', 'C05': 'F5'}, edit=[(M + 'entangle/eof.py', "EVL = np.sqrt(np.maximum(0, np.linalg.eigvalsh(sqrt_rho @ z0 @ sqrt_rho)))", "EVL = np.maximum(0, np.sqrt(np.linalg.eigvalsh(sqrt_rho @ z0 @ sqrt_rho)))")])
breaking('AR2-swapped-reshape', {'C05': 'AR2'}, edit=[(M + 'entangle/_misc.py', "tmp0 = rho.reshape(dimA, dimB, dimA, dimB).transpose(0,3,2,1).reshape(dimA*dimB,dimA*dimB)", "tmp0 = rho.reshape(dimB, dimA, dimB, dimA).transpose(0,3,2,1).reshape(dimA*dimB,dimA*dimB)")])
breaking('W7-theta-overlap', {'C02': 'W7'}, edit=[(M + 'manifold/_stiefel.py', "        theta = theta[:,:(-rank)].reshape(batch, -1, 2)", "        theta = theta[:,rank:].reshape(batch, -1, 2)")])
breaking('G2-swapped-pads', {'C02': 'G2'}, edit=[(M + 'manifold/_internal.py', "            mat = numqi.gellmann.gellmann_basis_to_matrix(torch.concat([tmp0, theta, tmp1], axis=1)).imag\n        else:\n            tmp0 = torch.zeros(N1, 1, dtype=theta.dtype, device=device)\n            mat = 1j*numqi.gellmann.gellmann_basis_to_matrix(torch.concat([theta, tmp0], axis=1))\n        tmp0 = torch.eye(dim, dtype=theta.dtype, device=device)\n        tmp1 = torch.linalg.inv(", "            mat = numqi.gellmann.gellmann_basis_to_matrix(torch.concat([tmp1, theta, tmp0], axis=1)).imag\n        else:\n            tmp0 = torch.zeros(N1, 1, dtype=theta.dtype, device=device)\n            mat = 1j*numqi.gellmann.gellmann_basis_to_matrix(torch.concat([theta, tmp0], axis=1))\n        tmp0 = torch.eye(dim, dtype=theta.dtype, device=device)\n        tmp1 = torch.linalg.inv(")])
breaking('GR2-quaternion-sign', {'C14': 'GR2'}, edit=[(M + 'group/_internal.py', "'k j -i -1'", "'k j i -1'")])
breaking('GR3-cyclic-circulant', {'C14': 'GR3'}, edit=[(M + 'group/_internal.py', "    ret = np.array(tuple(tuple(x) for x in np.remainder(tmp0[:,np.newaxis] + tmp0, n).tolist()), dtype=np.int64)", "    ret = scipy.linalg.circulant(tmp0).T")])
breaking('HM2-conj-on-wrong-factor', {'C14': 'HM2'}, edit=[(M + 'group/_internal.py', "z0 = EVC.T.conj() @ np0 @ EVC", "z0 = EVC.T @ np0 @ EVC.conj()")])
breaking('H6-copied-sign-cache', {'C08': 'H6'}, edit=[(M + 'gate/_pauli.py', "        ret = PauliOperator(tmp0)\n        return ret\n\n    def __str__", "        ret = PauliOperator(tmp0)\n        ret._str, ret._sign, ret._np_list = self._str, self._sign, self._np_list\n        return ret\n\n    def __str__")])
breaking('SH4-dropped-ellipsis', {'C08': 'SH4'}, edit=[(M + 'gate/_pauli.py', "        np0 = np0[...,2:]\n    assert np0.shape[-1]>=2", "        np0 = np0[2:]\n    assert np0.shape[-1]>=2")])
breaking('O4-external-F2-write', {'C10': 'O4', 'C08': 'O4'}, edit=[(M + 'random/_spf2.py', "    ret = PauliOperator(F2)\n    return ret", "    ret = PauliOperator(F2)\n    ret.F2[0] = ret.F2[0]\n    return ret")])
breaking('C2-stale-beta', {'C06': 'C2'}, edit=[(M + 'entangle/cha.py', "            self._rand_init_state(np_rng, num_init_retry)\n        beta_history = [self._cvxpy_solve()]", "            beta_history = [self._rand_init_state(np_rng, num_init_retry)]\n        else:\n            beta_history = [self._cvxpy_solve()]")])
breaking('O1-del-cached-list', {'C06': 'O1'}, patch='/verif/selftest/patches/seed_c06_r2m2.diff')
breaking('SH1-boundary-broadcast', {'C06': 'SH1'}, edit=[(M + 'entangle/_misc.py', "    tmp0 = (np.linalg.eigvalsh(dm) - 1/N0)/dm_norm.reshape(-1,1)\n    beta_l = -1/(N0*tmp0[:,-1])\n    beta_u = -1/(N0*tmp0[:,0])", "    tmp0 = dm_norm/(1 - N0*np.linalg.eigvalsh(dm))\n    beta_l = tmp0[:,-1]\n    beta_u = tmp0[:,0]")])
breaking('M3-decode-prefix-shape', {'C11': 'M3'}, edit=[(M + 'sim/state.py', "ind1a = np.unravel_index(ind1, tuple(shape[x] for x in keep_dim))", "ind1a = np.unravel_index(ind1, shape[:len(keep_dim)])")])
breaking('MC1-coarse-memo-key', {'C05': 'MC1'}, patch='/verif/selftest/patches/seed_c05_r2m1.diff')
breaking('HM3-seed-C13-r2m3', {'C13': 'HM3'}, patch='/verif/selftest/patches/seed_C13_r2m3.diff')
breaking('AG5-seed-C15-r2m2', {'C15': 'AG5'}, patch='/verif/selftest/patches/seed_C15_r2m2.diff')
breaking('KR1-seed-C16-r2m1', {'C16': 'KR1'}, patch='/verif/selftest/patches/seed_C16_r2m1.diff')
breaking('F2-seed-C16-r2m2', {'C16': 'F2'}, patch='/verif/selftest/patches/seed_C16_r2m2.diff')
breaking('G1-seed-C16-r2m3', {'C16': 'G1'}, patch='/verif/selftest/patches/seed_C16_r2m3.diff')
breaking('RO1-seed-C17-r2m1', {'C17': 'RO1'}, patch='/verif/selftest/patches/seed_C17_r2m1.diff')
breaking('DT2-seed-C17-r2m3', {'C17': 'DT2'}, patch='/verif/selftest/patches/seed_C17_r2m3.diff')
breaking('KR1-seed-C18-r2m3', {'C18': 'KR1'}, patch='/verif/selftest/patches/seed_C18_r2m3.diff')
breaking('NZ1-seed-C20-r2m2', {'C20': 'NZ1'}, patch='/verif/selftest/patches/seed_C20_r2m2.diff')
breaking('K5-seed-C20-r2m3', {'C20': 'K5'}, patch='/verif/selftest/patches/seed_C20_r2m3.diff')
breaking('O5-seed-C09-r2m1', {'C09': 'O5'}, patch='/verif/selftest/patches/seed_C09_r2m1.diff')
breaking('S7-seed-C09-r2m2', {'C09': 'S7', 'C10': 'S7'}, patch='/verif/selftest/patches/seed_C09_r2m2.diff')
breaking('SP4-seed-C09-r2m3', {'C09': 'SP4'}, patch='/verif/selftest/patches/seed_C09_r2m3.diff')
breaking('SH1-seed-C01-r3m1', {'C01': 'SH1'}, patch='/verif/selftest/patches/seed_C01_r3m1.diff')
breaking('AR3-seed-C01-r3m2', {'C01': 'AR3'}, patch='/verif/selftest/patches/seed_C01_r3m2.diff')
breaking('W3-seed-C01-r3m3', {'C01': 'W3', 'C02': 'W3'}, patch='/verif/selftest/patches/seed_C01_r3m3.diff')
breaking('ER1-seed-C03-r3m1', {'C03': 'ER1'}, patch='/verif/selftest/patches/seed_C03_r3m1.diff')
breaking('R1-seed-C03-r3m2', {'C03': 'R1', 'C04': 'R1'}, patch='/verif/selftest/patches/seed_C03_r3m2.diff')
breaking('D3-seed-C03-r3m3', {'C03': 'D3', 'C04': 'D3', 'C11': 'D3'}, patch='/verif/selftest/patches/seed_C03_r3m3.diff')
breaking('A9-seed-C04-r3m1', {'C04': 'A9'}, patch='/verif/selftest/patches/seed_C04_r3m1.diff')
breaking('PU1-seed-C04-r3m2', {'C03': 'PU1', 'C11': 'PU1'}, patch='/verif/selftest/patches/seed_C04_r3m2.diff')
breaking('A1-seed-C04-r3m3', {'C03': 'A1', 'C04': 'A1', 'C11': 'A1'}, patch='/verif/selftest/patches/seed_C04_r3m3.diff')
breaking('EO1-seed-C05-r3m1', {'C05': 'EO1'}, patch='/verif/selftest/patches/seed_C05_r3m1.diff')
breaking('T2-seed-C05-r3m2', {'C05': 'T2'}, patch='/verif/selftest/patches/seed_C05_r3m2.diff')
breaking('CS1-seed-C05-r3m3', {'C05': 'CS1'}, patch='/verif/selftest/patches/seed_C05_r3m3.diff')
breaking('H7-seed-C07-r3m2', {'C07': 'H7'}, patch='/verif/selftest/patches/seed_C07_r3m2.diff')
breaking('H8-seed-C07-r3m3', {'C07': 'H8'}, patch='/verif/selftest/patches/seed_C07_r3m3.diff')
breaking('RO1-seed-C12-r3m1', {'C12': 'RO1'}, patch='/verif/selftest/patches/seed_C12_r3m1.diff')
breaking('X1-seed-C12-r3m3', {'C12': 'X1'}, patch='/verif/selftest/patches/seed_C12_r3m3.diff')
breaking('G4-seed-C16-r3m1', {'C16': 'G4'}, patch='/verif/selftest/patches/seed_C16_r3m1.diff')
breaking('DT3-seed-C16-r3m2', {'C16': 'DT3'}, patch='/verif/selftest/patches/seed_C16_r3m2.diff')
breaking('NZ2-seed-C16-r3m3', {'C16': 'NZ2'}, patch='/verif/selftest/patches/seed_C16_r3m3.diff')
breaking('Q7-seed-C19-r3m1', {'C19': 'Q7'}, patch='/verif/selftest/patches/seed_C19_r3m1.diff')
breaking('Q2-seed-C19-r3m2', {'C19': 'Q2'}, patch='/verif/selftest/patches/seed_C19_r3m2.diff')
breaking('IT1-seed-C19-r3m3', {'C19': 'IT1'}, patch='/verif/selftest/patches/seed_C19_r3m3.diff')
breaking('W3-seed-C02-r3m1', {'C01': 'W3', 'C02': 'W3'}, patch='/verif/selftest/patches/seed_C02_r3m1.diff')
breaking('B1-seed-C02-r3m2', {'C01': 'B1'}, patch='/verif/selftest/patches/seed_C02_r3m2.diff')
breaking('W8-seed-C02-r3m3', {'C02': 'W8'}, patch='/verif/selftest/patches/seed_C02_r3m3.diff')
breaking('HM4-seed-C06-r3m1', {'C06': 'HM4'}, patch='/verif/selftest/patches/seed_C06_r3m1.diff')
breaking('SDP1-seed-C06-r3m2', {'C06': 'SDP1'}, patch='/verif/selftest/patches/seed_C06_r3m2.diff')
breaking('DF1-seed-C06-r3m3', {'C06': 'DF1'}, patch='/verif/selftest/patches/seed_C06_r3m3.diff')
breaking('E5-seed-C08-r3m1', {'C08': 'E5'}, patch='/verif/selftest/patches/seed_C08_r3m1.diff')
breaking('ST2-seed-C08-r3m2', {'C08': 'ST2'}, patch='/verif/selftest/patches/seed_C08_r3m2.diff')
breaking('ID1-seed-C08-r3m3', {'C08': 'ID1'}, patch='/verif/selftest/patches/seed_C08_r3m3.diff')
breaking('EL1-seed-C09-r3m1', {'C09': 'EL1'}, patch='/verif/selftest/patches/seed_C09_r3m1.diff')
breaking('DT5-seed-C09-r3m2', {'C09': 'DT5'}, patch='/verif/selftest/patches/seed_C09_r3m2.diff')
breaking('MR1-seed-C09-r3m3', {'C09': 'MR1'}, patch='/verif/selftest/patches/seed_C09_r3m3.diff')
breaking('N2-seed-C10-r3m1', {'C10': 'N2'}, patch='/verif/selftest/patches/seed_C10_r3m1.diff')
breaking('S8-seed-C10-r3m2', {'C10': 'S8'}, patch='/verif/selftest/patches/seed_C10_r3m2.diff')
breaking('M3-seed-C11-r3m1', {'C11': 'M3'}, patch='/verif/selftest/patches/seed_C11_r3m1.diff')
breaking('M3-seed-C11-r3m2b', {'C11': 'M3'}, patch='/verif/selftest/patches/seed_C11_r3m2.diff')
breaking('PU2-seed-C11-r3m3', {'C11': 'PU2'}, patch='/verif/selftest/patches/seed_C11_r3m3.diff')
breaking('F6-seed-C13-r3m1', {'C13': 'F6'}, patch='/verif/selftest/patches/seed_C13_r3m1.diff')
breaking('F7-seed-C13-r3m2', {'C13': 'F7'}, patch='/verif/selftest/patches/seed_C13_r3m2.diff')
breaking('V3-seed-C13-r3m3', {'C13': 'V3'}, patch='/verif/selftest/patches/seed_C13_r3m3.diff')
breaking('MC2-seed-C14-r3m1', {'C14': 'MC2'}, patch='/verif/selftest/patches/seed_C14_r3m1.diff')
breaking('SO1-seed-C14-r3m2', {'C14': 'SO1'}, patch='/verif/selftest/patches/seed_C14_r3m2.diff')
breaking('UP1-seed-C14-r3m3', {'C14': 'UP1'}, patch='/verif/selftest/patches/seed_C14_r3m3.diff')
breaking('FZ1-seed-C15-r3m1', {'C15': 'FZ1'}, patch='/verif/selftest/patches/seed_C15_r3m1.diff')
breaking('FW1-seed-C15-r3m2', {'C15': 'FW1'}, patch='/verif/selftest/patches/seed_C15_r3m2.diff')
breaking('DT6-seed-C15-r3m3', {'C15': 'DT6'}, patch='/verif/selftest/patches/seed_C15_r3m3.diff')
breaking('AR3-seed-C17-r3m2', {'C17': 'AR3', 'C01': 'AR3'}, patch='/verif/selftest/patches/seed_C17_r3m2.diff')
breaking('F8-seed-C18-r3m1', {'C18': 'F8'}, patch='/verif/selftest/patches/seed_C18_r3m1.diff')
breaking('RP1-seed-C18-r3m2', {'C18': 'RP1'}, patch='/verif/selftest/patches/seed_C18_r3m2.diff')
breaking('O3B-seed-C18-r3m3', {'C18': 'O3B'}, patch='/verif/selftest/patches/seed_C18_r3m3.diff')
breaking('DT4-seed-C20-r3m2', {'C20': 'DT4'}, patch='/verif/selftest/patches/seed_C20_r3m2.diff')
breaking('EV1-seed-C20-r3m3', {'C20': 'EV1'}, patch='/verif/selftest/patches/seed_C20_r3m3.diff')
breaking('DOM1-seed-C17-r3m3', {'C17': 'DOM1'}, patch='/verif/selftest/patches/seed_C17_r3m3.diff')
breaking('PR1-seed-C08-r4m1', {'C08': 'PR1'}, patch='/verif/selftest/patches/seed_C08_r4m1.diff')
breaking('MC3-seed-C08-r4m2', {'C08': 'MC3', 'C07': 'MC3'}, patch='/verif/selftest/patches/seed_C08_r4m2.diff')
breaking('E6-seed-C08-r4m3', {'C08': 'E6'}, patch='/verif/selftest/patches/seed_C08_r4m3.diff')
breaking('MC3-seed-C10-r4m1', {'C10': 'MC3', 'C09': 'O5'}, patch='/verif/selftest/patches/seed_C10_r4m1.diff')
breaking('S2-seed-C10-r4m2', {'C10': 'S2', 'C11': 'S2'}, patch='/verif/selftest/patches/seed_C10_r4m2.diff')
breaking('S5-seed-C10-r4m3', {'C10': 'S5', 'C09': 'S5'}, patch='/verif/selftest/patches/seed_C10_r4m3.diff')
breaking('AX1-seed-C01-r4m1', {'C01': 'AX1'}, patch='/verif/selftest/patches/seed_C01_r4m1.diff')
breaking('SM1-seed-C01-r4m2', {'C01': 'SM1'}, patch='/verif/selftest/patches/seed_C01_r4m2.diff')
breaking('SINC1-seed-C01-r4m3', {'C01': 'SINC1'}, patch='/verif/selftest/patches/seed_C01_r4m3.diff')
breaking('D6-seed-C03-r4m1', {'C03': 'D6'}, patch='/verif/selftest/patches/seed_C03_r4m1.diff')
breaking('NR1-seed-C03-r4m2', {'C03': 'NR1'}, patch='/verif/selftest/patches/seed_C03_r4m2.diff')
breaking('PG1-seed-C03-r4m3', {'C03': 'PG1'}, patch='/verif/selftest/patches/seed_C03_r4m3.diff')
breaking('A10-seed-C04-r4m1', {'C04': 'A10'}, patch='/verif/selftest/patches/seed_C04_r4m1.diff')
breaking('A11-seed-C04-r4m2', {'C04': 'A11'}, patch='/verif/selftest/patches/seed_C04_r4m2.diff')
breaking('AL3-seed-C04-r4m3', {'C04': 'AL3'}, patch='/verif/selftest/patches/seed_C04_r4m3.diff')
breaking('H1-seed-C07-r4m1', {'C07': 'H1'}, patch='/verif/selftest/patches/seed_C07_r4m1.diff')
breaking('VM1-seed-C07-r4m2', {'C07': 'VM1'}, patch='/verif/selftest/patches/seed_C07_r4m2.diff')
breaking('H9-seed-C07-r4m3', {'C07': 'H9'}, patch='/verif/selftest/patches/seed_C07_r4m3.diff')
breaking('MC3-seed-C09-r4m1', {'C09': 'MC3'}, patch='/verif/selftest/patches/seed_C09_r4m1.diff')
breaking('DT5-seed-C09-r4m2', {'C09': 'DT5'}, patch='/verif/selftest/patches/seed_C09_r4m2.diff')
breaking('SP1-seed-C09-r4m3', {'C09': 'SP1'}, patch='/verif/selftest/patches/seed_C09_r4m3.diff')
breaking('W8-seed-C02-r4m1', {'C02': 'W8'}, patch='/verif/selftest/patches/seed_C02_r4m1.diff')
breaking('HM1-seed-C02-r4m2', {'C02': 'HM1'}, patch='/verif/selftest/patches/seed_C02_r4m2.diff')
breaking('DT7-seed-C02-r4m3', {'C02': 'DT7'}, patch='/verif/selftest/patches/seed_C02_r4m3.diff')
breaking('DOM1-seed-C05-r4m1', {'C05': 'DOM1', 'C06': 'DOM1'}, patch='/verif/selftest/patches/seed_C05_r4m1.diff')
breaking('PU1-seed-C05-r4m2', {'C05': 'PU1', 'C13': 'PU1'}, patch='/verif/selftest/patches/seed_C05_r4m2.diff')
breaking('RS1-seed-C05-r4m3', {'C05': 'RS1'}, patch='/verif/selftest/patches/seed_C05_r4m3.diff')
breaking('F9-seed-C06-r4m1', {'C06': 'F9', 'C16': 'F9'}, patch='/verif/selftest/patches/seed_C06_r4m1.diff')
breaking('CC1-seed-C06-r4m2', {'C06': 'CC1'}, patch='/verif/selftest/patches/seed_C06_r4m2.diff')
breaking('I2-seed-C06-r4m3', {'C06': 'I2'}, patch='/verif/selftest/patches/seed_C06_r4m3.diff')
breaking('AL4-seed-C15-r4m1', {'C15': 'AL4'}, patch='/verif/selftest/patches/seed_C15_r4m1.diff')
breaking('AG6-seed-C15-r4m2', {'C15': 'AG6'}, patch='/verif/selftest/patches/seed_C15_r4m2.diff')
breaking('MC3-seed-C15-r4m3', {'C15': 'MC3'}, patch='/verif/selftest/patches/seed_C15_r4m3.diff')
breaking('TR1-seed-C11-r4m1', {'C11': 'TR1'}, patch='/verif/selftest/patches/seed_C11_r4m1.diff')
breaking('D7-seed-C11-r4m2', {'C11': 'D7'}, patch='/verif/selftest/patches/seed_C11_r4m2.diff')
breaking('MC3-seed-C11-r4m3', {'C11': 'MC3', 'C03': 'MC3'}, patch='/verif/selftest/patches/seed_C11_r4m3.diff')
breaking('DT9-seed-C12-r4m1', {'C12': 'DT9', 'C16': 'DT9'}, patch='/verif/selftest/patches/seed_C12_r4m1.diff')
breaking('CH1-seed-C12-r4m2', {'C12': 'CH1'}, patch='/verif/selftest/patches/seed_C12_r4m2.diff')
breaking('LN1-seed-C12-r4m3', {'C12': 'LN1'}, patch='/verif/selftest/patches/seed_C12_r4m3.diff')
breaking('ZS1-seed-C13-r4m1', {'C13': 'ZS1'}, patch='/verif/selftest/patches/seed_C13_r4m1.diff')
breaking('V4-seed-C13-r4m2', {'C13': 'V4'}, patch='/verif/selftest/patches/seed_C13_r4m2.diff')
breaking('ZS1-seed-C13-r4m3b', {'C13': 'ZS1'}, patch='/verif/selftest/patches/seed_C13_r4m3.diff')
breaking('DT8-seed-C14-r4m2', {'C14': 'DT8'}, patch='/verif/selftest/patches/seed_C14_r4m2.diff')
breaking('OV1-seed-C14-r4m3', {'C14': 'OV1'}, patch='/verif/selftest/patches/seed_C14_r4m3.diff')
breaking('O1-seed-C16-r4m1', {'C16': 'O1'}, patch='/verif/selftest/patches/seed_C16_r4m1.diff')
breaking('AX2-seed-C16-r4m2', {'C16': 'AX2'}, patch='/verif/selftest/patches/seed_C16_r4m2.diff')
breaking('MC3-seed-C16-r4m3', {'C16': 'MC3'}, patch='/verif/selftest/patches/seed_C16_r4m3.diff')
breaking('MR2-seed-C17-r4m1', {'C17': 'MR2'}, patch='/verif/selftest/patches/seed_C17_r4m1.diff')
breaking('TR1-seed-C17-r4m2', {'C17': 'TR1'}, patch='/verif/selftest/patches/seed_C17_r4m2.diff')
breaking('NR1-seed-C17-r4m3', {'C17': 'NR1'}, patch='/verif/selftest/patches/seed_C17_r4m3.diff')
breaking('F7-seed-C18-r4m1', {'C18': 'F7', 'C12': 'F7'}, patch='/verif/selftest/patches/seed_C18_r4m1.diff')
breaking('MC3-seed-C18-r4m3', {'C18': 'MC3'}, patch='/verif/selftest/patches/seed_C18_r4m3.diff')
breaking('AL5-seed-C19-r4m1', {'C19': 'AL5'}, patch='/verif/selftest/patches/seed_C19_r4m1.diff')
breaking('NQ1-seed-C19-r4m2', {'C19': 'NQ1'}, patch='/verif/selftest/patches/seed_C19_r4m2.diff')
breaking('CE1-seed-C19-r4m3', {'C19': 'CE1'}, patch='/verif/selftest/patches/seed_C19_r4m3.diff')
breaking('FS1-seed-C20-r4m1', {'C20': 'FS1'}, patch='/verif/selftest/patches/seed_C20_r4m1.diff')
breaking('AR4-seed-C20-r4m2', {'C20': 'AR4'}, patch='/verif/selftest/patches/seed_C20_r4m2.diff')
breaking('T4-seed-C20-r4m3', {'C20': 'T4'}, patch='/verif/selftest/patches/seed_C20_r4m3.diff')
breaking('RT1-seed-C01-r5m1', {'C01': 'RT1'}, patch='/verif/selftest/patches/seed_C01_r5m1.diff')
breaking('W2-seed-C01-r5m2', {'C01': 'W2'}, patch='/verif/selftest/patches/seed_C01_r5m2.diff')
breaking('HE1-seed-C01-r5m3', {'C01': 'HE1'}, patch='/verif/selftest/patches/seed_C01_r5m3.diff')
breaking('LM1-seed-C03-r5m1', {'C03': 'LM1'}, patch='/verif/selftest/patches/seed_C03_r5m1.diff')
breaking('SO2-seed-C03-r5m2', {'C03': 'SO2'}, patch='/verif/selftest/patches/seed_C03_r5m2.diff')
breaking('U1-seed-C03-r5m3', {'C03': 'U1'}, patch='/verif/selftest/patches/seed_C03_r5m3.diff')
breaking('PU1-seed-C04-r5m1', {'C04': 'PU1', 'C03': 'PU1'}, patch='/verif/selftest/patches/seed_C04_r5m1.diff')
breaking('SD1-seed-C04-r5m2', {'C04': 'SD1'}, patch='/verif/selftest/patches/seed_C04_r5m2.diff')
breaking('A12-seed-C04-r5m3', {'C04': 'A12'}, patch='/verif/selftest/patches/seed_C04_r5m3.diff')
breaking('DT10-seed-C05-r5m1', {'C05': 'DT10'}, patch='/verif/selftest/patches/seed_C05_r5m1.diff')
breaking('P2-seed-C05-r5m2', {'C05': 'P2'}, patch='/verif/selftest/patches/seed_C05_r5m2.diff')
breaking('EV1-seed-C05-r5m3', {'C05': 'EV1', 'C13': 'EV1'}, patch='/verif/selftest/patches/seed_C05_r5m3.diff')
breaking('H10-seed-C07-r5m1', {'C07': 'H10'}, patch='/verif/selftest/patches/seed_C07_r5m1.diff')
breaking('H1-seed-C07-r5m2', {'C07': 'H1'}, patch='/verif/selftest/patches/seed_C07_r5m2.diff')
breaking('H1-seed-C07-r5m3', {'C07': 'H1'}, patch='/verif/selftest/patches/seed_C07_r5m3.diff')
breaking('PAR1-seed-C08-r5m1', {'C08': 'PAR1'}, patch='/verif/selftest/patches/seed_C08_r5m1.diff')
breaking('ST3-seed-C08-r5m2', {'C08': 'ST3'}, patch='/verif/selftest/patches/seed_C08_r5m2.diff')
breaking('MC1-seed-C08-r5m3', {'C08': 'MC1'}, patch='/verif/selftest/patches/seed_C08_r5m3.diff')
breaking('BI2-seed-C09-r5m1', {'C09': 'BI2'}, patch='/verif/selftest/patches/seed_C09_r5m1.diff')
breaking('SP1-seed-C09-r5m2', {'C09': 'SP1'}, patch='/verif/selftest/patches/seed_C09_r5m2.diff')
breaking('BI2-seed-C09-r5m3', {'C09': 'BI2'}, patch='/verif/selftest/patches/seed_C09_r5m3.diff')
breaking('LEN1-seed-C10-r5m1', {'C10': 'LEN1'}, patch='/verif/selftest/patches/seed_C10_r5m1.diff')
breaking('S9-seed-C10-r5m2', {'C10': 'S9'}, patch='/verif/selftest/patches/seed_C10_r5m2.diff')
breaking('D3-seed-C10-r5m3', {'C11': 'D3', 'C03': 'D3'}, patch='/verif/selftest/patches/seed_C10_r5m3.diff')
breaking('W10-seed-C02-r5m1', {'C02': 'W10'}, patch='/verif/selftest/patches/seed_C02_r5m1.diff')
breaking('W11-seed-C02-r5m2', {'C02': 'W11'}, patch='/verif/selftest/patches/seed_C02_r5m2.diff')
breaking('W8-seed-C02-r5m3', {'C02': 'W8'}, patch='/verif/selftest/patches/seed_C02_r5m3.diff')
breaking('HM5-seed-C06-r5m1', {'C06': 'HM5', 'C05': 'HM5'}, patch='/verif/selftest/patches/seed_C06_r5m1.diff')
breaking('MC3-seed-C06-r5m3', {'C06': 'MC3', 'C05': 'MC3'}, patch='/verif/selftest/patches/seed_C06_r5m3.diff')
breaking('M3-seed-C11-r5m1', {'C11': 'M3'}, patch='/verif/selftest/patches/seed_C11_r5m1.diff')
breaking('M3-seed-C11-r5m2', {'C11': 'M3'}, patch='/verif/selftest/patches/seed_C11_r5m2.diff')
breaking('M3-seed-C11-r5m3', {'C11': 'M3'}, patch='/verif/selftest/patches/seed_C11_r5m3.diff')
breaking('QF1-seed-C12-r5m1', {'C12': 'QF1'}, patch='/verif/selftest/patches/seed_C12_r5m1.diff')
breaking('HM6-seed-C12-r5m2', {'C12': 'HM6'}, patch='/verif/selftest/patches/seed_C12_r5m2.diff')
breaking('V3-seed-C13-r5m1', {'C13': 'V3'}, patch='/verif/selftest/patches/seed_C13_r5m1.diff')
breaking('HE1-seed-C13-r5m2', {'C01': 'HE1'}, patch='/verif/selftest/patches/seed_C13_r5m2.diff')
breaking('V5-seed-C13-r5m3', {'C13': 'V5'}, patch='/verif/selftest/patches/seed_C13_r5m3.diff')
breaking('GR8-seed-C14-r5m2', {'C14': 'GR8'}, patch='/verif/selftest/patches/seed_C14_r5m2.diff')
breaking('HM6-seed-C14-r5m3', {'C14': 'HM6'}, patch='/verif/selftest/patches/seed_C14_r5m3.diff')
breaking('AG7-seed-C15-r5m1', {'C15': 'AG7'}, patch='/verif/selftest/patches/seed_C15_r5m1.diff')
breaking('PG2-seed-C15-r5m2', {'C15': 'PG2'}, patch='/verif/selftest/patches/seed_C15_r5m2.diff')
breaking('F3-seed-C15-r5m3', {'C15': 'F3'}, patch='/verif/selftest/patches/seed_C15_r5m3.diff')
breaking('DT11-seed-C16-r5m1', {'C16': 'DT11'}, patch='/verif/selftest/patches/seed_C16_r5m1.diff')
breaking('MC3-seed-C16-r5m2', {'C16': 'MC3'}, patch='/verif/selftest/patches/seed_C16_r5m2.diff')
breaking('DT6C-seed-C16-r5m3', {'C16': 'DT6C'}, patch='/verif/selftest/patches/seed_C16_r5m3.diff')
breaking('LG1-seed-C17-r5m1', {'C17': 'LG1'}, patch='/verif/selftest/patches/seed_C17_r5m1.diff')
breaking('DT2-seed-C17-r5m3', {'C17': 'DT2'}, patch='/verif/selftest/patches/seed_C17_r5m3.diff')
breaking('UPB1-seed-C18-r5m1', {'C18': 'UPB1'}, patch='/verif/selftest/patches/seed_C18_r5m1.diff')
breaking('F1-seed-C18-r5m2', {'C18': 'F1'}, patch='/verif/selftest/patches/seed_C18_r5m2.diff')
breaking('HM6-seed-C18-r5m3', {'C18': 'HM6'}, patch='/verif/selftest/patches/seed_C18_r5m3.diff')
breaking('Q3-seed-C19-r5m1', {'C19': 'Q3'}, patch='/verif/selftest/patches/seed_C19_r5m1.diff')
breaking('Q4-seed-C19-r5m2', {'C19': 'Q4'}, patch='/verif/selftest/patches/seed_C19_r5m2.diff')
breaking('MC3-seed-C19-r5m3', {'C19': 'MC3'}, patch='/verif/selftest/patches/seed_C19_r5m3.diff')
breaking('AC1-seed-C20-r5m3', {'C20': 'AC1'}, patch='/verif/selftest/patches/seed_C20_r5m3.diff')
breaking('DTYPE1-seed-C02-r6m1', {'C02': 'DTYPE1'}, patch='/verif/selftest/patches/seed_C02_r6m1.diff')
breaking('W8-seed-C02-r6m2', {'C02': 'W8'}, patch='/verif/selftest/patches/seed_C02_r6m2.diff')
breaking('FW1-seed-C02-r6m3', {'C02': 'FW1'}, patch='/verif/selftest/patches/seed_C02_r6m3.diff')
breaking('H7B-seed-C03-r6m1', {'C03': 'H7B'}, patch='/verif/selftest/patches/seed_C03_r6m1.diff')
breaking('RS1-seed-C05-r6m1', {'C05': 'RS1'}, patch='/verif/selftest/patches/seed_C05_r6m1.diff')
breaking('T1-seed-C05-r6m2', {'C05': 'T1'}, patch='/verif/selftest/patches/seed_C05_r6m2.diff')
breaking('F1-seed-C05-r6m3', {'C05': 'F1', 'C13': 'F1'}, patch='/verif/selftest/patches/seed_C05_r6m3.diff')
breaking('E4B-seed-C08-r6m1', {'C08': 'E4B'}, patch='/verif/selftest/patches/seed_C08_r6m1.diff')
breaking('RO1-seed-C08-r6m2', {'C08': 'RO1'}, patch='/verif/selftest/patches/seed_C08_r6m2.diff')
breaking('ID2-seed-C08-r6m3', {'C08': 'ID2'}, patch='/verif/selftest/patches/seed_C08_r6m3.diff')
breaking('HM5-seed-C12-r6m2', {'C12': 'HM5'}, patch='/verif/selftest/patches/seed_C12_r6m2.diff')
breaking('F7-seed-C12-r6m3', {'C12': 'F7'}, patch='/verif/selftest/patches/seed_C12_r6m3.diff')
breaking('V2-seed-C13-r6m1', {'C13': 'V2'}, patch='/verif/selftest/patches/seed_C13_r6m1.diff')
breaking('HM5-seed-C13-r6m2', {'C13': 'HM5', 'C05': 'HM5'}, patch='/verif/selftest/patches/seed_C13_r6m2.diff')
breaking('GR7-seed-C14-r6m1', {'C14': 'GR7'}, patch='/verif/selftest/patches/seed_C14_r6m1.diff')
breaking('MC3-seed-C14-r6m2', {'C14': 'MC3'}, patch='/verif/selftest/patches/seed_C14_r6m2.diff')
breaking('TR1-seed-C17-r6m1', {'C17': 'TR1'}, patch='/verif/selftest/patches/seed_C17_r6m1.diff')
breaking('MC3-seed-C17-r6m2', {'C17': 'MC3'}, patch='/verif/selftest/patches/seed_C17_r6m2.diff')
breaking('DT12-seed-C18-r6m2', {'C18': 'DT12'}, patch='/verif/selftest/patches/seed_C18_r6m2.diff')
breaking('O6-seed-C18-r6m3', {'C18': 'O6'}, patch='/verif/selftest/patches/seed_C18_r6m3.diff')
breaking('LM2-seed-C20-r6m3', {'C20': 'LM2'}, patch='/verif/selftest/patches/seed_C20_r6m3.diff')
breaking('FD2-seed-C01-r7m3', {'C01': 'FD2'}, patch='/verif/selftest/patches/seed_C01_r7m3.diff')
breaking('DET1-seed-C04-r7m1', {'C04': 'DET1'}, patch='/verif/selftest/patches/seed_C04_r7m1.diff')
breaking('PU1-seed-C04-r7m2', {'C04': 'PU1'}, patch='/verif/selftest/patches/seed_C04_r7m2.diff')
breaking('A12-seed-C04-r7m3', {'C04': 'A12'}, patch='/verif/selftest/patches/seed_C04_r7m3.diff')
breaking('P2-seed-C06-r7m1', {'C05': 'P2'}, patch='/verif/selftest/patches/seed_C06_r7m1.diff')
breaking('CHK1-seed-C06-r7m3', {'C06': 'CHK1', 'C05': 'CHK1'}, patch='/verif/selftest/patches/seed_C06_r7m3.diff')
breaking('MC2-seed-C07-r7m1', {'C07': 'MC2'}, patch='/verif/selftest/patches/seed_C07_r7m1.diff')
breaking('DT13-seed-C07-r7m2', {'C07': 'DT13', 'C03': 'DT13'}, patch='/verif/selftest/patches/seed_C07_r7m2.diff')
breaking('H1-seed-C07-r7m3', {'C07': 'H1'}, patch='/verif/selftest/patches/seed_C07_r7m3.diff')
breaking('SP3-seed-C09-r7m1', {'C09': 'SP3'}, patch='/verif/selftest/patches/seed_C09_r7m1.diff')
breaking('O5-seed-C09-r7m3', {'C09': 'O5'}, patch='/verif/selftest/patches/seed_C09_r7m3.diff')
breaking('S2-seed-C10-r7m2', {'C10': 'S2'}, patch='/verif/selftest/patches/seed_C10_r7m2.diff')
breaking('S2-seed-C10-r7m3', {'C10': 'S2'}, patch='/verif/selftest/patches/seed_C10_r7m3.diff')
breaking('D4B-seed-C11-r7m2', {'C11': 'D4B'}, patch='/verif/selftest/patches/seed_C11_r7m2.diff')
breaking('MC3-seed-C11-r7m3', {'C11': 'MC3'}, patch='/verif/selftest/patches/seed_C11_r7m3.diff')
breaking('AG2-seed-C15-r7m3', {'C15': 'AG2'}, patch='/verif/selftest/patches/seed_C15_r7m3.diff')
breaking('G1-seed-C16-r7m1', {'C16': 'G1'}, patch='/verif/selftest/patches/seed_C16_r7m1.diff')
breaking('ST4-seed-C16-r7m2', {'C16': 'ST4'}, patch='/verif/selftest/patches/seed_C16_r7m2.diff')
breaking('Q4-seed-C19-r7m1', {'C19': 'Q4'}, patch='/verif/selftest/patches/seed_C19_r7m1.diff')
breaking('Q8-seed-C19-r7m2', {'C19': 'Q8'}, patch='/verif/selftest/patches/seed_C19_r7m2.diff')
breaking('UN1-seed-C19-r7m3', {'C19': 'UN1'}, patch='/verif/selftest/patches/seed_C19_r7m3.diff')
breaking('RB1-seed-C01-r7m2', {'C01': 'RB1'}, patch='/verif/selftest/patches/seed_C01_r7m2.diff')
breaking('SP5-seed-C09-r7m2', {'C09': 'SP5'}, patch='/verif/selftest/patches/seed_C09_r7m2.diff')
breaking('NRM1-seed-C10-r7m1', {'C10': 'NRM1'}, patch='/verif/selftest/patches/seed_C10_r7m1.diff')
breaking('DT13-seed-C15-r7m2', {'C15': 'DT13'}, patch='/verif/selftest/patches/seed_C15_r7m2.diff')
breaking('FL1-seed-C01-r7m1', {'C01': 'FL1'}, patch='/verif/selftest/patches/seed_C01_r7m1.diff')
breaking('FL1-symext-realignment-dropped', {'C05': 'FL1'}, edit=[('python/numqi/entangle/symext.py',
         "    rho = rho.reshape(-1,dimA,dimB,dimA,dimB).transpose(0,1,3,2,4).reshape(-1,dimA*dimA,dimB*dimB)",
         "    rho = rho.reshape(-1,dimA,dimB,dimA,dimB).reshape(-1,dimA*dimA,dimB*dimB)")])
breaking('FL1-pauli-f2-transpose-dropped', {'C08': 'FL1', 'C07': 'FL1'}, edit=[('python/numqi/gate/_pauli.py',
         "        np0 = np0.reshape(N0,2,num_qubit).transpose(0,2,1).reshape(N0*num_qubit,2)",
         "        np0 = np0.reshape(N0,2,num_qubit).reshape(N0*num_qubit,2)")])
preserving('FL1-ok-power-sizes', ['C05'], edit=[('python/numqi/entangle/symext.py',
         "    rho = rho.reshape(-1,dimA,dimB,dimA,dimB).transpose(0,1,3,2,4).reshape(-1,dimA*dimA,dimB*dimB)",
         "    rho = rho.reshape(-1,dimA,dimB,dimA,dimB).transpose(0,1,3,2,4).reshape(-1,dimA**2,dimB**2)")])
preserving('FL1-ok-swapaxes', ['C05'], edit=[('python/numqi/entangle/symext.py',
         "    rho = rho.reshape(-1,dimA,dimB,dimA,dimB).transpose(0,1,3,2,4).reshape(-1,dimA*dimA,dimB*dimB)",
         "    rho = rho.reshape(-1,dimA,dimB,dimA,dimB).swapaxes(2,3).reshape(-1,dimA*dimA,dimB*dimB)")])
breaking('TR1-seed-C03-r8m1', {'C03': 'TR1', 'C11': 'TR1'}, patch='/verif/selftest/patches/seed_C03_r8m1.diff')
breaking('ORD1-seed-C03-r8m2', {'C03': 'ORD1'}, patch='/verif/selftest/patches/seed_C03_r8m2.diff')
breaking('PSD1-seed-C05-r8m1', {'C05': 'PSD1'}, patch='/verif/selftest/patches/seed_C05_r8m1.diff')
breaking('F7-seed-C05-r8m2', {'C13': 'F7'}, patch='/verif/selftest/patches/seed_C05_r8m2.diff')
breaking('RND1-seed-C08-r8m1', {'C08': 'RND1'}, patch='/verif/selftest/patches/seed_C08_r8m1.diff')
breaking('FW2-seed-C08-r8m2', {'C08': 'FW2', 'C07': 'FW2'}, patch='/verif/selftest/patches/seed_C08_r8m2.diff')
breaking('EVH1-seed-C12-r8m1', {'C12': 'EVH1'}, patch='/verif/selftest/patches/seed_C12_r8m1.diff')
breaking('UV1-seed-C12-r8m2', {'C12': 'UV1'}, patch='/verif/selftest/patches/seed_C12_r8m2.diff')
breaking('G1-seed-C12-r8m3', {'C16': 'G1'}, patch='/verif/selftest/patches/seed_C12_r8m3.diff')
breaking('PU1-seed-C13-r8m1', {'C13': 'PU1'}, patch='/verif/selftest/patches/seed_C13_r8m1.diff')
breaking('CAST1-seed-C13-r8m2', {'C13': 'CAST1', 'C04': 'CAST1'}, patch='/verif/selftest/patches/seed_C13_r8m2.diff')
breaking('F2-seed-C13-r8m3', {'C13': 'F2'}, patch='/verif/selftest/patches/seed_C13_r8m3.diff')
breaking('PT1-seed-C17-r8m3', {'C17': 'PT1'}, patch='/verif/selftest/patches/seed_C17_r8m3.diff')
breaking('RD2-seed-C18-r8m1', {'C18': 'RD2'}, patch='/verif/selftest/patches/seed_C18_r8m1.diff')
breaking('DT14-seed-C18-r8m2', {'C18': 'DT14'}, patch='/verif/selftest/patches/seed_C18_r8m2.diff')
breaking('TD1-seed-C18-r8m3', {'C18': 'TD1'}, patch='/verif/selftest/patches/seed_C18_r8m3.diff')
breaking('EVS1-seed-C20-r8m1', {'C20': 'EVS1'}, patch='/verif/selftest/patches/seed_C20_r8m1.diff')
breaking('G5-seed-C20-r8m2', {'C20': 'G5'}, patch='/verif/selftest/patches/seed_C20_r8m2.diff')
breaking('DROP1-seed-C20-r8m3', {'C20': 'DROP1'}, patch='/verif/selftest/patches/seed_C20_r8m3.diff')
breaking('W1-seed-C02-r8m1', {'C02': 'W1'}, patch='/verif/selftest/patches/seed_C02_r8m1.diff')
breaking('W1-seed-C02-r8m2', {'C02': 'W1'}, patch='/verif/selftest/patches/seed_C02_r8m2.diff')
breaking('FW1-seed-C02-r8m3', {'C02': 'FW1'}, patch='/verif/selftest/patches/seed_C02_r8m3.diff')
breaking('CJ1-seed-C14-r8m1', {'C14': 'CJ1'}, patch='/verif/selftest/patches/seed_C14_r8m1.diff')
breaking('MR3-seed-C14-r8m2', {'C14': 'MR3'}, patch='/verif/selftest/patches/seed_C14_r8m2.diff')
breaking('W8-seed-C01-r9m2', {'C02': 'W8'}, patch='/verif/selftest/patches/seed_C01_r9m2.diff')
breaking('DT1-seed-C01-r9m3', {'C01': 'DT1', 'C02': 'DT1'}, patch='/verif/selftest/patches/seed_C01_r9m3.diff')
breaking('A13-seed-C04-r9m1', {'C04': 'A13'}, patch='/verif/selftest/patches/seed_C04_r9m1.diff')
breaking('SV1-seed-C06-r9m3', {'C05': 'SV1'}, patch='/verif/selftest/patches/seed_C06_r9m3.diff')
breaking('U1-seed-C07-r9m2', {'C07': 'U1', 'C03': 'U1'}, patch='/verif/selftest/patches/seed_C07_r9m2.diff')
breaking('H7B-seed-C07-r9m3', {'C07': 'H7B', 'C03': 'H7B'}, patch='/verif/selftest/patches/seed_C07_r9m3.diff')
breaking('MC3-seed-C09-r9m3', {'C09': 'MC3'}, patch='/verif/selftest/patches/seed_C09_r9m3.diff')
breaking('OUT2-seed-C10-r9m2', {'C10': 'OUT2'}, patch='/verif/selftest/patches/seed_C10_r9m2.diff')
breaking('S2-seed-C10-r9m3', {'C10': 'S2'}, patch='/verif/selftest/patches/seed_C10_r9m3.diff')
breaking('M3-seed-C11-r9m1', {'C11': 'M3'}, patch='/verif/selftest/patches/seed_C11_r9m1.diff')
breaking('M4-seed-C11-r9m2', {'C11': 'M4'}, patch='/verif/selftest/patches/seed_C11_r9m2.diff')
breaking('M3-seed-C11-r9m3', {'C11': 'M3'}, patch='/verif/selftest/patches/seed_C11_r9m3.diff')
breaking('BT1-seed-C16-r9m1', {'C16': 'BT1'}, patch='/verif/selftest/patches/seed_C16_r9m1.diff')
breaking('RK1-seed-C16-r9m2', {'C16': 'RK1'}, patch='/verif/selftest/patches/seed_C16_r9m2.diff')
breaking('Q4-seed-C19-r9m1', {'C19': 'Q4'}, patch='/verif/selftest/patches/seed_C19_r9m1.diff')
breaking('Q4-seed-C19-r9m2', {'C19': 'Q4'}, patch='/verif/selftest/patches/seed_C19_r9m2.diff')
breaking('A2-seed-C19-r9m3', {'C19': 'A2', 'C04': 'A2'}, patch='/verif/selftest/patches/seed_C19_r9m3.diff')
breaking('GI1-seed-C11-r7m1', {'C11': 'GI1'}, patch='/verif/selftest/patches/seed_C11_r7m1.diff')
preserving('GI1-ok-indexed-by-position', ['C11'], edit=[('python/numqi/sim/_torch_utils.py', "                else: #custom measure\n                    info = dict(kind=kind, name=name, index=index, gate=gate)",
            "                else: #custom measure\n                    info = dict(kind=kind, name=name, index=index, gate=gate_index_list[ind0][0])")])
preserving('SP5-ok-crossed-bitand', ['C09'], edit=[('python/numqi/group/spf2.py', "    ret = (np.dot(v0[...,:N0], v1[N0:]) + np.dot(v0[...,N0:], v1[:N0]))%2",
            "    ret = (np.dot(v0[...,:N0], v1[N0:]) + np.dot(v0[...,N0:], v1[:N0]))%2\n    _chk = (v0[...,:N0] & v1[N0:])")])
preserving('UV1-ok-named-amplitudes', ['C12'], edit=[('python/numqi/channel/_internal.py',
           "    ret = np.array([\n        [[1,0], [0,np.sqrt(1-noise_rate)]],\n        [[0,np.sqrt(noise_rate)], [0,0]],\n    ])",
           "    tmp0 = np.sqrt(1-noise_rate)\n    tmp1 = np.sqrt(noise_rate)\n    ret = np.array([\n        [[1,0], [0,tmp0]],\n        [[0,tmp1], [0,0]],\n    ])")])
preserving('EVH1-ok-conj-first', ['C12'], edit=[('python/numqi/utils.py',
           "            tmp1 = (tmp0.reshape(-1,1) * EVC0.T.conj()) @ rho1 @ (EVC0 * tmp0)",
           "            tmp1 = (tmp0.reshape(-1,1) * EVC0.conj().T) @ rho1 @ (EVC0 * tmp0)")])
preserving('RND1-ok-int-of-round', ['C08'], edit=[('python/numqi/gate/_pauli.py',
           "        tmp0 = round(np.angle(np0.item())*2/np.pi) % 4",
           "        tmp0 = int(round(np.angle(np0.item())*2/np.pi)) % 4")])
preserving('TD1-ok-isqrt-plus-one', ['C18'], edit=[('python/numqi/entangle/upb.py',
           "range(3, int(math.sqrt(n))+1, 2)", "range(3, math.isqrt(n)+1, 2)")])
preserving('DT14-ok-float-cast', ['C18'], edit=[('python/numqi/state/_internal.py',
           "    ret = np.eye(8, dtype=np.float64)*(b/(7*b+1))",
           "    ret = np.diag(np.full(8, float(b)))*(1/(7*b+1))")])
preserving('FW2-ok-option-forwarded', ['C08'], edit=[('python/numqi/gate/_pauli.py',
           "        ret = _pauli_index_int_to_F2(index, num_qubit, with_sign)",
           "        ret = _pauli_index_int_to_F2(int(index), num_qubit, with_sign=with_sign)")])
breaking('SELF1-self-difference', {'C13': 'SELF1'}, edit=[('python/numqi/entangle/eof.py',
         "        tmp0 = torch.maximum(self._eps, 2*(prob*prob - purity))", "        tmp0 = torch.maximum(self._eps, 2*(purity - purity))")])
breaking('SELF1-identical-arms', {'C18': 'SELF1'}, edit=[('python/numqi/entangle/upb.py',
         "hf_is_prime = lambda n: (n>=2) and", "hf_parity = lambda n: (1 if n%2 else 1)\nhf_is_prime = lambda n: (n>=2) and")])
preserving('UV1-ok-merely-unused-name', ['C12'], edit=[('python/numqi/channel/_internal.py',
           "    ret = np.array([\n        [[1,0], [0,np.sqrt(1-noise_rate)]],",
           "    tmp9 = np.sqrt(noise_rate)*np.sqrt(1-noise_rate)\n    ret = np.array([\n        [[1,0], [0,np.sqrt(1-noise_rate)]],")])
preserving('CJ1-ok-vdot', ['C14'], edit=[('python/numqi/group/_internal.py',
           "    if (np.linalg.norm(np.trace(np0, axis1=1, axis2=2))**2/np0.shape[0])<1.5: #character theory",
           "    character = np.trace(np0, axis1=1, axis2=2)\n    if (np.vdot(character, character).real/np0.shape[0])<1.5: #character theory")])
preserving('BT1-ok-two-dimensional-guard', ['C16'], edit=[('python/numqi/gellmann.py',
           "    ret = matrix_to_gellmann_basis(dm).real\n    if not with_rho0:",
           "    if dm.ndim==2:\n        dm = (dm + dm.T.conj())/2\n    ret = matrix_to_gellmann_basis(dm).real\n    if not with_rho0:")])
preserving('OUT2-ok-conjugated-outer', ['C10'], edit=[('python/numqi/random/_internal.py',
           "def rand_density_matrix(", "def _rank_one_projector(dim, seed=None):\n    tmp0 = rand_haar_state(dim, seed=seed)\n    return np.outer(tmp0, tmp0.conj())\n\n\ndef rand_density_matrix(")])
preserving('A13-ok-inplace-on-fresh-copy', ['C04'], edit=[('python/numqi/sim/_torch_utils.py',
           "        q0_conj = ctx.saved_tensors[0].detach().numpy().conj()",
           "        q0_conj = np.conjugate(ctx.saved_tensors[0].detach().numpy())\n        q0_conj *= 1")])
preserving('M4-ok-reciprocal-norm', ['C11'], edit=[('python/numqi/sim/state.py',
           "    q2[ind2] = q1[ind2] / np.sqrt(prob[ind1])", "    q2[ind2] = q1[ind2] * (1/np.sqrt(prob[ind1]))")])
preserving('CAST1-ok-dtype-chosen-by-complexness', ['C13', 'C04'], edit=[('python/numqi/_torch_op.py',
           "    EVL, EVC = torch.linalg.eigh(matA)\n    sqrt_EVL = torch.maximum(",
           "    if matA.dtype in {torch.float32, torch.complex64}:\n        EVL, EVC = torch.linalg.eigh(matA.to(torch.complex128 if matA.is_complex() else torch.float64))\n        EVL, EVC = EVL.to(torch.float32), EVC.to(matA.dtype)\n    else:\n        EVL, EVC = torch.linalg.eigh(matA)\n    sqrt_EVL = torch.maximum(")])
breaking('refix-get_gme_2qubit', {'C13': 'F2', 'C05': 'F2'}, patch_reverse='fix_78cd862.diff')

# ---- behaviour-preserving edits for the second half of the round-3 rules
preserving('hm4-ket-first-renamed', ['C06', 'C10'], [(M + 'random/_internal.py', "tmp1 = [[(y[:,:,np.newaxis]*y[:,np.newaxis].conj()) for y in x] for x in unitary]", "tmp1 = [[(y[:,np.newaxis].conj()*y[:,:,np.newaxis]) for y in x] for x in unitary]")])
preserving('sdp1-early-none-guard', ['C06', 'C05'], [(M + 'entangle/symext.py', "    dm_norm = numqi.gellmann.dm_to_gellmann_norm(rho)\n    tmp0 = (rho - np.eye(dimA*dimB)/(dimA*dimB))/dm_norm.reshape(-1,1,1)", "    dm_norm = numqi.gellmann.dm_to_gellmann_norm(rho)\n    assert kext>=1\n    tmp0 = (rho - np.eye(dimA*dimB)/(dimA*dimB))/dm_norm.reshape(-1,1,1)")])
preserving('e5-not-with-sign', ['C08'], [(M + 'gate/_pauli.py', "    if with_sign==False:\n        ret = ret[2:]", "    if not with_sign:\n        ret = ret[2:]")])
preserving('st2-shape-before-asarray-view', ['C08'], [(M + 'gate/_pauli.py', "        shape = index.shape\n        index = index.reshape(-1)\n        if endianness_map", "        shape = tuple(index.shape)\n        index = index.reshape(-1)\n        if endianness_map")])
preserving('s8-none-first-renamed', ['C10'], [(M + 'random/_public.py', "        seed = int(rng_or_seed)\n        ret = np.random.default_rng(seed)", "        ret = np.random.default_rng(int(rng_or_seed))")])
preserving('m3-exit-renamed-tuple', ['C11'], [(M + 'sim/state.py', "    return bitstr,prob,q2", "    ret = bitstr,prob,q2\n    return ret[0],ret[1],q2")])
preserving('v3-assert-message', ['C13'], [(M + 'entangle/measure.py', "        assert abs(EVL.sum()-1) < 1e-10\n        EVC = EVC[:,-self.rank:]\n        tmp0 = (EVC * np.sqrt(EVL)).reshape(*self.dim_list, self.rank)", "        assert abs(EVL.sum()-1) < 1e-10, 'rank too small for this state'\n        EVC = EVC[:,-self.rank:]\n        tmp0 = (EVC * np.sqrt(EVL)).reshape(*self.dim_list, self.rank)")])
preserving('dt6-template-beta-copy', ['C15'], [(M + 'group/_lie.py', "    alpha = np.zeros_like(beta)\n    gamma = np.zeros_like(beta)\n    ind0 = beta<zero_eps", "    alpha = np.zeros_like(beta)\n    gamma = np.zeros(beta.shape, dtype=beta.dtype)\n    ind0 = beta<zero_eps")])
preserving('f8-clip-kept-on-radicand', ['C18'], [(M + 'state/_internal.py', "    tmp0 = np.clip(alpha + (1-alpha)/(d*d), 0, 1)", "    fidelity = alpha + (1-alpha)/(d*d)\n    tmp0 = np.clip(fidelity, 0, 1)")])
preserving('w8-softplus-allowed', ['C01', 'C02'], [(M + 'manifold/_stiefel.py', "    theta_list = [(theta[:,x:y,0],theta[:,x:y,1]) for x,y in zip([0]+tmp0,tmp0)]", "    theta_pairs = zip([0]+tmp0,tmp0)\n    theta_list = [(theta[:,x:y,0],theta[:,x:y,1]) for x,y in theta_pairs]")])

preserving('dom1-equivalent-bounds', ['C17'], [(M + 'dicke.py', "    assert (dim>1) and (num_qudit>=1)", "    assert (dim>=2) and (0<num_qudit)")])
preserving('s8-isnot-none-else-arm', ['C10'], [(M + 'random/_public.py', "    if rng_or_seed is None:\n        ret = random.Random()\n    elif isinstance(rng_or_seed, random.Random):\n        ret = rng_or_seed\n    else:\n        ret = random.Random(int(rng_or_seed))", "    if rng_or_seed is not None:\n        ret = rng_or_seed if isinstance(rng_or_seed, random.Random) else random.Random(int(rng_or_seed))\n    else:\n        ret = random.Random()")])
preserving('n2-frobenius-of-square-sample', ['C10'], [(M + 'random/_internal.py', "    tmp0 = np_rng.normal(size=(N0,dim))\n    tmp0 = tmp0 / np.linalg.norm(tmp0, axis=-1, keepdims=True)", "    scale = np.linalg.norm(np_rng.normal(size=(dim,dim))*0 + np.eye(dim)) / np.sqrt(dim)\n    tmp0 = np_rng.normal(size=(N0,dim)) * scale\n    tmp0 = tmp0 / np.linalg.norm(tmp0, axis=-1, keepdims=True)")])
breaking('EX1-admitted-option-without-arm', {'C20': 'EX1'}, edit=[(M + 'matrix_space/_numerical_range.py', "    assert method in {'rotation', 'eigen'}\n    dimA = mat.shape[0]", "    assert method in {'rotation', 'eigen', 'sdp'}\n    dimA = mat.shape[0]")])
breaking('EX1-bell-stale-arm', {'C18': 'EX1'}, edit=[(M + 'state/_internal.py', "    elif i==2:\n        ret = np.array([0,1,1,0], dtype=np.float64) / np.sqrt(2)", "    elif i==4:\n        ret = np.array([0,1,1,0], dtype=np.float64) / np.sqrt(2)")])
breaking('MC3-new-memo-gellmann', {'C16': 'MC3', 'C06': 'MC3'}, edit=[(M + 'gellmann.py', "def gellmann_matrix(i:int, j:int, d:int):", "@functools.lru_cache\ndef gellmann_matrix(i:int, j:int, d:int):")])
breaking('MC3-new-memo-qec', {'C19': 'MC3', 'C04': 'MC3'}, edit=[(M + 'qec/_internal.py', "def make_asymmetric_error_set(num_qubit, distance, weight_z=1):", "@functools.lru_cache\ndef make_asymmetric_error_set(num_qubit, distance, weight_z=1):")])
preserving('mc3-memo-of-int', ['C16'], [(M + 'gellmann.py', "def gellmann_matrix(i:int, j:int, d:int):", "@functools.lru_cache\ndef _gm_count(d):\n    return int(d*d)\n\n\ndef gellmann_matrix(i:int, j:int, d:int):")])
breaking('PU1-inplace-normalise-input-random', {'C10': 'PU1'}, edit=[(M + 'random/_internal.py', "def rand_channel_matrix_space(dim_in, num_term, seed=None):\n    np_rng = get_numpy_rng(seed)", "def _normalise_rows(np0):\n    np0 /= np.linalg.norm(np0, axis=-1, keepdims=True)\n    return np0\n\n\ndef rand_channel_matrix_space(dim_in, num_term, seed=None):\n    np_rng = get_numpy_rng(seed)")])
breaking('PU1-inplace-hermitise-input-utils', {'C12': 'PU1', 'C17': 'PU1', 'C05': 'PU1'}, edit=[(M + 'utils.py', "def partial_trace(rho:np.ndarray, dim:tuple[int], keep_index:set[int]):", "def _hermitise(rho):\n    rho += rho.T.conj()\n    rho /= 2\n    return rho\n\n\ndef partial_trace(rho:np.ndarray, dim:tuple[int], keep_index:set[int]):")])
preserving('d6-structural-skip-by-name', ['C03'], [(M + 'sim/circuit.py', "        for gate,index in self.gate_index_list:\n            if gate.kind=='unitary':\n                q0 = numqi.sim.state.apply_gate(q0, gate.array, index)", "        for gate,index in self.gate_index_list:\n            if gate.name=='barrier':\n                continue\n            if gate.kind=='unitary':\n                q0 = numqi.sim.state.apply_gate(q0, gate.array, index)")])
preserving('tr1-is-none-test', ['C17'], [(M + 'utils.py', "    if not isinstance(keep_index, collections.abc.Iterable):\n        keep_index = {int(keep_index)}", "    if keep_index is None:\n        keep_index = set(range(len(dim)))\n    if not isinstance(keep_index, collections.abc.Iterable):\n        keep_index = {int(keep_index)}")])
preserving('zs1-clamp-not-snap', ['C13'], [(M + 'entangle/eof.py', "    ret = np.maximum(2*EVL[-1]-EVL.sum(), 0)\n    return ret", "    ret = 2*EVL[-1]-EVL.sum()\n    if ret < 0:\n        ret = 0.0\n    return ret")])
preserving('ln1-conj-of-operator', ['C12'], [(M + 'channel/_internal.py', "    ret = (op @ rho.reshape(-1)).reshape(dim1, dim1)\n    return ret", "    op_dag = op.T.conj()\n    ret = (op_dag.T.conj() @ rho.reshape(-1)).reshape(dim1, dim1)\n    return ret")])
breaking('DTF1-complex-into-float-buffer', {'C18': 'DTF1'}, edit=[(M + 'state/_internal.py', "    ret[2**np.arange(n,dtype=np.int64)] = np.sqrt(1/n)", "    ret[2**np.arange(n,dtype=np.int64)] = np.exp(1j*np.pi/4)*np.sqrt(1/n)")])
preserving('dtf1-real-part-into-float-buffer', ['C18'], [(M + 'state/_internal.py', "    ret[2**np.arange(n,dtype=np.int64)] = np.sqrt(1/n)", "    ret[2**np.arange(n,dtype=np.int64)] = (np.exp(1j*0)*np.sqrt(1/n)).real")])
# ---- behaviour-preserving edits for the round-4/5/6 rules
preserving('qf1-matrix-on-the-left-kept', ['C12'], [(M + 'utils.py', "            ret = np.vdot(rho1, rho0 @ rho1).real.item()", "            tmp9 = rho0 @ rho1\n            ret = np.vdot(rho1, tmp9).real.item()")])
preserving('ac1-allclose-with-rtol-zero', ['C20'], [(M + 'matrix_space/_misc.py', "    is_symmetric = (N1==N2) and (np.abs(np0-np0.transpose(0,2,1)).max() < zero_eps)", "    is_symmetric = (N1==N2) and bool(np.allclose(np0, np0.transpose(0,2,1), rtol=0, atol=zero_eps*(1-1e-16)))")])
preserving('dtype1-membership-test', ['C02', 'C01'], [(M + 'manifold/_stiefel.py', "            tmp0 = ((dim*(dim-1))//2) if (dtype in {torch.float32,torch.float64}) else (dim*dim-1)", "            tmp0 = (dim*dim-1) if (dtype in {torch.complex64,torch.complex128}) else ((dim*(dim-1))//2)")])
preserving('w10-power-form', ['C02'], [(M + 'manifold/_internal.py', "        tmp1 = np.linalg.inv(tmp0+mat) @ (tmp0-mat)\n        ret = tmp1\n        for _ in range(order-1):\n            ret = ret @ tmp1", "        tmp1 = np.linalg.inv(tmp0+mat) @ (tmp0-mat)\n        ret = np.linalg.matrix_power(tmp1, order)")])
preserving('len1-size-comparison', ['C10'], [(M + 'random/_spf2.py', "        if not_one and np.array_equiv(ret, 1):", "        if not_one and (int(ret.sum())==ret.size):")])
preserving('lm2-copy-before-update', ['C20'], [(M + 'matrix_space/_hierarchy.py', "            ABC2 = contract_A_BC(tmp0, tmp1, projA, projBC).reshape(-1)", "            ABC2 = contract_A_BC(tmp0, tmp1, projA, projBC).reshape(-1).copy()")])
preserving('hm5-conjugate-symmetrisation', ['C13', 'C05'], [(M + 'entangle/_misc.py', "    ret = (np.abs(np.linalg.eigvals(tmp0)).sum()-1) / 2", "    tmp0 = (tmp0 + tmp0.T.conj()) / 2\n    ret = (np.abs(np.linalg.eigvalsh(tmp0)).sum()-1) / 2")])
preserving('tr1-none-sentinel', ['C11'], [(M + 'sim/state.py', "    index = numqi.utils.hf_tuple_of_int(index)\n    assert all(x==y for x,y in zip(sorted(index),index)), 'index must be sorted'", "    if index is None:\n        index = tuple(range(numqi.utils.hf_num_state_to_num_qubit(q0.shape[0])))\n    index = numqi.utils.hf_tuple_of_int(index)\n    assert all(x==y for x,y in zip(sorted(index),index)), 'index must be sorted'")])
preserving('s9-parameter-only-guard', ['C10'], [(M + 'entangle/cha.py', "        if num_init_retry>0:\n            self._rand_init_state(np_rng, num_init_retry)", "        if int(num_init_retry)>=1:\n            self._rand_init_state(np_rng, num_init_retry)")])
# ---- textual breaking edits, one per rule family
breaking('S3-ambient-draw', {'C10': 'S3'}, edit=[(M + 'random/_internal.py', "tmp0 = np_rng.normal(size=(N0,dim))\n    tmp0 = tmp0 / np.linalg.norm", "tmp0 = np.random.normal(size=(N0,dim))\n    tmp0 = tmp0 / np.linalg.norm")])
breaking('S4-unseeded-receiver', {'C10': 'S4'}, edit=[(M + 'random/_internal.py', "    np_rng = get_numpy_rng(seed)\n    assert dim>=2\n    tmp0 = np.triu(", "    np_rng = get_numpy_rng(seed)\n    assert dim>=2\n    np_rng = np.random.default_rng(dim)\n    tmp0 = np.triu(")])
breaking('S2-drop-seed-kw', {'C10': 'S2'}, edit=[(M + 'random/_internal.py', "tmp0 = rand_haar_state(dimA, seed=np_rng)", "tmp0 = rand_haar_state(dimA)")])
breaking('S5-index-bound', {'C07': 'S5', 'C10': 'S5'}, edit=[(M + 'sim/clifford.py', "self.np_rng.integers(0, len(self._two_qubit_gate_list))", "self.np_rng.integers(0, len(self._two_qubit_gate_list)-1)")])
breaking('S5-radix-bound', {'C10': 'S5'}, edit=[(M + 'random/_spf2.py', "rng.randint(0,x-1) for x in int_base", "rng.randint(0,x) for x in int_base")])
breaking('S6-truthy-seed', {'C10': 'S6'}, edit=[(M + 'random/_public.py', "    if rng_or_seed is None:\n        ret = np.random.default_rng()", "    if not rng_or_seed:\n        ret = np.random.default_rng()")])
breaking('H2-table-entry', {'C07': 'H2'}, edit=[(M + 'sim/clifford.py', "'S': numqi.gate.S, 'CX': numqi.gate.X", "'S': numqi.gate.Z, 'CX': numqi.gate.X")])
breaking('H2-control-target', {'C07': 'H2'}, edit=[(M + 'sim/clifford.py', "ret.controlled_single_qubit_gate(tmp0[gate[0]], gate[1], gate[2])", "ret.controlled_single_qubit_gate(tmp0[gate[0]], gate[2], gate[1])")])
breaking('H3-forward-order', {'C07': 'H3'}, edit=[(M + 'sim/clifford.py', "for gate in self.gate_index_list[::-1]:", "for gate in self.gate_index_list:")])
breaking('H1-new-mutator', {'C07': 'H1'}, edit=[(M + 'sim/clifford.py', "    @property\n    def num_qubit(self):\n        ret = max(y for x in self.gate_index_list", "    def pop_gate(self):\n        return self.gate_index_list.pop()\n\n    @property\n    def num_qubit(self):\n        ret = max(y for x in self.gate_index_list")])
breaking('O1-mutate-cached', {'C16': 'O1'}, edit=[(M + 'gellmann.py', "    ret = _all_gellmann_matrix_cache(d, tensor_n, with_I)\n    return ret", "    ret = _all_gellmann_matrix_cache(d, tensor_n, with_I)\n    ret *= 1\n    return ret")])
breaking('W1-swapped-args', {'C01': 'W1'}, edit=[(M + 'manifold/_stiefel.py', "ret = to_stiefel_qr(self.theta, self.dim, self.rank)", "ret = to_stiefel_qr(self.theta, self.rank, self.dim)")])
breaking('W2-dropped-option', {'C01': 'W2'}, edit=[(M + 'manifold/_internal.py', "assert method in {'softmax','sphere'}", "assert method in {'softmax','sphere','simplex'}")])
breaking('W3-count-formula', {'C01': 'W3', 'C02': 'W4'}, edit=[(M + 'manifold/_stiefel.py', "tmp0 = dim*rank-rank*(rank+1)//2\n", "tmp0 = dim*rank-rank*(rank-1)//2\n")])
breaking('G1-analysis-order', {'C16': 'G1'}, edit=[(M + 'gellmann.py', "ret = np.concatenate([aS,aA,aD,aI[:,np.newaxis]], axis=1)", "ret = np.concatenate([aA,aS,aD,aI[:,np.newaxis]], axis=1)")])
breaking('G2-wrong-field', {'C02': 'G2', 'C16': 'G2'}, edit=[(M + 'manifold/_internal.py', "mat = numqi.gellmann.gellmann_basis_to_matrix(np.concatenate([tmp0, theta, tmp1], axis=1)).imag\n        else:\n            tmp0 = np.zeros((N1, 1), dtype=theta.dtype)\n            mat = 1j*numqi.gellmann.gellmann_basis_to_matrix(np.concatenate([theta, tmp0], axis=1))\n        ret = np.stack", "mat = numqi.gellmann.gellmann_basis_to_matrix(np.concatenate([theta, tmp0, tmp1], axis=1)).imag\n        else:\n            tmp0 = np.zeros((N1, 1), dtype=theta.dtype)\n            mat = 1j*numqi.gellmann.gellmann_basis_to_matrix(np.concatenate([theta, tmp0], axis=1))\n        ret = np.stack")])
breaking('G3-wrong-block', {'C20': 'G3'}, edit=[(M + 'matrix_space/_misc.py', "tmp3 = np.concatenate([x[:,:N3], np.zeros((x.shape[0],N3),dtype=x.dtype),x[:,N3:]], axis=1)\n                ret.append(gellmann_basis_to_matrix(tmp3))", "tmp3 = np.concatenate([np.zeros((x.shape[0],N3),dtype=x.dtype),x[:,:N3],x[:,N3:]], axis=1)\n                ret.append(gellmann_basis_to_matrix(tmp3))")])
breaking('B1-one-arm-sign', {'C03': 'B1', 'C04': 'B1'}, edit=[(M + 'gate/_internal.py', "ret = np.stack([ca-isa,zero,zero,ca+isa], axis=-1).reshape(*ca.shape,2,2)", "ret = np.stack([ca-isa,zero,zero,ca-isa], axis=-1).reshape(*ca.shape,2,2)")])
breaking('B1-dropped-conj', {'C01': 'B1'}, edit=[(M + 'manifold/_internal.py', "ret = tmp3 @ tmp3.transpose(0,2,1).conj()", "ret = tmp3 @ tmp3.transpose(0,2,1)")])
breaking('D1-swapped-control', {'C03': 'D1'}, edit=[(M + 'sim/circuit.py', "q0 = numqi.sim.state.apply_control_n_gate(q0, gate.array, index[0], index[1])", "q0 = numqi.sim.state.apply_control_n_gate(q0, gate.array, index[1], index[0])")])
breaking('D2-wrong-operator', {'C03': 'D2', 'C19': 'D2'}, edit=[(M + 'sim/circuit.py', "cy = _control_gate('cy', numqi.gate.pauli.sy, 1, 1)", "cy = _control_gate('cy', numqi.gate.pauli.sz, 1, 1)")])
breaking('D3-measure-index', {'C11': 'D3', 'C03': 'D3'}, edit=[(M + 'sim/circuit.py', "                        self.gate_index_list[ind0] = gate_i, tmp0\n                        gate_i.index = tmp0\n", "                        self.gate_index_list[ind0] = gate_i, tmp0\n")])
breaking('D4-wrong-index', {'C11': 'D4'}, edit=[(M + 'sim/circuit.py', "numqi.sim.state.measure_quantum_vector(q0, self.index, self.np_rng)", "numqi.sim.state.measure_quantum_vector(q0, sorted(self.index), self.np_rng)")])
breaking('U1-no-transpose', {'C03': 'U1'}, edit=[(M + 'sim/circuit.py', "        ret = ret.T.copy()\n        return ret", "        ret = ret.copy()\n        return ret")])
breaking('A1-forward-sweep', {'C04': 'A1'}, edit=[(M + 'sim/_torch_utils.py', "for ind0 in reversed(range(max(ind_gate_to_info.keys())+1)):", "for ind0 in range(max(ind_gate_to_info.keys())+1):")])
breaking('A2-missing-conj', {'C04': 'A2'}, edit=[(M + 'sim/state.py', "    q0_grad = apply_gate(q0_grad, op.T.conj(), index)", "    q0_grad = apply_gate(q0_grad, op.T, index)")])
breaking('A3-overwrite-grad', {'C04': 'A3'}, edit=[(M + 'sim/_torch_utils.py', "gate_grad_np_dict[name][info['ind_torch']] += op_grad", "gate_grad_np_dict[name][info['ind_torch']] = op_grad")])
breaking('A2-KL-forward-order', {'C04': 'A1', 'C19': 'A1'}, edit=[(M + 'qec/_internal.py', "for ind1,op_i in reversed(op_list[ind0]):", "for ind1,op_i in op_list[ind0]:")])
breaking('A4-return-arity', {'C04': 'A4'}, edit=[(M + '_torch_op.py', "        ret = _torch_psd_sqrtm_backward_repeat(grad_output, tmp0[:-1], repeat=tmp0[-1].item())\n        return ret,None", "        ret = _torch_psd_sqrtm_backward_repeat(grad_output, tmp0[:-1], repeat=tmp0[-1].item())\n        return ret,")])
breaking('A5-once-differentiable', {'C04': 'A5'}, edit=[(M + 'qec/_internal.py', "    @staticmethod\n    @torch.autograd.function.once_differentiable\n    def backward(ctx, grad_output):\n        q0 = ctx.saved_tensors[0]", "    @staticmethod\n    def backward(ctx, grad_output):\n        q0 = ctx.saved_tensors[0]")])
breaking('TW-sibling-variable', {'C07': 'TW'}, edit=[(M + 'sim/clifford.py', "cli_r[ind0+N0] = (Zbit[0] + (np.dot(Zbit[2:(N0+2)], Zbit[(N0+2):]) % 4)//2) % 2", "cli_r[ind0+N0] = (Zbit[0] + (np.dot(Xbit[2:(N0+2)], Zbit[(N0+2):]) % 4)//2) % 2")])
breaking('Q2-permutations', {'C19': 'Q2'}, edit=[(M + 'qec/_internal.py', "for index_qubit in itertools.combinations(range(num_qubit), r=weight):\n            for gate in itertools.product(op_list, repeat=weight):\n                ret.append", "for index_qubit in itertools.permutations(range(num_qubit), r=weight):\n            for gate in itertools.product(op_list, repeat=weight):\n                ret.append")])
breaking('Q3-string-length', {'C19': 'Q3'}, edit=[(M + 'qec/_qecc.py', "tmp0 = ['XZZX', 'ZXXZ']", "tmp0 = ['XZZXI', 'ZXXZ']")])
breaking('Q4-stabilizer-letter', {'C19': 'Q4'}, edit=[(M + 'qec/_qecc.py', "tmp0 = ['XIYXX','IXXZX','ZIXYZ','IZZXZ']", "tmp0 = ['XIYXX','IXXZX','ZIXYZ','IZZXY']")])
breaking('Q4-encoder-gate', {'C19': 'Q4'}, edit=[(M + 'qec/_qecc.py', "    circ.cz(3, 4)\n    circ.cy(2, 3)\n    circ.cz(2, 4)\n    circ.cx(1, 2)", "    circ.cz(3, 4)\n    circ.cy(2, 3)\n    circ.cx(2, 4)\n    circ.cx(1, 2)")])
breaking('O2-cached-builder', {'C19': 'O2'}, edit=[(M + 'qec/_qecc.py', "import re\n", "import re\nimport functools\n"), (M + 'qec/_qecc.py', "def parse_simple_pauli(str0, tag_circuit=True):", "@functools.lru_cache\ndef parse_simple_pauli(str0, tag_circuit=True):")])
breaking('T1-bare-literal', {'C05': 'T1'}, edit=[(M + 'entangle/ppt.py', "tag = all(x[2]<=(1+threshold) for x in ret)", "tag = all(x[2]<=1 for x in ret)")])
breaking('T1-psd-no-shift', {'C05': 'T1'}, edit=[(M + 'entangle/ppt.py', "ret = numqi.utils.is_positive_semi_definite(rhoT, shift=-eps)", "ret = numqi.utils.is_positive_semi_definite(rhoT)")])
breaking('T2-shift-sign', {'C05': 'T2'}, edit=[(M + 'entangle/_misc.py', "ret = numqi.utils.is_positive_semi_definite(tmp3-rho, shift=-eps)", "ret = numqi.utils.is_positive_semi_definite(tmp3-rho, shift=eps)")])
breaking('T2-wrong-side', {'C20': 'T2'}, edit=[(M + 'matrix_space/_numerical_range.py', "if upper_bound < (1-zero_eps):", "if upper_bound < (1+zero_eps):")])
breaking('F1-drop-guard', {'C12': 'F1'}, edit=[(M + 'utils.py', "        EVL = np.maximum(np.linalg.eigvalsh(rho), np.finfo(rho.dtype).eps)\n        ret = - np.einsum", "        EVL = np.linalg.eigvalsh(rho)\n        ret = - np.einsum")])
breaking('F2-drop-clamp', {'C13': 'F2', 'C05': 'F2'}, edit=[(M + 'entangle/eof.py', "tmp1 = (1 + np.sqrt(np.maximum(0, 1-tmp0*tmp0)))/2", "tmp1 = (1 + np.sqrt(1-tmp0*tmp0))/2")])
breaking('P1-full-transpose', {'C06': 'P1', 'C05': 'P1'}, edit=[(M + 'entangle/ppt.py', ".transpose(0,1,4,3,2).reshape(-1,dimA*dimB,dimA*dimB)", ".transpose(0,3,4,1,2).reshape(-1,dimA*dimB,dimA*dimB)")])
breaking('I1-union', {'C06': 'I1'}, edit=[(M + 'entangle/ppt.py', "beta_pt_u = np.minimum(beta_u, beta_pt_u)", "beta_pt_u = np.maximum(beta_u, beta_pt_u)")])
breaking('C1-drop-pt', {'C06': 'C1'}, edit=[(M + 'entangle/symext.py', "    if use_ppt:\n        constraints += [cvxpy.partial_transpose(x, [dimA,x.shape[0]//dimA], axis=1)>>0 for x in cvxP_list]\n    constraints += [sum(cvxpy.trace(x)*y", "    constraints += [sum(cvxpy.trace(x)*y")])
breaking('C1-rebind', {'C06': 'C1'}, edit=[(M + 'entangle/symext.py', "    if use_ppt:\n        constraints += [cvxpy.partial_transpose(x, [dimA,x.shape[0]//dimA], axis=1)>>0 for x in cvxP_list]\n    constraints += [sum(cvxpy.trace(x)*y", "    if use_ppt:\n        constraints = [cvxpy.partial_transpose(x, [dimA,x.shape[0]//dimA], axis=1)>>0 for x in cvxP_list]\n    constraints += [sum(cvxpy.trace(x)*y")])
breaking('X1-transposition', {'C12': 'X1'}, edit=[(M + 'channel/_internal.py', "ret = op.reshape(dim_out,dim_out,dim_in,dim_in).transpose(2,0,3,1)", "ret = op.reshape(dim_out,dim_out,dim_in,dim_in).transpose(2,1,3,0)")])
breaking('X1-einsum-rho-transposed', {'C12': 'X1'}, edit=[(M + 'channel/_internal.py', "ret = np.einsum(op.reshape(din,dout,din,dout), [0,1,2,3], rho, [0,2], [1,3], optimize=True)", "ret = np.einsum(op.reshape(din,dout,din,dout), [0,1,2,3], rho, [2,0], [1,3], optimize=True)")])
breaking('TP-weights', {'C12': 'TP'}, edit=[(M + 'channel/_internal.py', "np.sqrt(1-3*noise_rate/4)*np.eye(2)", "np.sqrt(1-noise_rate/4)*np.eye(2)")])
breaking('E1-table-entry', {'C08': 'E1'}, edit=[(M + 'gate/_pauli.py', "tmp0 = {(0,0):0, (1,0):1, (0,1):3, (1,1):2}", "tmp0 = {(0,0):0, (1,0):1, (0,1):2, (1,1):3}")])
breaking('E1-batched-table', {'C08': 'E1'}, edit=[(M + 'gate/_pauli.py', "        for x,y in [((0,1),(1,0)), ((1,0),(1,1)), ((1,1),(0,1))]:\n            tmp0 = np.all(index_z2", "        for x,y in [((0,1),(1,0)), ((1,0),(0,1)), ((1,1),(1,1))]:\n            tmp0 = np.all(index_z2")])
breaking('E2-phase-coefficient', {'C08': 'E2'}, edit=[(M + 'gate/_pauli.py', "+ 3*np.einsum(bitX,[0,1],bitZ,[0,1],[0],optimize=True))%4 #XZ=-iY", "+ np.einsum(bitX,[0,1],bitZ,[0,1],[0],optimize=True))%4 #XZ=-iY")])
breaking('V1-swapped-stiefel', {'C13': 'V1'}, edit=[(M + 'entangle/eof.py', "        self.rank = rank\n        self.manifold = numqi.manifold.Stiefel(num_term, rank, dtype=self.cdtype, method='polar')", "        self.rank = rank\n        self.manifold = numqi.manifold.Stiefel(rank, num_term, dtype=self.cdtype, method='polar')")])
breaking('V1-no-conj', {'C13': 'V1'}, edit=[(M + 'entangle/measure.py', "tmp0 = self.contract_expr(mat_st, mat_st.conj(), backend='torch')", "tmp0 = self.contract_expr(mat_st, mat_st, backend='torch')")])
breaking('MS1-unmask', {'C18': 'MS1'}, edit=[(M + 'state/_internal.py', "        a = a[ind0]\n        tmp0 = (1-np.sqrt(1-a*a))/2", "        tmp0 = (1-np.sqrt(1-a*a))/2")])
breaking('K2-precedence', {'C18': 'K2'}, edit=[(M + 'state/_internal.py', "ret = np.eye(d*d) / (d*d)", "ret = np.eye(d*d) / d*d")])
breaking('H4-cancel-noninvolution', {'C07': 'H4'}, edit=[(M + 'sim/clifford.py', "        self.gate_index_list.append((key, index))\n", "        if self.gate_index_list and self.gate_index_list[-1]==(key, index):\n            self.gate_index_list.pop()\n        else:\n            self.gate_index_list.append((key, index))\n")])

breaking('M1-little-endian', {'C11': 'M1'}, edit=[(M + 'sim/state.py', "bitstr = [int(x) for x in bin(ind1)[2:].rjust(len(index),'0')]", "bitstr = [int((ind1>>x)&1) for x in range(len(index))]")])
preserving('keep-bitstr-shift-big-endian', ['C11'], [(M + 'sim/state.py', "bitstr = [int(x) for x in bin(ind1)[2:].rjust(len(index),'0')]", "bitstr = [int((ind1>>(len(index)-1-x))&1) for x in range(len(index))]")])

breaking('R1-op-transposed', {'C03': 'R1'}, edit=[(M + 'sim/state.py', "ret = opt_einsum.contract(tmp0, tmp1, tmp2, tmp3+tuple(index), tmp5).reshape(-1)", "ret = opt_einsum.contract(tmp0, tmp1, tmp2, tuple(index)+tmp3, tmp5).reshape(-1)")])
breaking('R1-dm-missing-conj', {'C03': 'R1'}, edit=[(M + 'sim/dm.py', "tmp2 = np.conjugate(op).reshape([2 for _ in range(2*N0)])", "tmp2 = op.reshape([2 for _ in range(2*N0)])")])
breaking('R1-opgrad-transposed', {'C04': 'R1'}, edit=[(M + 'sim/state.py', "        tmp4 = list(index) + list(range(num_qubit,num_qubit+len(index)))\n", "        tmp4 = list(range(num_qubit,num_qubit+len(index))) + list(index)\n")])

preserving('keep-ball-equivalent-form', ['C01'], [(M + 'manifold/_internal.py', "        tmp0 = np.linalg.norm(theta, axis=-1, keepdims=True)\n        ret = theta / (1+tmp0)\n", "        tmp0 = np.linalg.norm(theta, axis=-1, keepdims=True)\n        ret = theta * (1/(1+tmp0))\n"), (M + 'manifold/_internal.py', "        tmp0 = torch.linalg.norm(theta, dim=-1, keepdims=True)\n        ret = theta / (1+tmp0)\n", "        tmp0 = torch.linalg.norm(theta, dim=-1, keepdims=True)\n        ret = theta * (1/(1+tmp0))\n")])

# ---- behaviour-preserving edits that must stay silent
preserving('keep-rename-generator', ['C10'], [(M + 'random/_internal.py', "    np_rng = get_numpy_rng(seed)\n    assert dim>=2\n    tmp0 = np.triu(np_rng.integers(0, 2, size=(dim,dim)), 1)", "    gen = get_numpy_rng(seed)\n    assert dim>=2\n    tmp0 = np.triu(gen.integers(0, 2, size=(dim,dim)), 1)")])
preserving('keep-positional-seed', ['C10'], [(M + 'random/_internal.py', "ret = rand_haar_state(dimA*dimB, seed=np_rng)", "ret = rand_haar_state(dimA*dimB, True, np_rng)")])
preserving('keep-reset-helper', ['C07'], [(M + 'sim/clifford.py', "        self.gate_index_list.append((key, index0, index1))\n        self._R = None #invalidate the cached symplectic form\n        self._S = None\n", "        self.gate_index_list.append((key, index0, index1))\n        self._R, self._S = None, None\n")])
preserving('keep-forward-order-swapped-args', ['C07'], [(M + 'sim/clifford.py', "for gate in self.gate_index_list[::-1]:", "for gate in self.gate_index_list:"), (M + 'sim/clifford.py', "retR, retS = clifford_multiply(retR, retS, tmpR, tmpS)", "retR, retS = clifford_multiply(tmpR, tmpS, retR, retS)")])
preserving('keep-keyword-call', ['C01', 'C02'], [(M + 'manifold/_stiefel.py', "ret = to_stiefel_qr(self.theta, self.dim, self.rank)", "ret = to_stiefel_qr(self.theta, rank=self.rank, dim=self.dim)")])
preserving('keep-count-rewritten', ['C01', 'C02'], [(M + 'manifold/_internal.py', "tmp1 = (dim*(dim-1)//2) if is_real else dim*dim-1", "tmp1 = ((dim*dim-dim)//2) if is_real else (dim-1)*(dim+1)")])
preserving('keep-adjoint-spelling', ['C04'], [(M + 'sim/state.py', "    q0_grad = apply_gate(q0_grad, op.T.conj(), index)", "    q0_grad = apply_gate(q0_grad, op.conj().T, index)")])
preserving('keep-reverse-range', ['C04'], [(M + 'qec/_internal.py', "for ind1,op_i in reversed(op_list[ind0]):", "for ind1,op_i in op_list[ind0][::-1]:")])
preserving('keep-tolerance-renamed', ['C05'], [(M + 'entangle/ppt.py', "def is_generalized_ppt(rho, dim, return_info=False, threshold=1e-10):", "def is_generalized_ppt(rho, dim, return_info=False, slack=1e-10):"), (M + 'entangle/ppt.py', "if (not return_info) and (ret[-1][2]>(1+threshold)):", "if (not return_info) and (ret[-1][2]>(1+slack)):"), (M + 'entangle/ppt.py', "tag = all(x[2]<=(1+threshold) for x in ret)", "tag = all(x[2]<=(1+slack) for x in ret)")])
preserving('keep-guard-by-clip', ['C12'], [(M + 'utils.py', "        EVL = np.maximum(np.linalg.eigvalsh(rho), np.finfo(rho.dtype).eps)\n        ret = - np.einsum", "        EVL = np.clip(np.linalg.eigvalsh(rho), np.finfo(rho.dtype).eps, None)\n        ret = - np.einsum")])
preserving('keep-pt-other-party', ['C06', 'C05'], [(M + 'entangle/ppt.py', ".transpose(0,1,4,3,2).reshape(-1,dimA*dimB,dimA*dimB)", ".transpose(0,3,2,1,4).reshape(-1,dimA*dimB,dimA*dimB)")])
preserving('keep-table-reordered', ['C08'], [(M + 'gate/_pauli.py', "tmp0 = {(0,0):0, (1,0):1, (0,1):3, (1,1):2}", "tmp0 = {(1,1):2, (0,1):3, (1,0):1, (0,0):0}")])
preserving('keep-append-constraint', ['C06'], [(M + 'entangle/symext.py', "        constraints += [cvx_rdm==cvx_rho]", "        constraints.append(cvx_rdm==cvx_rho)")])
preserving('keep-split-transpose', ['C12'], [(M + 'channel/_internal.py', "ret = op.reshape(dim_out,dim_out,dim_in,dim_in).transpose(2,0,3,1).reshape", "ret = op.reshape(dim_out,dim_out,dim_in,dim_in).transpose(2,3,0,1).transpose(0,2,1,3).reshape")])
preserving('keep-mask-alias', ['C15'], [(M + 'group/_lie.py', "        tmp0 = np.arctan2(x10[ind0], x00[ind0]) % (2*np.pi) #(0,2*pi) alpha+gamma\n        alpha[ind0] = tmp0/2\n        gamma[ind0] = tmp0/2", "        tmp0 = (np.arctan2(x10[ind0], x00[ind0]) % (2*np.pi))/2 #(0,pi) (alpha+gamma)/2\n        alpha[ind0] = tmp0\n        gamma[ind0] = tmp0")])
preserving('keep-circuit-arm-builder', ['C19'], [(M + 'qec/_qecc.py', "                ret.X(y)\n", "                ret.single_qubit_gate(numqi.gate.X, y)\n")])
preserving('keep-gate-alias', ['C03', 'C19'], [(M + 'sim/circuit.py', "Z = _unitary_gate('Z', numqi.gate.pauli.sz, 1)", "Z = _unitary_gate('Z', numqi.gate.Z, 1)")])
preserving('keep-eof-guard-clip', ['C13', 'C05'], [(M + 'entangle/eof.py', "tmp1 = (1 + np.sqrt(np.maximum(0, 1-tmp0*tmp0)))/2", "tmp1 = (1 + np.sqrt(np.clip(1-tmp0*tmp0, 0, 1)))/2")])


ALL_CLAIMED = ['C01', 'C02', 'C03', 'C04', 'C05', 'C06', 'C07', 'C08', 'C09', 'C10', 'C11', 'C12', 'C13', 'C14', 'C15', 'C16', 'C17', 'C18', 'C19', 'C20']
VARIANTS['reformat-whole-package'] = dict(kind='preserving', edit=None, transform='unparse', expect={p: None for p in ALL_CLAIMED})


def seeded_variants():
    """Confirmed seeded changes: expected verdicts are read from /verif/seeded/expect.json."""
    out = {}
    p = os.path.join(HERE, 'seeded', 'expect.json')
    if not os.path.exists(p):
        return out
    exp = json.load(open(p))
    for name, e in exp.items():
        patch = os.path.join(HERE, 'seeded', name, 'patch.diff')
        if os.path.exists(patch) and e.get('caught_by'):
            out['seeded-' + name] = dict(kind='breaking', patch=patch, patch_reverse=None, edit=None, expect=e['caught_by'])
    return out


def build(name, v, base):
    root = tempfile.mkdtemp(prefix='numqi_selftest_', dir=base)
    shutil.copytree(os.path.join(REPO, 'python', 'numqi'), os.path.join(root, 'python', 'numqi'),
                    ignore=shutil.ignore_patterns('__pycache__', '*.pyc'))
    try:
        if v.get('patch_reverse'):
            r = subprocess.run(['git', 'apply', '-R', '--include=python/*', os.path.join(PATCHES, v['patch_reverse'])], cwd=root, capture_output=True, text=True)
            if r.returncode:
                return root, f'patch does not apply: {r.stderr.strip()[:120]}'
        if v.get('patch'):
            r = subprocess.run(['git', 'apply', '--include=python/*', v['patch']], cwd=root, capture_output=True, text=True)
            if r.returncode:
                return root, f'patch does not apply: {r.stderr.strip()[:120]}'
        for rel, old, new in (v.get('edit') or []):
            p = os.path.join(root, rel)
            s = open(p).read()
            if s.count(old) != 1:
                return root, f'edit anchor occurs {s.count(old)} times in {rel}'
            open(p, 'w').write(s.replace(old, new))
        if v.get('transform') == 'unparse':
            # whole-package formatting change: every module is replaced by ast.unparse(ast.parse(source)) (comments dropped, layout normalised)
            import ast as _ast
            for d, _, fs in os.walk(os.path.join(root, 'python', 'numqi')):
                for f in fs:
                    if f.endswith('.py'):
                        pth = os.path.join(d, f)
                        src = open(pth).read()
                        open(pth, 'w').write(_ast.unparse(_ast.parse(src)) + '\n')
        # must still compile
        import ast
        for rel in {e[0] for e in (v.get('edit') or [])}:
            ast.parse(open(os.path.join(root, rel)).read())
    except Exception as ex:
        return root, f'{type(ex).__name__}: {ex}'
    return root, None


def _run_one(args):
    name, v, prop, base = args
    import sys
    sys.path.insert(0, HERE)
    from sa.project import Project, AnalysisError
    from sa.report import Report
    from sa import props
    root, err = build(name, v, base)
    try:
        if err:
            return name, prop, 'skipped', err
        rep = Report(prop, 'quick')
        try:
            proj = Project(root)
            props.PROPS[prop](proj, rep, 'quick')
        except AnalysisError as e:
            rep.error(str(e))
        except Exception as e:
            rep.error(f'internal error: {type(e).__name__}: {e}')
        viol = sorted({i['rule'] for i in rep.items if i['status'] == 'violation'})
        want = v['expect'][prop]
        if want is None:
            if viol:
                return name, prop, 'FALSE-ALARM', f'preserving variant reported by {viol}'
            if rep.errors:
                return name, prop, 'recalibrate', rep.errors[0][:160]
            return name, prop, 'ok', 'silent'
        if want in viol:
            return name, prop, 'ok', f'reported by {viol}'
        return name, prop, 'MISSED', f'expected rule {want}, got violations {viol} errors {rep.errors[:1]}'
    finally:
        shutil.rmtree(root, ignore_errors=True)


def run(prop, rep, jobs=16):
    base = '/dev/shm' if os.path.isdir('/dev/shm') and os.access('/dev/shm', os.W_OK) else tempfile.gettempdir()
    allv = dict(VARIANTS)
    allv.update(seeded_variants())
    tasks = [(n, v, prop, base) for n, v in sorted(allv.items()) if prop in v['expect']]
    if not tasks:
        rep.selftest = {'variants': 0, 'note': 'no variant targets this property'}
        return
    with mp.Pool(min(jobs, len(tasks))) as pool:
        results = pool.map(_run_one, tasks)
    summary = {'variants': len(results), 'ok': 0, 'skipped': 0, 'missed': [], 'false_alarms': [], 'recalibrate': [], 'results': []}
    for name, p, status, detail in results:
        summary['results'].append({'variant': name, 'kind': allv[name]['kind'], 'status': status, 'detail': detail[:200]})
        if status == 'ok':
            summary['ok'] += 1
        elif status == 'skipped':
            summary['skipped'] += 1
        elif status == 'MISSED':
            summary['missed'].append(name)
        elif status == 'FALSE-ALARM':
            summary['false_alarms'].append(name)
        else:
            summary['recalibrate'].append(name)
    rep.selftest = summary
    if summary['missed']:
        rep.error(f'self-test: breaking variant(s) not reported: {summary["missed"]}')
    if summary['false_alarms']:
        rep.error(f'self-test: behaviour-preserving variant(s) reported: {summary["false_alarms"]}')
    if summary['ok'] == 0:
        rep.error('self-test: no variant could be applied to the current tree (corpus out of date)')
    print(f'[selftest {prop}] variants={len(results)} ok={summary["ok"]} skipped={summary["skipped"]} missed={len(summary["missed"])} '
          f'false_alarms={len(summary["false_alarms"])} recalibrate={len(summary["recalibrate"])}')
