"""E1 — the literal encoding tables of numqi/gate/_pauli.py compose to identities (C08)."""
import ast
from ..tables import const_eval, Sym
from ..gateval import GateEval, NotLiteral, CANON, same
from ..project import AnalysisError

MOD = 'numqi.gate._pauli'
RULE_E1 = ('E1: the letter / base-4 digit / (x,z) bit / phase-code tables written as literals in numqi.gate._pauli commute: '
           'digit->letter and letter->digit are inverse; every "IXYZ" ordering string agrees; letter->(x,z) predicates of '
           'pauli_str_to_F2 invert the (x,z)->letter table of pauli_F2_to_str; the single and the batched index<->F2 tables '
           'equal the composition letter tables; full_matrix / from_full_matrix / from_np_list use the same letter for the same '
           'bits; the letter->matrix table holds the canonical Pauli of each letter; phase codes k satisfy i^k = (re,im).')

LETTERS = 'IXYZ'


def _func(proj, name):
    return proj.func(f'{MOD}.{name}')


def _strs_ixyz(node):
    out = []
    for n in ast.walk(node):
        if isinstance(n, ast.Constant) and isinstance(n.value, str) and len(n.value) == 4 and sorted(n.value) == sorted(LETTERS):
            out.append(n)
    return out


def _dicts(node):
    return [n for n in ast.walk(node) if isinstance(n, ast.Dict)]


def e1(proj, rep):
    rep.rule('E1', RULE_E1)
    m = proj.mod(MOD)
    rep.touch(m)
    n = 0
    und = []

    def ok(c, d, node):
        nonlocal n
        n += 1
        rep.ok('E1', c, d, m, node, text=c)

    def bad(c, d, node):
        nonlocal n
        n += 1
        rep.violation('E1', c, d, m, node, text=c)

    def skip(c, d, node):
        rep.undecided('E1', c, d, m, node, text=c)

    # ---- A: digit -> letter
    f = _func(proj, '_pauli_index_int_to_str')
    ss = _strs_ixyz(f.node)
    d2l = None
    if len(ss) == 1:
        d2l = {i: ch for i, ch in enumerate(ss[0].value)}
        ok('index->str digit table', f'digit->letter {d2l}', ss[0])
    else:
        skip('index->str digit table', 'ordering string not found', f.node)
    # ---- B: letter -> digit
    f = _func(proj, '_pauli_str_to_index_int')
    l2d = None
    for d in _dicts(f.node):
        v = const_eval(d)
        if isinstance(v, dict) and set(v) == set(LETTERS):
            l2d = v
            bnode = d
    if l2d is None:
        skip('str->index digit table', 'letter->digit dict not found', f.node)
    if d2l and l2d:
        if all(l2d[d2l[i]] == i for i in range(4)) and sorted(l2d.values()) == [0, 1, 2, 3]:
            ok('str->index inverts index->str', f'letter->digit {l2d}', bnode)
        else:
            bad('str->index inverts index->str', f'letter->digit {l2d} is not the inverse of digit->letter {d2l}: index<->string round trip '
                f'changes the operator', bnode)
    # ---- C/M: every other IXYZ ordering string / int->letter dict
    ref = ''.join(d2l[i] for i in range(4)) if d2l else None
    for fname in ('get_pauli_group', 'PauliOperator.from_np_list', 'PauliOperator.from_full_matrix'):
        f = _func(proj, fname)
        for s in _strs_ixyz(f.node):
            if ref is None:
                continue
            if s.value == ref:
                ok(f'{fname} ordering string', f"'{s.value}' agrees with index->str", s)
            else:
                bad(f'{fname} ordering string', f"uses the order '{s.value}' but index<->str use '{ref}'", s)
        for d in _dicts(f.node):
            v = const_eval(d)
            if isinstance(v, dict) and set(v.keys()) == {0, 1, 2, 3} and all(isinstance(x, str) for x in v.values()):
                if d2l and v == d2l:
                    ok(f'{fname} int->letter dict', 'agrees with index->str', d)
                elif d2l:
                    bad(f'{fname} int->letter dict', f'{v} differs from digit->letter {d2l}', d)
    # module level letter->matrix
    bd = m.bindings.get('_one_pauli_str_to_np')
    if bd and bd[0] == 'assign':
        v = const_eval(bd[1])
        if isinstance(v, dict) and set(v) == set(LETTERS):
            ge = GateEval(proj)
            # dict(zip('IXYZ', [pauli.s0, ...])): evaluate each value expression
            zc = bd[1]
            vals = zc.args[0].args[1].elts if isinstance(zc, ast.Call) and zc.args and isinstance(zc.args[0], ast.Call) else None
            keys = zc.args[0].args[0].value if vals is not None and isinstance(zc.args[0].args[0], ast.Constant) else None
            if vals is not None and keys is not None and len(keys) == len(vals):
                for ch, e in zip(keys, vals):
                    try:
                        mat = ge.value(m, e)
                        if same(mat, CANON[ch]):
                            ok(f'letter->matrix[{ch}]', f'{ast.unparse(e)} is the Pauli {ch}', e)
                        else:
                            bad(f'letter->matrix[{ch}]', f'letter {ch} is bound to `{ast.unparse(e)}`, which is not the Pauli {ch}', e)
                    except NotLiteral as ex:
                        skip(f'letter->matrix[{ch}]', str(ex), e)
    # ---- E: letter -> (x,z) predicates
    f = _func(proj, 'pauli_str_to_F2')
    l2b = {}
    for s in ast.walk(f.node):
        if isinstance(s, ast.Assign) and isinstance(s.targets[0], ast.Name) and s.targets[0].id in ('bitX', 'bitZ'):
            comp = None
            for c in ast.walk(s.value):
                if isinstance(c, ast.ListComp) and isinstance(c.elt, ast.IfExp):
                    comp = c
            if comp is None:
                continue
            var = comp.generators[0].target.id if isinstance(comp.generators[0].target, ast.Name) else None
            for ch in LETTERS:
                v = const_eval(comp.elt, {var: ch})
                if v in (0, 1):
                    l2b.setdefault(ch, {})[s.targets[0].id] = v
            enode = s
    if len(l2b) == 4 and all(len(v) == 2 for v in l2b.values()):
        l2xz = {ch: (v['bitX'], v['bitZ']) for ch, v in l2b.items()}
        want = {'I': (0, 0), 'X': (1, 0), 'Z': (0, 1), 'Y': (1, 1)}
        if l2xz == want:
            ok('str->F2 bit predicates', f'letter->(x,z) {l2xz}', enode)
        else:
            bad('str->F2 bit predicates', f'letter->(x,z) is {l2xz}; the symplectic convention (X=(1,0), Z=(0,1), Y=(1,1)) needs {want}', enode)
    else:
        l2xz = None
        skip('str->F2 bit predicates', 'bitX / bitZ comprehensions not recognised', f.node)
    # ---- F: (x,z) -> letter
    f = _func(proj, 'pauli_F2_to_str')
    xz2l = None
    for d in _dicts(f.node):
        v = const_eval(d)
        if isinstance(v, dict) and set(v.keys()) == {(0, 0), (1, 0), (0, 1), (1, 1)} and all(isinstance(x, str) for x in v.values()):
            xz2l = v
            fnode = d
    if xz2l and l2xz:
        if all(xz2l[l2xz[ch]] == ch for ch in LETTERS):
            ok('F2->str inverts str->F2', f'(x,z)->letter {xz2l}', fnode)
        else:
            bad('F2->str inverts str->F2', f'(x,z)->letter {xz2l} is not the inverse of letter->(x,z) {l2xz}', fnode)
    elif not xz2l:
        skip('F2->str table', 'dict not found', f.node)
    # ---- G: (x,z) -> digit (single)
    f = _func(proj, 'pauli_F2_to_index')
    xz2d = None
    for d in _dicts(f.node):
        v = const_eval(d)
        if isinstance(v, dict) and set(v.keys()) == {(0, 0), (1, 0), (0, 1), (1, 1)} and all(isinstance(x, int) for x in v.values()):
            xz2d = v
            gnode = d
    if xz2d and xz2l and l2d:
        want = {k: l2d[xz2l[k]] for k in xz2d}
        if xz2d == want:
            ok('F2->index (single) table', f'(x,z)->digit {xz2d} = letter->digit o (x,z)->letter', gnode)
        else:
            bad('F2->index (single) table', f'(x,z)->digit {xz2d} but composing the letter tables gives {want}', gnode)
    # ---- D/H: batched triples
    for fname, direction in (('pauli_index_to_F2', 'digit->bits'), ('pauli_F2_to_index', 'bits->digit')):
        f = _func(proj, fname)
        for lp in ast.walk(f.node):
            if isinstance(lp, ast.For) and isinstance(lp.iter, ast.List) and isinstance(lp.target, ast.Tuple) and len(lp.target.elts) == 2:
                pairs = const_eval(lp.iter)
                if not (isinstance(pairs, list) and all(isinstance(p, tuple) and len(p) == 2 for p in pairs)):
                    continue
                a, b = lp.target.elts[0].id, lp.target.elts[1].id
                # which loop variable is compared (np.all(... == np.array(V))) and which is stored
                cmpv = storev = None
                for c in ast.walk(lp):
                    if isinstance(c, ast.Compare) and isinstance(c.comparators[0], ast.Call):
                        for nm in ast.walk(c.comparators[0]):
                            if isinstance(nm, ast.Name) and nm.id in (a, b):
                                cmpv = nm.id
                    if isinstance(c, ast.Assign) and isinstance(c.targets[0], ast.Subscript):
                        for nm in ast.walk(c.value):
                            if isinstance(nm, ast.Name) and nm.id in (a, b):
                                storev = nm.id
                if cmpv is None or storev is None or cmpv == storev:
                    skip(f'{fname} batched table', 'compare / store roles not recognised', lp)
                    continue
                # pairs are (digit bits (hi,lo), F2 bits (x,z)) in source order (first, second)
                idx_first = True
                tab = {}
                for first, second in pairs:
                    digit = first[0] * 2 + first[1]
                    tab[digit] = second
                tab.setdefault(0, (0, 0))
                want = {dg: l2xz[d2l[dg]] for dg in range(4)} if (l2xz and d2l) else None
                role_ok = (cmpv == a and storev == b) if direction == 'digit->bits' else (cmpv == b and storev == a)
                if want is None:
                    continue
                if tab == want and role_ok:
                    ok(f'{fname} batched table', f'{direction}: {tab} equals the composition of the letter tables', lp.iter)
                elif tab != want:
                    bad(f'{fname} batched table', f'batched digit<->(x,z) table {tab} but the single-operator path gives {want}: batched and '
                        f'single conversions disagree', lp.iter)
                else:
                    bad(f'{fname} batched table', f'table used in the wrong direction (compares `{cmpv}`, stores `{storev}`)', lp)
    # ---- I: phase codes
    f = _func(proj, 'pauli_str_to_F2')
    for d in _dicts(f.node):
        v = const_eval(d)
        if isinstance(v, dict) and set(v.keys()) == {(1, 0), (0, 1), (-1, 0), (0, -1)} and all(isinstance(x, int) for x in v.values()):
            good = all(abs((1j ** k) - complex(re, im)) < 1e-12 for (re, im), k in v.items())
            if good:
                ok('phase code table (str->F2)', f'(re,im)->k with i^k = re+i*im: {v}', d)
            else:
                bad('phase code table (str->F2)', f'(re,im)->k {v} does not satisfy i^k = re + i*im', d)
    f = _func(proj, 'PauliOperator.__str__')
    for d in _dicts(f.node):
        v = const_eval(d)
        if isinstance(v, dict) and set(v.keys()) == {(1, 0), (0, 1), (-1, 0), (0, -1)}:
            want = {(1, 0): '', (0, 1): 'i', (-1, 0): '-', (0, -1): '-i'}
            if v == want:
                ok('phase text table (__str__)', str(v), d)
            else:
                bad('phase text table (__str__)', f'{v} prints a wrong sign for some phase', d)
    # ---- K: full_matrix
    f = _func(proj, 'PauliOperator.full_matrix')
    for d in _dicts(f.node):
        keys = [const_eval(k) for k in d.keys]
        if sorted(k for k in keys if isinstance(k, int)) == [0, 1, 2, 3]:
            letters = {}
            for k, v in zip(keys, d.values):
                if isinstance(v, ast.Subscript) and isinstance(v.slice, ast.Constant):
                    letters[k] = v.slice.value
            if len(letters) == 4 and xz2l:
                want = {2 * x + z: xz2l[(x, z)] for x in (0, 1) for z in (0, 1)}
                # key expression must be 2*x + z
                keyexpr = None
                for s in ast.walk(f.node):
                    if isinstance(s, ast.BinOp) and isinstance(s.op, ast.Add) and isinstance(s.left, ast.BinOp) and isinstance(s.left.op, ast.Mult):
                        keyexpr = s
                kx = ast.unparse(keyexpr.left.left).replace(' ', '') if keyexpr is not None else ''
                kz = ast.unparse(keyexpr.right).replace(' ', '') if keyexpr is not None else ''
                x_first = kx.startswith('self.F2[2:') and kz.startswith('self.F2[2+N0:')
                if not x_first and keyexpr is not None and kz.startswith('self.F2[2:') and kx.startswith('self.F2[2+N0:'):
                    want = {2 * z + x: xz2l[(x, z)] for x in (0, 1) for z in (0, 1)}
                    x_first = True
                if keyexpr is None or not x_first:
                    skip('full_matrix key table', 'key expression 2*x+z not recognised', d)
                elif letters == want:
                    ok('full_matrix key table', f'2x+z -> letter {letters} agrees with (x,z)->letter', d)
                else:
                    bad('full_matrix key table', f'2x+z -> letter is {letters}; the F2->str table gives {want}: full_matrix and str_ name different operators', d)
    # ---- L: from_full_matrix bit predicates
    f = _func(proj, 'PauliOperator.from_full_matrix')
    order = None
    for s in _strs_ixyz(f.node):
        order = s.value
    preds = {}
    for s in ast.walk(f.node):
        if isinstance(s, ast.Assign) and isinstance(s.targets[0], ast.Subscript) and isinstance(s.value, ast.IfExp):
            tgt = ast.unparse(s.targets[0].slice).replace(' ', '')
            which = 'z' if '+N0' in tgt else 'x'
            var = None
            for nm in ast.walk(s.value.test):
                if isinstance(nm, ast.Name):
                    var = nm.id
            vals = {}
            for i in range(4):
                v = const_eval(s.value, {var: i})
                if v in (0, 1):
                    vals[i] = v
            if len(vals) == 4:
                preds[which] = (vals, s)
    if order and len(preds) == 2 and l2xz:
        got = {order[i]: (preds['x'][0][i], preds['z'][0][i]) for i in range(4)}
        if got == l2xz:
            ok('from_full_matrix bit predicates', f'letter->(x,z) {got} agrees with str->F2', preds['x'][1])
        else:
            bad('from_full_matrix bit predicates', f'letter->(x,z) {got} but pauli_str_to_F2 uses {l2xz}', preds['x'][1])
    # phase bits tmp0>>1, tmp0&1
    for s in ast.walk(f.node):
        if isinstance(s, ast.List) and len(s.elts) == 2 and isinstance(s.elts[0], ast.BinOp) and isinstance(s.elts[1], ast.BinOp):
            a, b = s.elts
            if isinstance(a.op, ast.RShift) and isinstance(b.op, ast.BitAnd):
                good = const_eval(a.right) == 1 and const_eval(b.right) == 1 and ast.dump(a.left) == ast.dump(b.left)
                if good:
                    ok('from_full_matrix phase bits', '[k>>1, k&1] = (k//2, k%2)', s)
                else:
                    bad('from_full_matrix phase bits', f'`{ast.unparse(s)}` is not (k//2, k%2)', s)
    rep.count('E1.table_obligations', n)
    return n


RULE_E2 = ('E2: the phase convention XZ = -iY is folded consistently: the encoders (pauli_str_to_F2, pauli_index_to_F2) add c * (x.z) to the '
           'phase code and split it as (code//2, code%2); the decoder (pauli_F2_to_str) recombines 2*b0 + b1 + c\' * (x.z) with '
           'c + c\' = 0 (mod 4) and returns 1j**code.')


def _overlap_coeff(expr):
    """Coefficient of the einsum(bitX, bitZ) / x.z overlap term inside an additive expression; None if absent."""
    terms = []

    def fl(e, sign=1):
        if isinstance(e, ast.BinOp) and isinstance(e.op, ast.Add):
            fl(e.left, sign)
            fl(e.right, sign)
        elif isinstance(e, ast.BinOp) and isinstance(e.op, ast.Sub):
            fl(e.left, sign)
            fl(e.right, -sign)
        else:
            terms.append((sign, e))
    fl(expr)
    for sign, t in terms:
        coef = 1
        core = t
        if isinstance(t, ast.BinOp) and isinstance(t.op, ast.Mult):
            for a, b in ((t.left, t.right), (t.right, t.left)):
                if isinstance(a, ast.Constant) and isinstance(a.value, int):
                    coef, core = a.value, b
        if isinstance(core, ast.Call) and 'einsum' in ast.unparse(core.func):
            return sign * coef
    return None


def e2(proj, rep):
    rep.rule('E2', RULE_E2)
    m = proj.mod(MOD)
    n = 0
    enc = {}
    for fname in ('pauli_str_to_F2', 'pauli_index_to_F2'):
        f = _func(proj, fname)
        for s in ast.walk(f.node):
            if isinstance(s, ast.Assign) and isinstance(s.value, ast.BinOp) and isinstance(s.value.op, ast.Mod) \
                    and isinstance(s.value.right, ast.Constant) and s.value.right.value == 4:
                c = _overlap_coeff(s.value.left)
                if c is not None:
                    enc[fname] = (c, s)
                    # split (code//2, code%2)
                    nm = s.targets[0].id if isinstance(s.targets[0], ast.Name) else None
                    split = [x for x in ast.walk(f.node) if isinstance(x, ast.List) and len(x.elts) == 2
                             and ast.unparse(x.elts[0]).replace(' ', '') == f'{nm}//2' and ast.unparse(x.elts[1]).replace(' ', '') == f'{nm}%2']
                    n += 1
                    if split:
                        rep.ok('E2', f'{fname} phase split', f'code = ({c})*(x.z) + ... mod 4, stored as (code//2, code%2)', m, s, text=f'{fname} split')
                    else:
                        rep.violation('E2', f'{fname} phase split', f'phase code `{nm}` is not stored as ({nm}//2, {nm}%2)', m, s, text=f'{fname} split')
    # an overlap count that is split into (code//2, code%2) WITHOUT the reduction mod 4: the high "bit" exceeds 1 for >= 4 Y factors
    for fname in ('pauli_str_to_F2', 'pauli_index_to_F2'):
        if fname in enc:
            continue
        f = _func(proj, fname)
        for s in ast.walk(f.node):
            if isinstance(s, ast.Assign) and isinstance(s.targets[0], ast.Name) and _overlap_coeff(s.value) is not None \
                    and not (isinstance(s.value, ast.BinOp) and isinstance(s.value.op, ast.Mod)):
                nm = s.targets[0].id
                split = [x for x in ast.walk(f.node) if isinstance(x, ast.List) and len(x.elts) == 2
                         and ast.unparse(x.elts[0]).replace(' ', '') == f'{nm}//2' and ast.unparse(x.elts[1]).replace(' ', '') == f'{nm}%2']
                if split:
                    n += 1
                    rep.violation('E2', f'{fname} phase split', f'`{ast.unparse(s)[:90]}` is stored as ({nm}//2, {nm}%2) without `% 4`: for an operator '
                                  f'with 4 or more Y factors the first sign "bit" is >= 2 (not an F2 entry; the phase of YYYY... is wrong)', m, s,
                                  text=f'{fname} split')
    f = _func(proj, 'pauli_F2_to_str')
    dec = None
    for s in ast.walk(f.node):
        if isinstance(s, ast.Assign) and isinstance(s.value, ast.BinOp) and isinstance(s.value.op, ast.Mod) \
                and isinstance(s.value.right, ast.Constant) and s.value.right.value == 4:
            c = _overlap_coeff(s.value.left)
            if c is not None:
                txt = ast.unparse(s.value.left).replace(' ', '')
                weights_ok = '2*np0[:,0]+np0[:,1]' in txt
                dec = (c, s, weights_ok)
    if dec is None or not enc:
        rep.undecided('E2', 'phase folding', 'encoder/decoder phase expressions not recognised', m, f.node, text='phase folding')
        return n
    c2, s2, wok = dec
    n += 1
    if not wok:
        rep.violation('E2', 'pauli_F2_to_str phase bits', f'`{ast.unparse(s2.value)[:80]}` does not recombine the two sign bits as 2*b0 + b1', m, s2,
                      text='decoder weights')
    else:
        rep.ok('E2', 'pauli_F2_to_str phase bits', 'code = 2*b0 + b1 + c\'*(x.z)', m, s2, text='decoder weights')
    for fname, (c1, s1) in enc.items():
        n += 1
        if (c1 + c2) % 4 == 0:
            rep.ok('E2', f'{fname} <-> pauli_F2_to_str', f'overlap coefficients {c1} and {c2} cancel mod 4', m, s1, text=f'{fname} folding')
        else:
            rep.violation('E2', f'{fname} <-> pauli_F2_to_str', f'encoder adds {c1}*(x.z), decoder adds {c2}*(x.z): they do not cancel mod 4, so the '
                          f'sign of every operator containing Y changes in a string round trip', m, s1, text=f'{fname} folding')
    # sign = 1j ** code
    n += 1
    pw = [x for x in ast.walk(f.node) if isinstance(x, ast.BinOp) and isinstance(x.op, ast.Pow) and isinstance(x.left, ast.Constant) and x.left.value == 1j]
    if pw:
        rep.ok('E2', 'pauli_F2_to_str sign', 'sign = 1j**code', m, pw[0], text='decoder sign')
    else:
        rep.violation('E2', 'pauli_F2_to_str sign', 'decoder does not return 1j**code', m, f.node, text='decoder sign')
    return n



# ------------------------------------------------------------------------------------------------ E3
RULE_E3 = ('E3: rand_pauli fixes hermiticity through the LOW phase bit only: a Pauli i^(2 b0 + b1) X^x Z^z is Hermitian iff b1 + x.z is even, so '
           'both arms of `if is_hermitian` assign the same slot F2[1] - the x.z parity in the Hermitian arm and its complement in the other.')


def e3(proj, rep):
    rep.rule('E3', RULE_E3)
    f = proj.func('numqi.random._spf2.rand_pauli')
    m = f.module
    rep.touch(m)
    node = next((x for x in ast.walk(f.node) if isinstance(x, ast.If) and isinstance(x.test, ast.Name) and x.test.id == 'is_hermitian'), None)
    if node is None or len(node.body) != 1 or len(node.orelse) != 1 or not all(isinstance(x, ast.Assign) for x in node.body + node.orelse):
        rep.undecided('E3', f.qual, '`if is_hermitian:` twin assignment not found', m, f.node, text='hermitian arms')
        return 0
    a, b = node.body[0], node.orelse[0]
    ta, tb = ast.unparse(a.targets[0]).replace(' ', ''), ast.unparse(b.targets[0]).replace(' ', '')
    n = 1
    if ta != tb:
        rep.violation('E3', f.qual, f'the two arms write different slots ({ta} / {tb}): the anti-Hermitian request leaves the parity bit random and '
                      f'flips the overall sign bit instead', m, b)
    elif ta != 'F2[1]':
        rep.violation('E3', f.qual, f'hermiticity is fixed through {ta}; it depends on the low phase bit F2[1] only', m, a)
    else:
        rep.ok('E3', f.qual, 'both arms write F2[1]', m, node)
    n += 1
    va, vb = ast.unparse(a.value).replace(' ', ''), ast.unparse(b.value).replace(' ', '')
    par = None
    for st in ast.walk(f.node):
        if isinstance(st, ast.Assign) and isinstance(st.targets[0], ast.Name) and st.targets[0].id == va:
            par = ast.unparse(st.value).replace(' ', '')
    okp = par is not None and par.endswith('%2') and 'dot(F2[2:2+n],F2[2+n:])' in par.replace('(2+n)', '2+n')
    if okp and vb in (f'1-{va}', f'({va}+1)%2', f'1^{va}', f'{va}^1'):
        rep.ok('E3', f.qual, f'Hermitian arm stores the x.z parity, the other arm its complement', m, node)
    elif not okp:
        rep.undecided('E3', f.qual, f'parity expression `{par}` not recognised', m, node, text='parity')
        n -= 1
    else:
        rep.violation('E3', f.qual, f'arms store `{va}` and `{vb}`: not a parity and its complement', m, b)
    return n


# ------------------------------------------------------------------------------------------------ E4
RULE_E4 = ('E4: group law of PauliOperator in the F2 encoding P = i^(2 b0 + b1) X^x Z^z (the convention the decoder pauli_F2_to_str uses). '
           '__matmul__ must realise c = c1 + c2 + 2 (z1 . x2) mod 4: the overlap term is the dot product of the Z part of the LEFT factor with the X '
           'part of the RIGHT factor, and the literal bit arithmetic (sum mod 2, carry (b1+b1\')//2 into b0) equals that law for all 32 combinations '
           'of (b0,b1,b0\',b1\',overlap parity); inverse() must realise c -> -c + 2 (x . z) for all 8 combinations; commutate_with is the symplectic '
           'form x1.z2 + z1.x2. The literal formulas are evaluated over their finite domain by the checker\'s own integer evaluator.')


def _ieval(e, env):
    """integer evaluation of a literal arithmetic expression over names in env (no repo code is executed)"""
    if isinstance(e, ast.Constant) and isinstance(e.value, int):
        return e.value
    if isinstance(e, ast.Name):
        return env[e.id]
    if isinstance(e, ast.BinOp):
        a, b = _ieval(e.left, env), _ieval(e.right, env)
        if isinstance(e.op, ast.Add):
            return a + b
        if isinstance(e.op, ast.Sub):
            return a - b
        if isinstance(e.op, ast.Mult):
            return a * b
        if isinstance(e.op, ast.Mod):
            return a % b
        if isinstance(e.op, ast.FloorDiv):
            return a // b
    raise KeyError(ast.unparse(e))


def _f2_slot(e, owner_names):
    """classify `self.F2[0]`, `b.F2[1]`, `self.F2[2:2+n]`, `self.F2[(2+n):]` -> (owner, 'b0'|'b1'|'x'|'z')"""
    if not (isinstance(e, ast.Subscript) and isinstance(e.value, ast.Attribute) and e.value.attr == 'F2' and isinstance(e.value.value, ast.Name)):
        return None
    owner = e.value.value.id
    t = ast.unparse(e.slice).replace(' ', '').replace('self.num_qubit', 'n').replace('N0', 'n').replace('(', '').replace(')', '')
    kind = {'0': 'b0', '1': 'b1', '2:2+n': 'x', '2+n:': 'z'}.get(t)
    return (owner, kind) if kind else None


def e4(proj, rep):
    rep.rule('E4', RULE_E4)
    m = proj.mod(MOD)
    ci = proj.cls(f'{MOD}.PauliOperator')
    n = 0
    # ---------------- __matmul__
    f = ci.methods['__matmul__'].node
    other = [a.arg for a in f.args.args][1]
    stmts = [s for s in f.body if isinstance(s, ast.Assign)]
    dot = next((c for s in stmts for c in ast.walk(s.value) if isinstance(c, ast.Call) and ast.unparse(c.func).endswith('dot')), None)
    n += 1
    if dot is None or len(dot.args) != 2:
        rep.undecided('E4', f'{ci.qual}.__matmul__[overlap]', 'overlap dot product not found', m, f)
        n -= 1
    else:
        a, b = _f2_slot(dot.args[0], None), _f2_slot(dot.args[1], None)
        if a is None or b is None:
            rep.undecided('E4', f'{ci.qual}.__matmul__[overlap]', f'`{ast.unparse(dot)}` operands not recognised', m, dot)
            n -= 1
        elif {a, b} == {('self', 'z'), (other, 'x')}:
            rep.ok('E4', f'{ci.qual}.__matmul__[overlap]', 'overlap = z(left) . x(right): moving Z^z1 past X^x2 gives (-1)^(z1.x2)', m, dot)
        elif {a, b} == {('self', 'x'), (other, 'z')}:
            rep.violation('E4', f'{ci.qual}.__matmul__[overlap]', f'`{ast.unparse(dot)}` uses x(left) . z(right): that is the sign of the convention Z^z X^x, the decoder '
                          f'uses X^x Z^z - products of non-commuting operators get the opposite sign', m, dot)
        else:
            rep.violation('E4', f'{ci.qual}.__matmul__[overlap]', f'`{ast.unparse(dot)}` pairs {a} with {b}: not the Z part of the left factor with the X part of the right factor', m, dot)
    # bit arithmetic: abstract the statements
    n += 1
    try:
        names = {}
        order = []
        for s in stmts:
            if isinstance(s.targets[0], ast.Name):
                names[s.targets[0].id] = s.value
                order.append(s)
        sumname = next(k for k, v in names.items() if ast.unparse(v).replace(' ', '') in (f'(self.F2+{other}.F2)%2', f'({other}.F2+self.F2)%2'))
        dotname = next(k for k, v in names.items() if any(c is dot for c in ast.walk(v)))
        carry = next((k, v) for k, v in names.items() if isinstance(v, ast.BinOp) and isinstance(v.op, ast.FloorDiv))
        upd = next(s for s in f.body if isinstance(s, ast.Assign) and isinstance(s.targets[0], ast.Subscript)
                   and ast.unparse(s.targets[0]).replace(' ', '') == f'{sumname}[0]')

        class Abs(ast.NodeTransformer):
            def visit_Subscript(self, node):
                sl = _f2_slot(node, None)
                if sl and sl[1] in ('b0', 'b1'):
                    return ast.Name(id=('L' if sl[0] == 'self' else 'R') + sl[1], ctx=ast.Load())
                if ast.unparse(node).replace(' ', '') == f'{sumname}[0]':
                    return ast.Name(id='S0', ctx=ast.Load())
                return node
        carry_e = Abs().visit(ast.parse(ast.unparse(carry[1]), mode='eval').body)
        upd_e = Abs().visit(ast.parse(ast.unparse(upd.value), mode='eval').body)
        bad = None
        for Lb0 in (0, 1):
            for Lb1 in (0, 1):
                for Rb0 in (0, 1):
                    for Rb1 in (0, 1):
                        for t in (0, 1):
                            env = {'Lb0': Lb0, 'Lb1': Lb1, 'Rb0': Rb0, 'Rb1': Rb1, 'S0': (Lb0 + Rb0) % 2, dotname: t}
                            env[carry[0]] = _ieval(carry_e, env)
                            nb0 = _ieval(upd_e, env)
                            nb1 = (Lb1 + Rb1) % 2
                            want = (2 * Lb0 + Lb1 + 2 * Rb0 + Rb1 + 2 * t) % 4
                            if 2 * nb0 + nb1 != want and bad is None:
                                bad = (Lb0, Lb1, Rb0, Rb1, t, 2 * nb0 + nb1, want)
        if bad:
            rep.violation('E4', f'{ci.qual}.__matmul__[phase bits]', f'for (b0,b1)=({bad[0]},{bad[1]}), (b0\',b1\')=({bad[2]},{bad[3]}), overlap parity {bad[4]} the literal '
                          f'formulas give phase code {bad[5]} but c1+c2+2*overlap = {bad[6]} (mod 4): products carry the wrong power of i', m, upd)
        else:
            rep.ok('E4', f'{ci.qual}.__matmul__[phase bits]', 'sum mod 2 with carry (b1+b1\')//2 and the overlap parity into b0 equals c1+c2+2*overlap mod 4 (32 cases)', m, upd)
    except (StopIteration, KeyError) as ex:
        rep.undecided('E4', f'{ci.qual}.__matmul__[phase bits]', f'phase-bit statements not recognised ({ex})', m, f)
        n -= 1
    # ---------------- inverse
    f = ci.methods['inverse'].node
    n += 1
    try:
        upd = next(s for s in f.body if isinstance(s, ast.Assign) and isinstance(s.targets[0], ast.Subscript) and ast.unparse(s.targets[0].slice) == '0')
        dot = next(c for c in ast.walk(upd.value) if isinstance(c, ast.Call) and ast.unparse(c.func).endswith('dot'))
        a, b = _f2_slot(dot.args[0], None), _f2_slot(dot.args[1], None)
        if {a, b} != {('self', 'x'), ('self', 'z')}:
            rep.violation('E4', f'{ci.qual}.inverse', f'`{ast.unparse(dot)}` is not x . z of the operator itself', m, upd)
        else:
            class Abs2(ast.NodeTransformer):
                def visit_Call(self, node):
                    if node is dot or ast.unparse(node) == ast.unparse(dot):
                        return ast.Name(id='T', ctx=ast.Load())
                    return self.generic_visit(node)

                def visit_Subscript(self, node):
                    sl = _f2_slot(node, None)
                    if sl and sl[1] in ('b0', 'b1'):
                        return ast.Name(id=sl[1], ctx=ast.Load())
                    return node
            e = Abs2().visit(ast.parse(ast.unparse(upd.value), mode='eval').body)
            bad = None
            for b0 in (0, 1):
                for b1 in (0, 1):
                    for t in (0, 1):
                        nb0 = _ieval(e, {'b0': b0, 'b1': b1, 'T': t})
                        if (2 * nb0 + b1) % 4 != (-(2 * b0 + b1) + 2 * t) % 4 and bad is None:
                            bad = (b0, b1, t)
            if bad:
                rep.violation('E4', f'{ci.qual}.inverse', f'for (b0,b1)={bad[:2]}, x.z parity {bad[2]} the literal formula does not give -c + 2 x.z (mod 4): P @ P.inverse() '
                              f'is not the identity', m, upd)
            else:
                rep.ok('E4', f'{ci.qual}.inverse', 'b0 <- b0 + b1 + x.z equals c -> -c + 2 x.z mod 4 (8 cases)', m, upd)
    except (StopIteration, KeyError) as ex:
        rep.undecided('E4', f'{ci.qual}.inverse', f'update not recognised ({ex})', m, f)
        n -= 1
    # ---------------- commutate_with
    f = ci.methods['commutate_with'].node
    n += 1
    dots = [c for c in ast.walk(f) if isinstance(c, ast.Call) and ast.unparse(c.func).endswith('dot')]
    other = [a.arg for a in f.args.args][1]
    pairs = sorted(tuple(sorted([_f2_slot(c.args[0], None) or ('?', '?'), _f2_slot(c.args[1], None) or ('?', '?')])) for c in dots)
    want = sorted([tuple(sorted([('self', 'x'), (other, 'z')])), tuple(sorted([('self', 'z'), (other, 'x')]))])
    if pairs == want and '%2==0' in ast.unparse(f).replace(' ', ''):
        rep.ok('E4', f'{ci.qual}.commutate_with', 'x1.z2 + z1.x2 even', m, f)
    elif len(dots) != 2:
        rep.undecided('E4', f'{ci.qual}.commutate_with', 'symplectic form not recognised', m, f)
        n -= 1
    else:
        rep.violation('E4', f'{ci.qual}.commutate_with', f'dot products pair {pairs}: the symplectic form is x1.z2 + z1.x2 (mod 2) == 0', m, f)
    rep.count('E4.obligations', n)
    return n
