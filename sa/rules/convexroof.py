"""V1 — the variational convex-roof models evaluate an actual pure-state decomposition at every parameter point (C13)."""
import ast
from ..callgraph import resolve_callee
from ..project import bind_call
from ..tables import const_eval

RULE_V1 = ('V1: in EntanglementFormationModel, ConcurrenceModel and DensityMatrixLinearEntropyModel (a) the mixing matrix is the output of a '
           'numqi.manifold.Stiefel(ensemble size, rank) built in __init__ - dim <- ensemble size, rank <- rank, never swapped; (b) sqrt(rho) is '
           'EVC*sqrt(EVL) of the top `rank` eigenpairs, both sliced with -self.rank; (c) forward feeds the contraction with the Stiefel '
           'point once plain and once conjugated; (d) the literal index lists pair the rank leg of sqrt(rho) with the plain factor and the '
           'rank leg of conj(sqrt(rho)) with the other factor, both factors share the ensemble index, which is kept, and exactly one '
           'subsystem index is traced between sqrt(rho) and its conjugate. Together: every parameter value yields psi_n = sum_r X[n,r] '
           'sqrt(lambda_r)|e_r> with X^dagger X = I, i.e. a decomposition of rho.')

MODELS = {
    'numqi.entangle.eof.EntanglementFormationModel': ('num_term', 'manifold'),
    'numqi.entangle.eof.ConcurrenceModel': ('num_term', 'manifold'),
    'numqi.entangle.measure.DensityMatrixLinearEntropyModel': ('num_ensemble', 'manifold_stiefel'),
    'numqi.entangle.measure.DensityMatrixGMEModel': ('num_ensemble', 'manifold_stiefel'),
}


def v1(proj, rep):
    rep.rule('V1', RULE_V1)
    n = 0
    for cq, (ens, attr) in MODELS.items():
        ci = proj.cls(cq)
        m = ci.module
        rep.touch(m)
        init = ci.methods['__init__']
        # (a) Stiefel construction
        st = None
        for s in ast.walk(init.node):
            if isinstance(s, ast.Assign) and isinstance(s.targets[0], ast.Attribute) and s.targets[0].attr == attr and isinstance(s.value, ast.Call):
                r = resolve_callee(proj, m, s.value)
                if r.kind == 'class' and r.qual.endswith('._stiefel.Stiefel'):
                    st = (s, r.node)
        n += 1
        if st is None:
            rep.violation('V1', f'{cq}[a]', f'self.{attr} is not a numqi.manifold.Stiefel built in __init__: the mixing matrix is not guaranteed to be '
                          f'an isometry', m, init.node, text=f'{cq} stiefel')
        else:
            s, sci = st
            b = bind_call(s.value, sci.methods['__init__'], skip_self=True)
            d, r_ = b.args.get('dim'), b.args.get('rank')
            dn = ast.unparse(d) if d is not None else None
            rn = ast.unparse(r_) if r_ is not None else None
            if dn == ens and rn == 'rank':
                rep.ok('V1', f'{cq}[a]', f'Stiefel(dim<-{dn}, rank<-{rn})', m, s)
            else:
                rep.violation('V1', f'{cq}[a]', f'Stiefel(dim<-{dn}, rank<-{rn}): expected dim<-{ens} (ensemble size) and rank<-rank; with the two swapped '
                              f'X X^dagger = I instead of X^dagger X = I and the ensemble does not average to rho', m, s)
        # (b) sqrt(rho) from the top-rank eigenpairs
        sd = ci.methods.get('set_density_matrix')
        if sd is not None:
            n += 1
            sl = []
            for s in ast.walk(sd.node):
                if isinstance(s, ast.Slice) and s.lower is not None and 'rank' in ast.unparse(s.lower):
                    sl.append(ast.unparse(s.lower).replace(' ', ''))
            sq = [s for s in ast.walk(sd.node) if isinstance(s, ast.BinOp) and isinstance(s.op, ast.Mult)
                  and ast.unparse(s).replace(' ', '') in ('EVC*np.sqrt(EVL)', 'np.sqrt(EVL)*EVC')]
            if len(sl) >= 2 and all(x == '-self.rank' for x in sl) and sq:
                rep.ok('V1', f'{cq}[b]', 'sqrt(rho) = EVC[:, -rank:] * sqrt(EVL[-rank:])', m, sq[0])
            elif not sq:
                rep.undecided('V1', f'{cq}[b]', 'sqrt(rho) construction not recognised', m, sd.node, text=f'{cq} sqrt rho')
            else:
                rep.violation('V1', f'{cq}[b]', f'eigenvalues and eigenvectors are sliced with {sl}: they must both take the top `rank` pairs '
                              f'(-self.rank:)', m, sq[0])
        # (c) forward: plain + conj
        fw = ci.methods['forward']
        gs = ci.methods.get('get_state')
        n += 1
        src_fn = fw
        var = None
        for s in ast.walk(fw.node):
            if isinstance(s, ast.Assign) and isinstance(s.value, ast.Call) and ast.unparse(s.value.func) == f'self.{attr}' and isinstance(s.targets[0], ast.Name):
                var = s.targets[0].id
        calls = [c for c in ast.walk(fw.node) if isinstance(c, ast.Call) and ast.unparse(c.func) == 'self.contract_expr']
        if var is not None and calls:
            args = [ast.unparse(a).replace(' ', '') for a in calls[0].args]
            if sorted(args[:2]) == sorted([var, f'{var}.conj()']):
                rep.ok('V1', f'{cq}[c]', f'contract_expr({", ".join(args[:2])})', m, calls[0])
            else:
                rep.violation('V1', f'{cq}[c]', f'contract_expr is fed ({", ".join(args[:2])}): the bra factor must be the conjugate of the ket factor '
                              f'({var}, {var}.conj())', m, calls[0])
        elif cq.endswith('GMEModel'):
            rep.ok('V1', f'{cq}[c]', 'GME model: contraction lists are computed from len(dim_list) (not literal): clause (c),(d) not decided', m, fw.node, text=f'{cq} computed lists')
        else:
            rep.undecided('V1', f'{cq}[c]', 'Stiefel call / contraction call not found in forward', m, fw.node, text=f'{cq} forward')
        # (d) literal index lists
        if sd is not None:
            for c in ast.walk(sd.node):
                if isinstance(c, ast.Call) and ast.unparse(c.func) == 'opt_einsum.contract_expression' and len(c.args) >= 9:
                    lists = [const_eval(a) for a in c.args]
                    idx = [x for x in lists if isinstance(x, list) and all(isinstance(y, int) for y in x)]
                    if len(idx) != 5 or not all(isinstance(lists[i], list) for i in (1, 3, 5, 7, 8)):
                        continue
                    i_rho, i_conj, i_x, i_xc, out = lists[1], lists[3], lists[5], lists[7], lists[8]
                    if not (len(i_rho) == 3 and len(i_conj) == 3 and len(i_x) == 2 and len(i_xc) == 2):
                        continue
                    n += 1
                    problems = []
                    if i_x[1] != i_rho[2]:
                        problems.append(f'the factor with indices {i_x} is not contracted with the rank leg {i_rho[2]} of sqrt(rho) {i_rho}')
                    if i_xc[1] != i_conj[2]:
                        problems.append(f'the factor with indices {i_xc} is not contracted with the rank leg {i_conj[2]} of conj(sqrt(rho)) {i_conj}')
                    if i_x[0] != i_xc[0] or i_x[0] not in out:
                        problems.append(f'the two factors do not share a kept ensemble index ({i_x[0]} / {i_xc[0]}, output {out})')
                    shared = [p for p in range(2) if i_rho[p] == i_conj[p]]
                    if len(shared) != 1:
                        problems.append(f'sqrt(rho) {i_rho} and its conjugate {i_conj} trace {len(shared)} subsystem legs (exactly one expected)')
                    else:
                        keep = 1 - shared[0]
                        if i_rho[keep] not in out or i_conj[keep] not in out:
                            problems.append('the untraced subsystem legs are not in the output')
                    if i_rho[2] == i_conj[2]:
                        problems.append('ket and bra rank legs are the same index (the ensemble is summed before multiplying by X)')
                    if problems:
                        rep.violation('V1', f'{cq}[d]', '; '.join(problems), m, c)
                    else:
                        rep.ok('V1', f'{cq}[d]', f'sqrt(rho){i_rho} conj{i_conj} X{i_x} X*{i_xc} -> {out}', m, c)
    rep.count('V1.obligations', n)
    return n


# ------------------------------------------------------------------------------------------------ V2
RULE_V2 = ('V2: set_density_matrix of a convex-roof model re-computes EVERY attribute that is derived from the new state on EVERY call: no `return` '
           'precedes such an assignment, and an assignment under `if` has a sibling assignment to the same attribute in the other arm. Otherwise a '
           're-used model evaluates a decomposition of the previous state (contraction expressions have sqrt(rho) baked in as constants) and its loss '
           'can fall below the closed-form value of the current state.')


def v2(proj, rep, modules):
    rep.rule('V2', RULE_V2)
    n = 0
    for mq in modules:
        m = proj.mod(mq)
        rep.touch(m)
        for ci in [c for c in proj.classes.values() if c.module is m]:
            fi = ci.methods.get('set_density_matrix')
            if fi is None:
                continue
            fn = fi.node
            params = [p for p in fi.all_params if p != 'self']
            taint = set(params)
            tattr = set()
            changed = True
            while changed:
                changed = False
                for st in ast.walk(fn):
                    if isinstance(st, ast.Assign):
                        names = {x.id for x in ast.walk(st.value) if isinstance(x, ast.Name)}
                        attrs = {x.attr for x in ast.walk(st.value) if isinstance(x, ast.Attribute) and isinstance(x.value, ast.Name) and x.value.id == 'self'}
                        if names & taint or attrs & tattr:
                            for t in st.targets:
                                for e in (t.elts if isinstance(t, ast.Tuple) else [t]):
                                    if isinstance(e, ast.Name) and e.id not in taint:
                                        taint.add(e.id)
                                        changed = True
                                    if isinstance(e, ast.Attribute) and isinstance(e.value, ast.Name) and e.value.id == 'self' and e.attr not in tattr:
                                        tattr.add(e.attr)
                                        changed = True
            # statement-level walk
            stores = {}
            for st in ast.walk(fn):
                if isinstance(st, ast.Assign):
                    for t in st.targets:
                        if isinstance(t, ast.Attribute) and isinstance(t.value, ast.Name) and t.value.id == 'self' and t.attr in tattr:
                            stores.setdefault(t.attr, []).append(st)
            rets = [r for r in ast.walk(fn) if isinstance(r, ast.Return)]
            for a in sorted(tattr):
                n += 1
                construct = f'{ci.qual}.set_density_matrix[{a}]'
                sts = stores[a]
                last = max(s.lineno for s in sts)
                early = [r for r in rets if r.lineno < last]
                if early:
                    rep.violation('V2', construct, f'`return` at line {early[0].lineno} precedes the assignment of `self.{a}`, which is derived from the new state: on that '
                                  f'path a re-used model keeps `self.{a}` of the PREVIOUS density matrix', m, early[0])
                    continue
                # conditional store without sibling
                bad = None
                for s in sts:
                    par = s._parent
                    if isinstance(par, ast.If):
                        other = par.orelse if s in par.body else par.body
                        if not any(isinstance(o, ast.Assign) and any(isinstance(t, ast.Attribute) and t.attr == a for t in o.targets) for o in other):
                            # is there an unconditional store as well?
                            if not any(s2._parent is fn for s2 in sts):
                                bad = s
                if bad is not None:
                    rep.violation('V2', construct, f'`self.{a}` is only updated under `if {ast.unparse(bad._parent.test)[:50]}`: on the other path the value of the '
                                  f'previous state survives', m, bad)
                else:
                    rep.ok('V2', construct, f'`self.{a}` is re-computed on every call', m, sts[0])
    rep.count('V2.state_attributes', n)
    return n
