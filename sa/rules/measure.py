"""M1/M2 — measurement bookkeeping in numqi.sim.state.measure_quantum_vector (C11)."""
import ast
from ..dataflow import reaching_defs
from ..tables import const_eval

RULE_M1 = ('M1: the bit string returned by measure_quantum_vector is the big-endian expansion of the sampled outcome index over '
           'len(index) digits - the order in which the kept axes are flattened into `prob` (C order: first measured qubit is the most '
           'significant bit) and in which the index is un-ravelled for the projection.  Recognised big-endian idioms: '
           'bin(v)[2:].rjust(n,"0") / zfill(n), format(v, "0{n}b"), (v >> (n-1-k)) & 1, np.unravel_index(v, (2,)*n); '
           '(v >> k) & 1 for k in range(n) is little-endian.')
RULE_M2 = ('M2: an axis permutation given by a computed (non-literal) tuple p is undone with argsort(p) / the inverse permutation, '
           'never by applying .transpose(p) a second time (only involutions are self-inverse).')

FN = 'numqi.sim.state.measure_quantum_vector'


def _endianness(e, var_hint=None):
    """'big' | 'little' | None for an expression producing the list of bits."""
    t = ast.unparse(e).replace(' ', '')
    if isinstance(e, (ast.ListComp, ast.GeneratorExp)):
        g = e.generators[0]
        it = ast.unparse(g.iter).replace(' ', '')
        elt = ast.unparse(e.elt).replace(' ', '')
        if it.startswith('bin(') and ('.rjust(' in it or '.zfill(' in it):
            return 'big'
        if it.startswith('format(') or it.startswith("f'") or 'b}' in it:
            return 'big'
        if it.startswith('np.binary_repr('):
            return 'big'
        if it.startswith('range(') and isinstance(g.target, ast.Name):
            k = g.target.id
            if '>>' in elt:
                sh = None
                for n in ast.walk(e.elt):
                    if isinstance(n, ast.BinOp) and isinstance(n.op, ast.RShift):
                        sh = ast.unparse(n.right).replace(' ', '')
                if sh == k:
                    # range(n) ascending -> LSB first ; range(n-1,-1,-1) / reversed -> MSB first
                    return 'big' if (it.count(',') == 2 and it.rstrip(')').endswith('-1')) else 'little'
                if sh is not None and k in sh and '-' in sh:
                    return 'big'
        if it.startswith('reversed(range(') and '>>' in elt:
            return 'big'
    if t.startswith('list(np.unravel_index(') or t.startswith('np.unravel_index('):
        return 'big'
    return None


def m1(proj, rep):
    rep.rule('M1', RULE_M1)
    rep.rule('M2', RULE_M2)
    fi = proj.func(FN)
    m = fi.module
    rep.touch(m)
    n = 0
    # M1
    rets = [r for r in ast.walk(fi.node) if isinstance(r, ast.Return) and isinstance(r.value, ast.Tuple) and r.value.elts]
    bit_name = rets[0].value.elts[0].id if rets and isinstance(rets[0].value.elts[0], ast.Name) else None
    defs = [s for s in ast.walk(fi.node) if isinstance(s, ast.Assign) and isinstance(s.targets[0], ast.Name) and s.targets[0].id == bit_name]
    n += 1
    if len(defs) != 1:
        rep.undecided('M1', FN, 'definition of the returned bit string not found', m, fi.node, text='bitstr')
    else:
        en = _endianness(defs[0].value)
        uses_unravel = any(isinstance(c, ast.Call) and ast.unparse(c.func).endswith('unravel_index') for c in ast.walk(fi.node))
        if en == 'big':
            rep.ok('M1', FN, f'`{ast.unparse(defs[0])[:80]}` is the big-endian expansion', m, defs[0])
        elif en == 'little':
            rep.violation('M1', FN, f'`{ast.unparse(defs[0])[:90]}` lists the least significant bit first, but the outcome index enumerates the measured '
                          f'qubits in C order (first measured qubit = most significant bit{", as np.unravel_index below does" if uses_unravel else ""}): '
                          f'the reported bits are those of the wrong qubits whenever 2+ qubits are measured with different outcomes', m, defs[0])
        else:
            rep.undecided('M1', FN, f'bit-expansion idiom not recognised: `{ast.unparse(defs[0])[:80]}`', m, defs[0])
    # M2
    perms = {}
    for c in ast.walk(fi.node):
        if isinstance(c, ast.Call) and isinstance(c.func, ast.Attribute) and c.func.attr == 'transpose' and len(c.args) == 1 and isinstance(c.args[0], ast.Name):
            perms.setdefault(c.args[0].id, []).append(c)
    for name, calls in perms.items():
        if len(calls) < 2:
            continue
        n += 1
        lit = None
        rd = [v for v, st, p in reaching_defs(fi.node, name, calls[0]) if v != 'param' and p is None]
        if len(rd) == 1:
            lit = const_eval(rd[0])
        if isinstance(lit, (tuple, list)) and all(isinstance(x, int) for x in lit) and all(lit[lit[i]] == i for i in range(len(lit))):
            rep.ok('M2', FN, f'permutation `{name}` = {tuple(lit)} is an involution', m, calls[1])
        else:
            rep.violation('M2', FN, f'`.transpose({name})` is applied {len(calls)} times with the computed permutation `{name}`: the second application '
                          f'undoes the first only if `{name}` is an involution; use np.argsort({name})', m, calls[1])
    return n
