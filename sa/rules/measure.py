"""M1/M2 — measurement bookkeeping in numqi.sim.state.measure_quantum_vector (C11)."""
import ast
from ..dataflow import reaching_defs
from ..tables import const_eval

RULE_M1 = ('M1: the bit string returned by measure_quantum_vector is the big-endian expansion of the sampled outcome index over '
           'len(index) digits - the order in which the kept axes are flattened into `prob` (C order: first measured qubit is the most '
           'significant bit) and in which the index is un-ravelled for the projection.  Recognised big-endian idioms: '
           'bin(v)[2:].rjust(n,"0") / zfill(n), format(v, "0{n}b"), (v >> (n-1-k)) & 1, np.unravel_index(v, (2,)*n); '
           '(v >> k) & 1 for k in range(n) is little-endian.')
RULE_M2 = ('M2: an axis permutation given by a computed (non-literal) tuple p is undone with argsort(p) / the inverse permutation, '
           'never by applying .transpose(p) a second time (only involutions are self-inverse).')

FN = 'numqi.sim.state.measure_quantum_vector'


def _endianness(e, var_hint=None):
    """'big' | 'little' | None for an expression producing the list of bits."""
    t = ast.unparse(e).replace(' ', '')
    if isinstance(e, (ast.ListComp, ast.GeneratorExp)):
        g = e.generators[0]
        it = ast.unparse(g.iter).replace(' ', '')
        elt = ast.unparse(e.elt).replace(' ', '')
        if it.startswith('bin(') and ('.rjust(' in it or '.zfill(' in it):
            return 'big'
        if it.startswith('format(') or it.startswith("f'") or 'b}' in it:
            return 'big'
        if it.startswith('np.binary_repr('):
            return 'big'
        if it.startswith('range(') and isinstance(g.target, ast.Name):
            k = g.target.id
            if '>>' in elt:
                sh = None
                for n in ast.walk(e.elt):
                    if isinstance(n, ast.BinOp) and isinstance(n.op, ast.RShift):
                        sh = ast.unparse(n.right).replace(' ', '')
                if sh == k:
                    # range(n) ascending -> LSB first ; range(n-1,-1,-1) / reversed -> MSB first
                    return 'big' if (it.count(',') == 2 and it.rstrip(')').endswith('-1')) else 'little'
                if sh is not None and k in sh and '-' in sh:
                    return 'big'
        if it.startswith('reversed(range(') and '>>' in elt:
            return 'big'
    if t.startswith('list(np.unravel_index(') or t.startswith('np.unravel_index('):
        return 'big'
    return None


def m1(proj, rep):
    rep.rule('M1', RULE_M1)
    rep.rule('M2', RULE_M2)
    fi = proj.func(FN)
    m = fi.module
    rep.touch(m)
    n = 0
    # M1
    rets = [r for r in ast.walk(fi.node) if isinstance(r, ast.Return) and isinstance(r.value, ast.Tuple) and r.value.elts]
    bit_name = rets[0].value.elts[0].id if rets and isinstance(rets[0].value.elts[0], ast.Name) else None
    defs = [s for s in ast.walk(fi.node) if isinstance(s, ast.Assign) and isinstance(s.targets[0], ast.Name) and s.targets[0].id == bit_name]
    n += 1
    if len(defs) != 1:
        rep.undecided('M1', FN, 'definition of the returned bit string not found', m, fi.node, text='bitstr')
    else:
        en = _endianness(defs[0].value)
        uses_unravel = any(isinstance(c, ast.Call) and ast.unparse(c.func).endswith('unravel_index') for c in ast.walk(fi.node))
        if en == 'big':
            rep.ok('M1', FN, f'`{ast.unparse(defs[0])[:80]}` is the big-endian expansion', m, defs[0])
        elif en == 'little':
            rep.violation('M1', FN, f'`{ast.unparse(defs[0])[:90]}` lists the least significant bit first, but the outcome index enumerates the measured '
                          f'qubits in C order (first measured qubit = most significant bit{", as np.unravel_index below does" if uses_unravel else ""}): '
                          f'the reported bits are those of the wrong qubits whenever 2+ qubits are measured with different outcomes', m, defs[0])
        else:
            rep.undecided('M1', FN, f'bit-expansion idiom not recognised: `{ast.unparse(defs[0])[:80]}`', m, defs[0])
    # M2
    perms = {}
    for c in ast.walk(fi.node):
        if isinstance(c, ast.Call) and isinstance(c.func, ast.Attribute) and c.func.attr == 'transpose' and len(c.args) == 1 and isinstance(c.args[0], ast.Name):
            perms.setdefault(c.args[0].id, []).append(c)
    for name, calls in perms.items():
        if len(calls) < 2:
            continue
        n += 1
        lit = None
        rd = [v for v, st, p in reaching_defs(fi.node, name, calls[0]) if v != 'param' and p is None]
        if len(rd) == 1:
            lit = const_eval(rd[0])
        if isinstance(lit, (tuple, list)) and all(isinstance(x, int) for x in lit) and all(lit[lit[i]] == i for i in range(len(lit))):
            rep.ok('M2', FN, f'permutation `{name}` = {tuple(lit)} is an involution', m, calls[1])
        else:
            rep.violation('M2', FN, f'`.transpose({name})` is applied {len(calls)} times with the computed permutation `{name}`: the second application '
                          f'undoes the first only if `{name}` is an involution; use np.argsort({name})', m, calls[1])
    return n


# ------------------------------------------------------------------------------------------------ M3
RULE_M3 = ('M3: Born rule and collapse structure of measure_quantum_vector: (a) the outcome probabilities are the SQUARED modulus of the grouped state '
           'summed over the unmeasured groups (`reduce_dim`), never over the kept ones; (b) the outcome is drawn with `p=prob`; (c) the helper '
           'classifies the measured qubits as the kept groups (kind 1 at `index`, keep_dim = groups of kind 1, reduce_dim = kind 0); (d) the '
           'post-measurement state copies exactly the selected slice of the input (same index object on both sides, zeros elsewhere) and divides it '
           'by sqrt(prob[outcome]) of the SAME sampled outcome; (f) every exit returns that collapsed buffer, none returns the input state.')


def m3(proj, rep):
    rep.rule('M3', RULE_M3)
    f = proj.func('numqi.sim.state.measure_quantum_vector')
    m = f.module
    rep.touch(m)
    n = 0

    def t(e):
        return ast.unparse(e).replace(' ', '')
    # unpacking names from the helper
    unp = next((s for s in f.node.body if isinstance(s, ast.Assign) and isinstance(s.targets[0], ast.Tuple) and '_measure_quantum_vector_hf0' in t(s.value)), None)
    if unp is None or len(unp.targets[0].elts) < 3:
        rep.undecided('M3', f.qual, 'helper unpacking (shape, keep_dim, reduce_dim) not found', m, f.node, text='helper')
        return 0
    shp, keep, red = [e.id for e in unp.targets[0].elts[:3]]
    # (c) helper roles
    h = proj.func('numqi.sim.state._measure_quantum_vector_hf0')
    n += 1
    hs = t(h.node)
    ret = next((r for r in ast.walk(h.node) if isinstance(r, ast.Return)), None)
    kind_ok = 'kind[list(index)]=1' in hs
    kd = next((s for s in h.node.body if isinstance(s, ast.Assign) and isinstance(s.targets[0], ast.Name) and s.targets[0].id == 'keep_dim'), None)
    rd = next((s for s in h.node.body if isinstance(s, ast.Assign) and isinstance(s.targets[0], ast.Name) and s.targets[0].id == 'reduce_dim'), None)
    if ret is None or kd is None or rd is None or not t(ret.value).startswith('(shape,keep_dim,reduce_dim'):
        rep.undecided('M3', h.qual, 'helper structure not recognised', m, h.node, text='helper roles')
        n -= 1
    elif kind_ok and 'ify[0]==1' in t(kd.value) and 'ify[0]==0' in t(rd.value) and 'enumerate(z0)' in t(kd.value) and 'enumerate(z0)' in t(rd.value):
        rep.ok('M3', h.qual, 'measured qubits have kind 1; keep_dim = kind-1 groups, reduce_dim = kind-0 groups', m, kd)
    else:
        rep.violation('M3', h.qual, f'keep_dim `{t(kd.value)[-20:]}` / reduce_dim `{t(rd.value)[-20:]}` / `kind[list(index)] = 1` do not classify the measured qubits as the '
                      f'kept groups: the marginal is taken over the wrong qubits', m, kd)
    # (a) probabilities
    probs = [s for s in ast.walk(f.node) if isinstance(s, ast.Assign) and isinstance(s.targets[0], ast.Name) and s.targets[0].id == 'prob']
    for s in probs:
        n += 1
        x = t(s.value)
        sq = '**2' in x and ('np.abs(' in x or 'abs(' in x)
        if not sq:
            rep.violation('M3', f'{f.qual}[prob]', f'`{x[:70]}` is not a squared modulus: the outcome probabilities are not Born probabilities', m, s)
        elif '.sum(' in x:
            if f'.sum(axis={red})' in x:
                rep.ok('M3', f'{f.qual}[prob]', f'|psi|^2 summed over {red}', m, s)
            elif f'.sum(axis={keep})' in x:
                rep.violation('M3', f'{f.qual}[prob]', f'`{x[:70]}` sums over the MEASURED groups `{keep}`: the marginal of the unmeasured qubits is returned', m, s)
            else:
                rep.undecided('M3', f'{f.qual}[prob]', f'`{x[:70]}`: summation axis not recognised', m, s)
                n -= 1
        else:
            rep.ok('M3', f'{f.qual}[prob]', '|psi|^2 (no unmeasured group)', m, s)
    # (b) draw
    n += 1
    draw = next((s for s in ast.walk(f.node) if isinstance(s, ast.Assign) and '.choice(' in t(s.value)), None)
    if draw is None:
        rep.undecided('M3', f'{f.qual}[draw]', 'outcome draw not found', m, f.node, text='draw')
        n -= 1
    else:
        out = draw.targets[0].id
        if 'p=prob' in t(draw.value) and 'len(prob)' in t(draw.value):
            rep.ok('M3', f'{f.qual}[draw]', 'outcome ~ choice(len(prob), p=prob)', m, draw)
        else:
            rep.violation('M3', f'{f.qual}[draw]', f'`{t(draw.value)}` does not draw the outcome from `prob`', m, draw)
        # (d) collapse
        n += 1
        def _as_div(v):
            # a / b, a * (1 / b), (1 / b) * a  ->  BinOp(a, Div, b)
            if isinstance(v, ast.BinOp) and isinstance(v.op, ast.Div):
                return v
            if isinstance(v, ast.BinOp) and isinstance(v.op, ast.Mult):
                for a, b in ((v.left, v.right), (v.right, v.left)):
                    if isinstance(b, ast.BinOp) and isinstance(b.op, ast.Div) and isinstance(b.left, ast.Constant) and b.left.value == 1:
                        return ast.BinOp(left=a, op=ast.Div(), right=b.right)
            return None
        col = next((s for s in ast.walk(f.node) if isinstance(s, ast.Assign) and isinstance(s.targets[0], ast.Subscript) and _as_div(s.value) is not None), None)
        if col is None:
            rep.undecided('M3', f'{f.qual}[collapse]', 'collapse assignment not found', m, f.node, text='collapse')
            n -= 1
        else:
            lhs_idx, rhs = t(col.targets[0].slice), _as_div(col.value)
            rhs_l, rhs_r = t(rhs.left), t(rhs.right)
            buf = col.targets[0].value.id if isinstance(col.targets[0].value, ast.Name) else None
            bdef = next((s for s in f.node.body if isinstance(s, ast.Assign) and isinstance(s.targets[0], ast.Name) and s.targets[0].id == buf), None)
            same_idx = isinstance(rhs.left, ast.Subscript) and t(rhs.left.slice) == lhs_idx
            norm_ok = rhs_r in (f'np.sqrt(prob[{out}])', f'prob[{out}]**0.5', f'np.sqrt(prob[{out}].item())')
            zeros_ok = bdef is not None and t(bdef.value).startswith(('np.zeros_like(', 'np.zeros('))
            if same_idx and norm_ok and zeros_ok:
                rep.ok('M3', f'{f.qual}[collapse]', f'{buf}[sel] = q1[sel] / sqrt(prob[{out}]) on a zero buffer', m, col)
            elif not norm_ok:
                rep.violation('M3', f'{f.qual}[collapse]', f'the selected slice is divided by `{rhs_r}`, not by sqrt(prob[{out}]) of the sampled outcome: the '
                              f'post-measurement state is not normalised', m, col)
            elif not same_idx:
                rep.violation('M3', f'{f.qual}[collapse]', f'`{t(col)[:80]}` reads a different slice than it writes', m, col)
            else:
                rep.violation('M3', f'{f.qual}[collapse]', f'the buffer `{buf}` is not zero-initialised: amplitudes of the other outcomes survive', m, col)
    # (e) the sampled outcome index is decoded over the sizes of the KEPT groups, taken at their positions
    n += 1
    ur = next((c for c in ast.walk(f.node) if isinstance(c, ast.Call) and t(c.func).endswith('unravel_index') and len(c.args) == 2), None)
    if ur is None:
        rep.undecided('M3', f'{f.qual}[decode]', 'np.unravel_index(outcome, kept sizes) not found', m, f.node, text='decode')
        n -= 1
    else:
        a1 = ur.args[1]
        if isinstance(a1, ast.Name):
            d = [s.value for s in ast.walk(f.node) if isinstance(s, ast.Assign) and isinstance(s.targets[0], ast.Name) and s.targets[0].id == a1.id]
            a1 = d[-1] if d else a1
        ta = t(a1)
        if ta in (f'tuple({shp}[x]forxin{keep})', f'tuple(({shp}[x]forxin{keep}))', f'[{shp}[x]forxin{keep}]'):
            rep.ok('M3', f'{f.qual}[decode]', f'outcome index unravelled over ({shp}[x] for x in {keep})', m, ur)
        elif isinstance(ur.args[1], ast.Name) and ur.args[1].id not in (shp,) and not isinstance(a1, (ast.Call, ast.ListComp, ast.GeneratorExp, ast.Tuple)):
            rep.violation('M3', f'{f.qual}[decode]', f'`{t(ur)}`: the sizes used to decode the outcome (`{ur.args[1].id}`) are not the sizes of the kept groups at their positions '
                          f'`tuple({shp}[x] for x in {keep})`: when measured and unmeasured blocks have different widths the wrong slice is selected (or an index error is raised)', m, ur)
        elif ta.startswith(f'{shp}['):
            rep.violation('M3', f'{f.qual}[decode]', f'`{t(ur)}`: a slice of the grouped shape is not the sizes of the kept groups at their positions', m, ur)
        else:
            rep.undecided('M3', f'{f.qual}[decode]', f'decode sizes `{ta[:50]}` not recognised', m, ur)
            n -= 1
    # (f) every exit hands out the collapsed buffer, never the input itself
    col = next((s for s in ast.walk(f.node) if isinstance(s, ast.Assign) and isinstance(s.targets[0], ast.Subscript) and isinstance(s.value, ast.BinOp)
                and (isinstance(s.value.op, ast.Div) or (isinstance(s.value.op, ast.Mult) and any(
                    isinstance(b, ast.BinOp) and isinstance(b.op, ast.Div) and isinstance(b.left, ast.Constant) and b.left.value == 1 for b in (s.value.left, s.value.right))))), None)
    buf = col.targets[0].value.id if col is not None and isinstance(col.targets[0].value, ast.Name) else None
    first_param = f.all_params[0]
    for r in [x for x in ast.walk(f.node) if isinstance(x, ast.Return) and isinstance(x.value, ast.Tuple) and len(x.value.elts) >= 3]:
        n += 1
        st = x = r.value.elts[2]
        names = {y.id for y in ast.walk(st) if isinstance(y, ast.Name)}
        if buf is not None and buf in names:
            rep.ok('M3', f'{f.qual}[exit]', f'`{t(r)[:50]}` returns the collapsed buffer `{buf}`', m, r)
        elif first_param in names or 'q1' in names:
            rep.violation('M3', f'{f.qual}[exit]', f'`{t(r)[:60]}` returns the input state itself instead of its projection: amplitudes of the other outcomes (up to the tolerance of '
                          f'whatever test selected this exit) survive, so the state is neither projected nor normalised', m, r)
        else:
            rep.undecided('M3', f'{f.qual}[exit]', f'`{t(r)[:60]}`: returned state not recognised', m, r)
            n -= 1
    rep.count('M3.obligations', n)
    return n
