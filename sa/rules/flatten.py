"""FL1 - symbolic axis-order typing of reshape / broadcast / matmul chains.

A shape is (open, dims): `open` means an unknown number of leading axes; every dim is a tuple of atoms (the ordered factors of a merged axis, row-major); an
atom is the normalised text of a size expression (`self.dimA`, `N0`, `x.shape[0]`) or an opaque marker `?k`.  The walk is syntax-directed over one function:
shapes are DECLARED by reshape / view / allocation calls and propagated through the plumbing the repository uses (conj, transpose, unsqueeze, None-indexing,
elementwise broadcasting, matmul).  A verdict is given only where both sides are typed; everything else is silently untyped.
"""
import ast
import itertools

RULE_FL1 = ('FL1: axis-order typing. Sizes are symbols; a merged axis remembers the order of its factors (row-major). (i) a reshape that splits or regroups axes keeps '
            'the order of the factors it regroups: the trailing block of old factors and the trailing block of new factors that are the same multiset are the same '
            'sequence; (ii) the contracted axes of a matrix product and the aligned axes of an elementwise product carry their factors in the same order. A product '
            'vector built B-major and read as (A, B) is a different operator whenever dimA != dimB.')

_SAME = {'conj', 'conjugate', 'clone', 'copy', 'contiguous', 'detach', 'astype', 'to', 'cpu', 'numpy', 'double', 'float', 'resolve_conj', 'type'}
_SAME_ATTR = {'real', 'imag'}
_SAME_FUNC = {'conj', 'conjugate', 'ascontiguousarray', 'asarray', 'real', 'imag', 'abs', 'exp', 'sqrt', 'cos', 'sin', 'log', 'square', 'from_numpy', 'as_tensor', 'tanh',
              'sigmoid', 'negative'}
_counter = itertools.count()


def _opaque():
    return f'?{next(_counter)}'


def _txt(e):
    return ast.unparse(e).replace(' ', '')


def _atoms_of(e, consts):
    """size expression -> tuple of atoms (ordered factors); int 1 -> ()."""
    if isinstance(e, ast.Constant) and isinstance(e.value, int):
        if e.value == 1:
            return ()
        if e.value == -1:
            return None
        return (str(e.value),)
    if isinstance(e, ast.UnaryOp) and isinstance(e.op, ast.USub) and isinstance(e.operand, ast.Constant) and e.operand.value == 1:
        return None
    if isinstance(e, ast.BinOp) and isinstance(e.op, ast.Mult):
        a, b = _atoms_of(e.left, consts), _atoms_of(e.right, consts)
        if a is None or b is None:
            return (_opaque(),)
        return a + b
    if isinstance(e, ast.BinOp) and isinstance(e.op, ast.Pow) and isinstance(e.right, ast.Constant) and isinstance(e.right.value, int) and 1 <= e.right.value <= 4:
        a = _atoms_of(e.left, consts)
        if a is None:
            return (_opaque(),)
        return a * e.right.value
    if isinstance(e, ast.Name) and e.id in consts:
        return consts[e.id]
    if isinstance(e, (ast.Name, ast.Attribute, ast.Subscript)):
        if any(isinstance(x, ast.Name) and x.id in _UNSTABLE for x in ast.walk(e)) or any(isinstance(x, ast.Attribute) and _txt(x) in _UNSTABLE for x in ast.walk(e)):
            return (_opaque(),)
        return (_txt(e),)
    return (_opaque(),)


def _shape_args(args, consts):
    """reshape / allocation arguments -> (open, dims, has_minus_one) or None."""
    if len(args) == 1 and isinstance(args[0], (ast.Tuple, ast.List)):
        args = args[0].elts
    elif len(args) == 1 and isinstance(args[0], ast.BinOp) and isinstance(args[0].op, ast.Add) and isinstance(args[0].right, (ast.Tuple, ast.List)):
        args = [ast.Starred(value=args[0].left)] + list(args[0].right.elts)
    elif len(args) == 1 and isinstance(args[0], ast.BinOp) and isinstance(args[0].op, ast.Add) and isinstance(args[0].left, (ast.Tuple, ast.List)):
        return None
    elif len(args) == 1 and isinstance(args[0], (ast.Name, ast.Attribute, ast.Subscript, ast.Call)) and not (isinstance(args[0], ast.Name) and args[0].id in consts):
        # reshape(shape) with a shape-valued name, or reshape(n) -- cannot tell: rank unknown
        if isinstance(args[0], ast.Name) or isinstance(args[0], ast.Attribute):
            return None
        return None
    open_, dims, minus = False, [], False
    for k, a in enumerate(args):
        if isinstance(a, ast.Starred):
            if k != 0:
                return None
            open_ = True
            continue
        at = _atoms_of(a, consts)
        if at is None:
            if minus:
                return None
            minus = True
            dims.append(None)
        else:
            dims.append(at)
    return open_, dims, minus


def _flat(dims):
    out = []
    for d in dims:
        out.extend(d)
    return out


def _flat_u(dims):
    """flatten; an unordered (declared) merged axis is one composite atom."""
    out = []
    for d in dims:
        if d and d[0] == '~':
            out.append('U{' + '*'.join(d[1:]) + '}')
        else:
            out.extend(d)
    return out


def _known_suffix(atoms):
    out = []
    for a in reversed(atoms):
        if a.startswith('?'):
            break
        out.append(a)
    return out[::-1]


def _order_conflict(old_atoms, new_atoms):
    """largest trailing block that is the same multiset on both sides but not the same sequence -> (old block, new block)."""
    o, n = _known_suffix(old_atoms), _known_suffix(new_atoms)
    for j in range(min(len(o), len(n)), 1, -1):
        a, b = o[-j:], n[-j:]
        if sorted(a) == sorted(b):
            if a != b:
                return a, b
            return None
    return None


_UNSTABLE = set()


class _Typer:
    def __init__(self, fi, rep, m):
        self.fi, self.rep, self.m = fi, rep, m
        self.decided = 0
        self.consts = {}
        stores = {}
        for x in ast.walk(fi.node):
            if isinstance(x, ast.Name) and isinstance(x.ctx, ast.Store):
                stores[x.id] = stores.get(x.id, 0) + 1
        params = set(getattr(fi, 'all_params', ()) or ())
        loopv = {x.id for lp in ast.walk(fi.node) if isinstance(lp, (ast.For, ast.comprehension)) for x in ast.walk(lp.target) if isinstance(x, ast.Name)}
        # a size name bound more than once may name two different sizes: never an atom
        self.unstable = {k for k, v in stores.items() if v >= 2 or k in params} | loopv
        # attributes assigned inside the function are not stable size names either
        self.unstable |= {x.value.id for x in ast.walk(fi.node) if isinstance(x, ast.Attribute) and isinstance(x.ctx, ast.Store) and isinstance(x.value, ast.Name)
                          and any(isinstance(y, ast.Attribute) and isinstance(y.ctx, ast.Load) and _txt(y) == _txt(x) for y in ast.walk(fi.node))} - {'self'}
        self.attr_unstable = {_txt(x) for x in ast.walk(fi.node) if isinstance(x, ast.Attribute) and isinstance(x.ctx, ast.Store)}
        self.locals = set(stores) | params

    # ------------------------------------------------------------------ expressions
    def shape(self, e, env):
        if isinstance(e, ast.Name):
            return env.get(e.id)
        if isinstance(e, ast.Attribute):
            if e.attr in _SAME_ATTR:
                return self.shape(e.value, env)
            if e.attr in ('T', 'mT', 'mH', 'H'):
                s = self.shape(e.value, env)
                if s is None or len(s[1]) < 2:
                    return None
                if e.attr == 'T' and (s[0] or len(s[1]) != 2):
                    return None
                return s[0], s[1][:-2] + [s[1][-1], s[1][-2]]
            return env.get(_txt(e))
        if isinstance(e, ast.UnaryOp):
            return self.shape(e.operand, env)
        if isinstance(e, ast.BinOp):
            if isinstance(e.op, ast.MatMult):
                return self.matmul(e, env)
            if isinstance(e.op, (ast.Mult, ast.Add, ast.Sub, ast.Div)):
                return self.broadcast(e, env)
            return None
        if isinstance(e, ast.Subscript):
            return self.index(e, env)
        if isinstance(e, ast.Call):
            return self.call(e, env)
        return None

    def call(self, c, env):
        f = c.func
        if isinstance(f, ast.Attribute):
            name = f.attr
            if name in ('reshape', 'view') and any(k.arg == 'order' and not (isinstance(k.value, ast.Constant) and k.value.value == 'C') for k in c.keywords):
                return None         # column-major regrouping: not typed
            if name in ('reshape', 'view') and isinstance(f.value, ast.Name) and f.value.id not in self.locals:
                if f.value.id in ('np', 'torch', 'numpy') and name == 'reshape' and len(c.args) >= 2:
                    return self.reshape(c, c.args[0], c.args[1:], env)
                return None         # a module-level function of another library (cvxpy.reshape, ...)
            if name in ('reshape', 'view') and c.args:
                return self.reshape(c, f.value, c.args, env)
            if name == 'reshape' and isinstance(f.value, ast.Name) and f.value.id in ('np', 'torch', 'numpy') and len(c.args) >= 2:
                return self.reshape(c, c.args[0], c.args[1:], env)
            if isinstance(f.value, ast.Name) and f.value.id in ('np', 'torch', 'numpy'):
                if name in ('zeros', 'empty', 'ones', 'rand', 'randn') and c.args:
                    sa = _shape_args(c.args if name in ('rand', 'randn') else c.args[:1], self.consts)
                    if sa is None or sa[2]:
                        return None
                    return sa[0], sa[1]
                if name in _SAME_FUNC and c.args:
                    return self.shape(c.args[0], env)
                if name in ('expand_dims', 'unsqueeze') and len(c.args) == 2:
                    return self.unsqueeze(self.shape(c.args[0], env), c.args[1])
                if name in ('swapaxes', 'transpose') and len(c.args) == 3:
                    return self.swap(self.shape(c.args[0], env), c.args[1], c.args[2])
                if name == 'einsum' and c.args:
                    return self.einsum(c, env)
                if name == 'matmul' and len(c.args) == 2:
                    return self.matmul(ast.BinOp(left=c.args[0], op=ast.MatMult(), right=c.args[1]), env, node=c)
                return None
            s = self.shape(f.value, env)
            if name in _SAME:
                return s
            if name == 'unsqueeze' and len(c.args) == 1:
                return self.unsqueeze(s, c.args[0])
            if name in ('transpose', 'swapaxes') and len(c.args) == 2:
                return self.swap(s, c.args[0], c.args[1])
            if name in ('transpose', 'permute') and s is not None and not s[0]:
                perm = c.args[0].elts if len(c.args) == 1 and isinstance(c.args[0], (ast.Tuple, ast.List)) else c.args
                idx = [p.value if isinstance(p, ast.Constant) and isinstance(p.value, int) else None for p in perm]
                if None in idx or sorted(i % len(s[1]) for i in idx) != list(range(len(s[1]))) or len(idx) != len(s[1]):
                    return None
                return False, [s[1][i] for i in idx]
            return None
        return None

    def einsum(self, c, env):
        args = list(c.args)
        ops, out = [], None
        if isinstance(args[0], ast.Constant) and isinstance(args[0].value, str):
            spec = args[0].value.replace(' ', '')
            if '->' not in spec or '.' in spec:
                return None
            lhs, rhs = spec.split('->')
            labs = lhs.split(',')
            if len(labs) != len(args) - 1:
                return None
            ops = list(zip(args[1:], [list(x) for x in labs]))
            out = list(rhs)
        else:
            if len(args) % 2 == 0:
                return None
            def lab(e):
                if isinstance(e, (ast.List, ast.Tuple)) and all(isinstance(x, ast.Constant) and isinstance(x.value, int) for x in e.elts):
                    return [x.value for x in e.elts]
                return None
            for k in range(0, len(args) - 1, 2):
                l = lab(args[k + 1])
                if l is None:
                    return None
                ops.append((args[k], l))
            out = lab(args[-1])
            if out is None:
                return None
        dim_of = {}
        for e, labels in ops:
            s = self.shape(e, env)
            if s is None or s[0] or len(s[1]) != len(labels):
                continue
            for l, d in zip(labels, s[1]):
                if d == () or any(t.startswith('?') for t in d):
                    continue
                if l in dim_of and dim_of[l] != d and len(d) > 1 and d[0] != '~' and dim_of[l][0] != '~' and sorted(d) == sorted(dim_of[l]):
                    self.decided += 1
                    self.rep.touch(self.m)
                    self.rep.violation('FL1', self.fi.qual, f'`{ast.unparse(c)[:70]}` pairs (label {l}) an axis merged as ({", ".join(dim_of[l])}) with one merged as ({", ".join(d)})',
                                       self.m, c)
                    return None
                dim_of.setdefault(l, d)
        if not dim_of:
            return None
        return False, [dim_of.get(l, (_opaque(),)) for l in out]

    def unsqueeze(self, s, k):
        if s is None or not (isinstance(k, ast.Constant) and isinstance(k.value, int)) and not (
                isinstance(k, ast.UnaryOp) and isinstance(k.op, ast.USub) and isinstance(k.operand, ast.Constant)):
            return None
        kv = k.value if isinstance(k, ast.Constant) else -k.operand.value
        open_, dims = s
        n = len(dims)
        if kv < 0:
            pos = n + 1 + kv
            if pos < 0 or (open_ and pos == 0 and False):
                return None
        else:
            if open_:
                return None
            pos = kv
        if pos > n or pos < 0:
            return None
        return open_, dims[:pos] + [()] + dims[pos:]

    def swap(self, s, i, j):
        if s is None:
            return None
        def val(x):
            if isinstance(x, ast.Constant) and isinstance(x.value, int):
                return x.value
            if isinstance(x, ast.UnaryOp) and isinstance(x.op, ast.USub) and isinstance(x.operand, ast.Constant):
                return -x.operand.value
            return None
        a, b = val(i), val(j)
        if a is None or b is None:
            return None
        open_, dims = s
        n = len(dims)
        if open_ and (a >= 0 or b >= 0):
            return None
        a, b = a % n if a >= 0 else n + a, b % n if b >= 0 else n + b
        if not (0 <= a < n and 0 <= b < n):
            return None
        d = list(dims)
        d[a], d[b] = d[b], d[a]
        return open_, d

    def index(self, e, env):
        s = self.shape(e.value, env)
        if s is None:
            return None
        idx = e.slice.elts if isinstance(e.slice, ast.Tuple) else [e.slice]
        open_, dims = s
        if any(isinstance(i, ast.Constant) and i.value is Ellipsis for i in idx):
            k = next(k for k, i in enumerate(idx) if isinstance(i, ast.Constant) and i.value is Ellipsis)
            head, tail = idx[:k], idx[k + 1:]
            if head:
                return None
            # trailing part addressed from the right
            ntail = sum(1 for i in tail if not (isinstance(i, ast.Constant) and i.value is None))
            if ntail > len(dims):
                return None
            keep = dims[:len(dims) - ntail]
            rest = dims[len(dims) - ntail:]
            out = self._apply_index(tail, rest)
            return None if out is None else (open_, keep + out)
        if open_:
            return None
        nreal = sum(1 for i in idx if not (isinstance(i, ast.Constant) and i.value is None))
        if nreal > len(dims):
            return None
        out = self._apply_index(idx, dims[:nreal])
        return None if out is None else (False, out + dims[nreal:])

    @staticmethod
    def _apply_index(idx, dims):
        out, k = [], 0
        for i in idx:
            if isinstance(i, ast.Constant) and i.value is None:
                out.append(())
            elif isinstance(i, ast.Slice) and i.lower is None and i.upper is None and i.step is None:
                out.append(dims[k]); k += 1
            elif isinstance(i, ast.Slice):
                out.append((_opaque(),)); k += 1
            elif isinstance(i, ast.Constant) and isinstance(i.value, int):
                k += 1
            elif isinstance(i, ast.Name):
                return None     # integer or array index: cannot tell
            else:
                return None
        return out

    def broadcast(self, e, env):
        a, b = self.shape(e.left, env), self.shape(e.right, env)
        scal = lambda x: isinstance(x, ast.Constant) or (isinstance(x, ast.UnaryOp) and isinstance(x.operand, ast.Constant))
        if a is None and b is None:
            return None
        if a is None or b is None:
            k, other = (b, e.left) if a is None else (a, e.right)
            if scal(other):
                return k
            return True, [d if d != () else (_opaque(),) for d in k[1]]
        (oa, da), (ob, db) = a, b
        n = max(len(da), len(db))
        if (oa and len(da) < n) or (ob and len(db) < n):
            n = min(len(da), len(db)) if (oa and ob) else (len(da) if oa else len(db))
            if (oa and len(da) < len(db)) or (ob and len(db) < len(da)):
                # the open side is the shorter one: leading part unknown
                m_ = min(len(da), len(db))
                da2, db2 = da[len(da) - m_:], db[len(db) - m_:]
                out = self._zip(da2, db2, e)
                return None if out is None else (True, out)
        pa = [()] * (n - len(da)) + list(da) if len(da) <= n else list(da[len(da) - n:])
        pb = [()] * (n - len(db)) + list(db) if len(db) <= n else list(db[len(db) - n:])
        out = self._zip(pa, pb, e)
        return None if out is None else (oa or ob, out)

    def _zip(self, pa, pb, node):
        out = []
        for x, y in zip(pa, pb):
            if x == ():
                out.append(y)
            elif y == () or x == y:
                out.append(x)
            else:
                kx, ky = [t for t in x if not t.startswith('?')], [t for t in y if not t.startswith('?')]
                if len(kx) == len(x) and len(ky) == len(y) and sorted(x) == sorted(y) and len(x) > 1 and x[0] != '~':
                    self.decided += 1
                    self.rep.touch(self.m)
                    self.rep.violation('FL1', self.fi.qual, f'`{ast.unparse(node)[:70]}` aligns an axis merged as ({", ".join(x)}) with one merged as ({", ".join(y)}): the factors are '
                                       f'in a different order, so the elementwise pairing is wrong whenever the sizes differ', self.m, node)
                    return None
                out.append((_opaque(),))
        return out

    def matmul(self, e, env, node=None):
        a, b = self.shape(e.left, env), self.shape(e.right, env)
        node = node or e
        if a is None and b is None:
            return None
        if a is None:
            if len(b[1]) < 2:
                return None
            return True, [(_opaque(),), b[1][-1]]
        if b is None:
            if len(a[1]) < 2:
                return None
            return True, [a[1][-2], (_opaque(),)]
        (oa, da), (ob, db) = a, b
        if len(da) < 2 or len(db) < 2:
            return None
        x, y = da[-1], db[-2]
        if x != y and all(not t.startswith('?') for t in x + y) and sorted(x) == sorted(y) and len(x) > 1 and x[0] != '~':
            self.decided += 1
            self.rep.touch(self.m)
            self.rep.violation('FL1', self.fi.qual, f'`{ast.unparse(node)[:70]}` contracts an axis merged as ({", ".join(x)}) with one merged as ({", ".join(y)})', self.m, node)
            return None
        if x == y and len(x) > 1 and x[0] != '~':
            self.decided += 1
            self.rep.ok('FL1', self.fi.qual, f'`{ast.unparse(node)[:50]}` contracts ({", ".join(x)}) with ({", ".join(y)})', self.m, node, text=f'contract {ast.unparse(node)[:40]}')
        ba, bb = da[:-2], db[:-2]
        n = min(len(ba), len(bb))
        if len(ba) != len(bb) and ((oa and len(ba) < len(bb)) or (ob and len(bb) < len(ba))):
            bat = self._zip(ba[len(ba) - n:], bb[len(bb) - n:], node)
            open_ = True
        else:
            m_ = max(len(ba), len(bb))
            pa = [()] * (m_ - len(ba)) + list(ba)
            pb = [()] * (m_ - len(bb)) + list(bb)
            bat = self._zip(pa, pb, node)
            open_ = oa or ob
        if bat is None:
            return None
        return open_, bat + [da[-2], db[-1]]

    def reshape(self, call, base, args, env):
        sa = _shape_args(args, self.consts)
        old = self.shape(base, env)
        if sa is None:
            return None
        nopen, ndims, minus = sa
        # a product written in the argument list is a size, not a statement about order: declared merged axes are unordered
        decl = [None if d is None else (d if len(d) <= 1 else ('~',) + tuple(sorted(d))) for d in ndims]
        if old is None:
            return nopen, [d if d is not None else (_opaque(),) for d in decl]
        oopen, odims = old
        O = (['?front'] if oopen else []) + _flat_u(odims)
        out = [None] * len(ndims)
        ptr = len(O)
        failed = False          # a new axis did not match the factors found at its place
        conflict = None
        exact = True
        acc_new = []
        k = len(ndims) - 1
        while k >= 0:
            d = ndims[k]
            if d is None or any(a.startswith('?') for a in d):
                break
            if len(d) == 0:
                out[k] = ()
                k -= 1
                continue
            comp = 'U{' + '*'.join(sorted(d)) + '}'
            if not failed and ptr >= 1 and len(d) > 1 and O[ptr - 1] == comp:
                out[k] = ('~',) + tuple(sorted(d))
                ptr -= 1
                acc_new = [comp] + acc_new
                k -= 1
                continue
            acc_new = list(d) + acc_new
            c = len(acc_new)
            if c > len(O) or any(a.startswith('?') for a in O[len(O) - c:]):
                exact = False
                break
            blk = O[len(O) - c:]
            if not failed and sorted(O[ptr - len(d):ptr]) == sorted(d) and ptr - len(d) >= 0:
                out[k] = tuple(O[ptr - len(d):ptr])
                ptr -= len(d)
            else:
                failed = True
                if sorted(blk) == sorted(acc_new):
                    conflict = (blk, [ndims[t] for t in range(k, len(ndims))])
                    break
            k -= 1
        if conflict is not None:
            self.decided += 1
            self.rep.touch(self.m)
            self.rep.violation('FL1', self.fi.qual, f'`{ast.unparse(call)[:80]}`: the array carries the factors ({", ".join(conflict[0])}) in that order (row-major) and is read '
                               f'back with the axes ({", ".join("*".join(x) for x in conflict[1] if x)}): the two orders label different elements whenever the sizes differ',
                               self.m, call)
            return None
        if failed:
            return nopen, [d if d is not None else (_opaque(),) for d in decl]
        matched = [x for x in out if x]
        if len(matched) >= 2 or any(len(x) > 1 and x[0] != '~' for x in matched):
            self.decided += 1
            self.rep.ok('FL1', self.fi.qual, f'`{ast.unparse(call)[:50]}` regroups ({", ".join(O[ptr:])}) in order', self.m, call, text=f'regroup {ast.unparse(call)[:50]}')
        # left pass (up to the -1), only when the front of the old array is known
        lptr = 0
        if minus and not nopen and not oopen:
            for t in range(len(ndims)):
                d = ndims[t]
                if d is None or out[t] is not None:
                    break
                if len(d) == 0:
                    out[t] = ()
                    continue
                if lptr + len(d) <= ptr and not any(a.startswith('?') or a.startswith('U{') for a in O[lptr:lptr + len(d)]) and sorted(O[lptr:lptr + len(d)]) == sorted(d):
                    out[t] = tuple(O[lptr:lptr + len(d)])
                    lptr += len(d)
                else:
                    break
        # whatever is left between goes to the -1 (when it is the only unmatched axis)
        rest = [t for t in range(len(ndims)) if out[t] is None]
        if minus and len(rest) == 1 and ndims[rest[0]] is None and not nopen and not (oopen and lptr == 0 and False):
            mid = [a for a in O[lptr:ptr]]
            if mid and not any(a.startswith('?') or a.startswith('U{') for a in mid):
                out[rest[0]] = tuple(mid)
        return nopen, [out[t] if out[t] is not None else (decl[t] if decl[t] is not None else (_opaque(),)) for t in range(len(ndims))]

    # ------------------------------------------------------------------ statements
    def block(self, stmts, env):
        for st in stmts:
            self.stmt(st, env)

    def stmt(self, st, env):
        if isinstance(st, ast.Assign):
            s = self.shape(st.value, env)
            for t in st.targets:
                if isinstance(t, ast.Name):
                    # integer-valued size constants: N0 = dimA*dimB
                    if isinstance(st.value, ast.BinOp) and isinstance(st.value.op, ast.Mult) and s is None and all(
                            isinstance(x, (ast.Name, ast.Attribute)) or (isinstance(x, ast.Constant) and isinstance(x.value, int)) for x in (st.value.left, st.value.right)) \
                            and not any(isinstance(x, ast.Name) and x.id in env for x in (st.value.left, st.value.right)):
                        at = _atoms_of(st.value, self.consts)
                        if at and not any(a.startswith('?') for a in at):
                            self.consts[t.id] = at
                    else:
                        self.consts.pop(t.id, None)
                    if s is None:
                        env.pop(t.id, None)
                    else:
                        env[t.id] = s
                elif isinstance(t, (ast.Tuple, ast.List)):
                    for x in ast.walk(t):
                        if isinstance(x, ast.Name):
                            env.pop(x.id, None)
                            self.consts.pop(x.id, None)
                elif isinstance(t, ast.Attribute):
                    k = _txt(t)
                    if s is None:
                        env.pop(k, None)
                    else:
                        env[k] = s
        elif isinstance(st, ast.AugAssign):
            self.shape(st.value, env)
            if isinstance(st.target, ast.Name):
                self.consts.pop(st.target.id, None)
        elif isinstance(st, (ast.Return, ast.Expr)) and st.value is not None:
            self.shape(st.value, env)
        elif isinstance(st, ast.If):
            e1, e2 = dict(env), dict(env)
            self.block(st.body, e1)
            self.block(st.orelse, e2)
            env.clear()
            env.update({k: v for k, v in e1.items() if e2.get(k) == v})
        elif isinstance(st, (ast.For, ast.While)):
            assigned = {x.id for s2 in st.body for x in ast.walk(s2) if isinstance(x, ast.Name) and isinstance(x.ctx, ast.Store)}
            if isinstance(st, ast.For):
                assigned |= {x.id for x in ast.walk(st.target) if isinstance(x, ast.Name)}
            for k in assigned:
                env.pop(k, None)
                self.consts.pop(k, None)
            e1 = dict(env)
            self.block(st.body, e1)
            for k in assigned:
                env.pop(k, None)
        elif isinstance(st, ast.With):
            self.block(st.body, env)
        elif isinstance(st, ast.Try):
            self.block(st.body, env)
            for h in st.handlers:
                self.block(h.body, dict(env))
            self.block(st.finalbody, env)


def fl1(proj, rep, modules=None):
    rep.rule('FL1', RULE_FL1)
    nfun = ndec = 0
    for fi in proj.iter_functions():
        m = fi.module
        if modules is not None and not any(m.name == x or m.name.startswith(x + '.') for x in modules):
            continue
        if not any(isinstance(c, ast.Call) and isinstance(c.func, ast.Attribute) and c.func.attr in ('reshape', 'view') for c in ast.walk(fi.node)):
            continue
        nfun += 1
        t = _Typer(fi, rep, m)
        _UNSTABLE.clear()
        _UNSTABLE.update(t.unstable)
        _UNSTABLE.update(t.attr_unstable)
        try:
            t.block(fi.node.body, {})
        except RecursionError:
            continue
        ndec += t.decided
    rep.count('FL1.functions_typed', nfun)
    rep.count('FL1.decided_sites', ndec)
    return nfun, ndec
