"""O1 — ownership of cached values: nothing in the package mutates a value handed out by a cache."""
import ast
from ..callgraph import resolve_callee, calls_in
from ..dataflow import own_nodes, assignments, return_exprs

RULE_O1 = ('O1: a value returned by an lru_cache/cache-decorated function or stored in a module-level memo dict, or by a '
           'wrapper that returns such a value unchanged, is never mutated through any alias in the package: no subscript '
           'store, augmented assignment, in-place method (.sort/.fill/.resize/.put/.itemset/.append/...), or out= '
           'argument.  (.copy()/np.array()/arithmetic produce fresh values and end the tracking.)')

INPLACE_METHODS = {'sort', 'fill', 'resize', 'put', 'itemset', 'setfield', 'partition', 'byteswap_inplace', 'append',
                   'extend', 'insert', 'pop', 'remove', 'clear', 'reverse', 'update', 'add', 'discard', 'setflags',
                   'add_', 'mul_', 'sub_', 'div_', 'zero_', 'fill_', 'copy_', 'clamp_', 'sort_'}


def cached_functions(proj):
    """qual -> reason, for lru_cache/cache decorated functions and module-level memo-dict getters."""
    out = {}
    for q, fi in proj.funcs.items():
        for d in fi.decorators:
            if 'lru_cache' in d or d.endswith('.cache') or d == 'cache':
                out[q] = f'@{d}'
    # memo dict getter:  if key in D: ret = D[key] ... D[key] = ret ... return ret
    for mname, m in proj.modules.items():
        dicts = set()
        for s in m.tree.body:
            if isinstance(s, ast.Assign) and len(s.targets) == 1 and isinstance(s.targets[0], ast.Name):
                v = s.value
                if (isinstance(v, ast.Call) and isinstance(v.func, ast.Name) and v.func.id == 'dict' and not v.args and not v.keywords) \
                        or (isinstance(v, ast.Dict) and not v.keys):
                    dicts.add(s.targets[0].id)
        if not dicts:
            continue
        for q, fi in proj.funcs.items():
            if fi.module is not m or fi.cls is not None:
                continue
            stores = reads = None
            for n in ast.walk(fi.node):
                if isinstance(n, ast.Subscript) and isinstance(n.value, ast.Name) and n.value.id in dicts:
                    if isinstance(n.ctx, ast.Store):
                        stores = n.value.id
                    else:
                        reads = n.value.id
                if isinstance(n, ast.Call) and isinstance(n.func, ast.Attribute) and n.func.attr in ('get', 'setdefault') and isinstance(n.func.value, ast.Name) \
                        and n.func.value.id in dicts:
                    reads = n.func.value.id
                    if n.func.attr == 'setdefault':
                        stores = n.func.value.id
            if stores and reads and stores == reads:
                out[q] = f'module-level memo dict {stores}'
    return out


def passthrough_wrappers(proj, cached):
    """Functions that return the value of a cached call unchanged (possibly through a local name)."""
    out = dict(cached)
    changed = True
    while changed:
        changed = False
        for q, fi in proj.funcs.items():
            if q in out:
                continue
            rets = return_exprs(fi.node)
            if not rets:
                continue
            for r in rets:
                src = _cache_source(proj, fi, r, out)
                if src:
                    out[q] = f'returns the value of {src} unchanged'
                    changed = True
                    break
    return out


def _cache_source(proj, fi, expr, cached, depth=0):
    """If `expr` evaluates to (an alias of) a cached value return the cache's qualified name."""
    if depth > 4:
        return None
    if isinstance(expr, ast.Call):
        r = resolve_callee(proj, fi.module, expr)
        if r.kind == 'func' and r.qual in cached:
            return r.qual
        # a view of a cached array (reshape / view / ravel / transpose / swapaxes / squeeze) is still owned by the cache
        if isinstance(expr.func, ast.Attribute) and expr.func.attr in ('reshape', 'view', 'ravel', 'transpose', 'swapaxes', 'squeeze'):
            return _cache_source(proj, fi, expr.func.value, cached, depth + 1)
        return None
    if isinstance(expr, ast.Attribute) and expr.attr in ('T', 'real', 'imag', 'mT'):
        return _cache_source(proj, fi, expr.value, cached, depth + 1)
    if isinstance(expr, ast.Name):
        for v, st, path in assignments(fi.node).get(expr.id, []):
            if path is None or isinstance(path, tuple):
                if v is not None:
                    s = _cache_source(proj, fi, v, cached, depth + 1)
                    if s:
                        return s
        return None
    if isinstance(expr, ast.Subscript):
        # an element / view of a cached container is still owned by the cache
        if isinstance(expr.slice, (ast.Constant, ast.Slice, ast.Name, ast.Tuple)):
            return _cache_source(proj, fi, expr.value, cached, depth + 1)
    if isinstance(expr, ast.Tuple):
        for e in expr.elts:
            s = _cache_source(proj, fi, e, cached, depth + 1)
            if s:
                return s
    return None


def o1(proj, rep, focus=None):
    """focus: optional set of cached-function qualnames the property cares about (others are still analysed in
    thorough scope when focus is None)."""
    rep.rule('O1', RULE_O1)
    cached = cached_functions(proj)
    allc = passthrough_wrappers(proj, cached)
    if focus is not None:
        keep = {q for q in allc if q in focus}
        # wrappers of focused caches
        changed = True
        while changed:
            changed = False
            for q, why in allc.items():
                if q not in keep and any(k in why for k in keep):
                    keep.add(q)
                    changed = True
        target = {q: allc[q] for q in keep}
    else:
        target = allc
    rep.note('O1.cached_functions', sorted(cached))
    rep.note('O1.pass_through_wrappers', sorted(set(allc) - set(cached)))
    nsites = 0
    for fi in proj.iter_functions():
        aliases = {}      # local name -> cache qual
        for name, lst in assignments(fi.node).items():
            for v, st, path in lst:
                if v is None or not (path is None or isinstance(path, tuple)):
                    continue
                s = _cache_source(proj, fi, v, target) if isinstance(v, (ast.Call, ast.Name, ast.Subscript, ast.Attribute)) else None
                if s:
                    aliases[name] = s
        # names rebound to fresh values elsewhere are still tracked (may-alias): a mutation is reported only if *every*
        # binding of the name is cache-owned, to stay free of false alarms
        sure = {}
        for name, src in aliases.items():
            allb = assignments(fi.node).get(name, [])
            if all((path is None or isinstance(path, tuple)) and v is not None and
                   isinstance(v, (ast.Call, ast.Name, ast.Subscript, ast.Attribute)) and _cache_source(proj, fi, v, target)
                   for v, st, path in allb if path != 'aug'):
                sure[name] = src
        if not aliases:
            continue
        nsites += len(aliases)
        rep.touch(fi.module)
        bad = False
        for n in own_nodes(fi.node):
            hit = _mutation_of(n, aliases)
            if hit:
                name, how = hit
                if name in sure:
                    bad = True
                    rep.violation('O1', fi.qual, f'`{name}` holds the value cached by {aliases[name]} and is mutated in place '
                                  f'({how}): every later caller of the cache sees the change', fi.module, n)
                else:
                    rep.undecided('O1', fi.qual, f'`{name}` may hold the value cached by {aliases[name]} and is mutated ({how})',
                                  fi.module, n)
        if not bad:
            for name, src in sorted(aliases.items()):
                rep.ok('O1', fi.qual, f'`{name}` <- {src}: never mutated in this function', fi.module, fi.node,
                       text=f'{fi.qual}:{name}<-{src}')
    rep.count('O1.alias_sites', nsites)
    return len(target), nsites


def _mutation_of(n, aliases):
    if isinstance(n, (ast.Assign, ast.AugAssign, ast.Delete)):
        targets = n.targets if isinstance(n, (ast.Assign, ast.Delete)) else [n.target]
        for t in targets:
            for e in ([t] if not isinstance(t, (ast.Tuple, ast.List)) else t.elts):
                if isinstance(e, ast.Subscript):
                    b = e.value
                    while isinstance(b, ast.Subscript):
                        b = b.value
                    if isinstance(b, ast.Name) and b.id in aliases:
                        return b.id, 'subscript store'
                if isinstance(n, ast.AugAssign) and isinstance(e, ast.Name) and e.id in aliases:
                    return e.id, f'augmented assignment {type(n.op).__name__}'
    if isinstance(n, ast.Call):
        if isinstance(n.func, ast.Attribute) and n.func.attr in INPLACE_METHODS and isinstance(n.func.value, ast.Name) \
                and n.func.value.id in aliases:
            return n.func.value.id, f'in-place method .{n.func.attr}()'
        for k in n.keywords:
            if k.arg == 'out' and isinstance(k.value, ast.Name) and k.value.id in aliases:
                return k.value.id, 'out= argument'
    return None


# ------------------------------------------------------------------------------------------------ O2
RULE_O2 = ('O2: a cache-decorated function never returns an instance (or a container of instances) of a numqi class whose '
           'methods mutate the instance (e.g. numqi.sim.Circuit, whose gate methods append to gate_index_list): every caller '
           'would share one mutable builder object, so one caller\'s appended/shifted gates silently change what the next '
           'caller receives.  (numpy arrays are covered by O1: nothing in the package mutates them.)')


def _class_has_mutators(proj, ci):
    from .typestate import class_functions, MUTATING_METHODS, _self_attr
    for name, fn, selfname, how, mod in class_functions(proj, ci):
        if name == '__init__':
            continue
        for n in ast.walk(fn):
            if isinstance(n, ast.Call) and isinstance(n.func, ast.Attribute) and n.func.attr in MUTATING_METHODS \
                    and _self_attr(n.func.value, selfname):
                return f'{name} ({how})'
            if isinstance(n, (ast.Assign, ast.AugAssign)):
                for t in (n.targets if isinstance(n, ast.Assign) else [n.target]):
                    if isinstance(t, ast.Subscript) and _self_attr(t.value, selfname):
                        return f'{name} ({how})'
    return None


def o2(proj, rep):
    rep.rule('O2', RULE_O2)
    cached = cached_functions(proj)
    n = 0
    for q in sorted(cached):
        fi = proj.funcs[q]
        m = fi.module
        n += 1
        hit = None
        names = set()
        for r in return_exprs(fi.node):
            for x in ast.walk(r):
                if isinstance(x, ast.Name):
                    names.add(x.id)
        exprs = list(return_exprs(fi.node))
        for nm in names:
            for v, st, path in assignments(fi.node).get(nm, []):
                if v is not None and path in (None,):
                    exprs.append(v)
        for e in exprs:
            for c in ast.walk(e):
                if isinstance(c, ast.Call):
                    r = resolve_callee(proj, m, c)
                    if r.kind == 'class':
                        why = _class_has_mutators(proj, r.node)
                        if why:
                            hit = (c, r.qual, why)
        if hit:
            c, cq, why = hit
            rep.violation('O2', q, f'cached ({cached[q]}) function returns a `{cq}` object, a mutable builder (its method {why} mutates it): '
                          f'all callers share one instance', m, c)
        else:
            rep.ok('O2', q, 'returns no mutable numqi builder object', m, fi.node, text=f'{q} returns')
    rep.count('O2.cached_functions', n)
    return n


# ------------------------------------------------------------------------------------------------ O3
RULE_O3 = ('O3: the public constructors of the named modules return fresh arrays: none of them is memoised (functools.lru_cache / cache) unless every '
           'returned ndarray is frozen with `flags.writeable = False`. A memoised constructor hands the same array object to every caller, so an '
           'in-place edit of one result (psi += ...; psi /= norm) silently corrupts all later calls with the same arguments.')


def o3(proj, rep, modules):
    rep.rule('O3', RULE_O3)
    cached = cached_functions(proj)
    if len(cached) < 15:
        rep.undecided('O3', 'memoisation detector', f'only {len(cached)} memoised functions found in the package (positive control: >= 15 expected)', proj.mod(modules[0]),
                      proj.mod(modules[0]).tree, text='positive control')
        return 0
    n = 0
    for mq in modules:
        m = proj.mod(mq)
        rep.touch(m)
        for fi in [f for f in proj.funcs.values() if f.module is m and f.cls is None and not f.qual.rsplit('.', 1)[1].startswith('_')]:
            n += 1
            if fi.qual in cached:
                src = ast.unparse(fi.node).replace(' ', '')
                if 'flags.writeable=False' in src or 'setflags(write=False)' in src:
                    rep.ok('O3', fi.qual, 'memoised, result frozen', m, fi.node, text=f'{fi.qual} memo')
                else:
                    rep.violation('O3', fi.qual, f'public constructor is memoised ({cached[fi.qual]}) and returns its array unfrozen: all callers share one '
                                  f'mutable object', m, fi.node, text=f'{fi.qual} memo')
            else:
                rep.ok('O3', fi.qual, 'not memoised: every call builds a fresh result', m, fi.node, text=f'{fi.qual} memo')
    rep.count('O3.public_functions', n)
    return n


# ------------------------------------------------------------------------------------------------ PU1
RULE_PU1 = ('PU1: the state-vector / density-matrix primitives never write into the caller\'s array: an item assignment or augmented assignment whose base '
            'is a parameter, or a name that may alias a parameter (plain binding, reshape / view / ravel / asarray / astype(copy=False) / slicing), is '
            'reported. A fresh object comes from .copy(), np.array(..), astype without copy=False, arithmetic, zeros_like.')

_VIEW_METHODS = {'reshape', 'view', 'ravel', 'squeeze', 'transpose', 'swapaxes', 'real', 'imag', 'T', 'conj', 'conjugate'}     # ndarray.conj() of a real array is the array itself
_FRESH_CALLS = {'copy', 'array', 'zeros', 'zeros_like', 'ones', 'ones_like', 'empty', 'empty_like', 'eye', 'concatenate', 'stack', 'kron', 'einsum', 'dot', 'matmul',
                'tensordot', 'clone'}


def _may_alias(e, aliases):
    """name of the parameter e may be a view of, or None"""
    if isinstance(e, ast.Name):
        return aliases.get(e.id)
    if isinstance(e, ast.Subscript):
        return _may_alias(e.value, aliases)
    if isinstance(e, ast.Attribute) and e.attr in _VIEW_METHODS:
        return _may_alias(e.value, aliases)
    if isinstance(e, ast.Call):
        f = e.func
        if isinstance(f, ast.Attribute):
            if f.attr in _VIEW_METHODS:
                return _may_alias(f.value, aliases)
            if f.attr == 'astype':
                cp = next((k.value for k in e.keywords if k.arg == 'copy'), None)
                if isinstance(cp, ast.Constant) and cp.value is False:
                    return _may_alias(f.value, aliases)
                return None
            if f.attr in ('asarray', 'ascontiguousarray', 'atleast_1d', 'atleast_2d') and e.args:
                return _may_alias(e.args[0], aliases)
        return None
    return None


_ARRAY_ATTRS = {'shape', 'T', 'conj', 'reshape', 'ndim', 'dtype', 'real', 'imag', 'transpose', 'copy', 'astype', 'sum', 'view', 'flatten', 'mT', 'device'}


def _array_evidence(fi, name):
    """does the function itself treat `name` as an array?  (annotation, array attribute, slice subscript)"""
    for a in fi.node.args.posonlyargs + fi.node.args.args + fi.node.args.kwonlyargs:
        if a.arg == name and a.annotation is not None and any(k in ast.unparse(a.annotation) for k in ('ndarray', 'Tensor')):
            return True
    for x in ast.walk(fi.node):
        if isinstance(x, ast.Attribute) and isinstance(x.value, ast.Name) and x.value.id == name and x.attr in _ARRAY_ATTRS:
            return True
        if isinstance(x, ast.Subscript) and isinstance(x.value, ast.Name) and x.value.id == name and isinstance(x.slice, (ast.Slice, ast.Tuple)):
            return True
        if isinstance(x, ast.Call) and ast.unparse(x.func).split('.')[0] in ('np', 'numpy', 'torch', 'scipy') and any(isinstance(a, ast.Name) and a.id == name for a in x.args) \
                and ast.unparse(x.func).split('.')[-1] not in ('asarray', 'array', 'arange', 'zeros', 'ones', 'eye', 'tensor', 'prod', 'sqrt', 'log2', 'log', 'exp'):
            return True
    return False


def pu1(proj, rep, modules):
    rep.rule('PU1', RULE_PU1)
    n = 0
    for mq in modules:
        m = proj.mod(mq)
        rep.touch(m)
        for fi in [f for f in proj.funcs.values() if f.module is m]:
            if fi.qual.rsplit('.', 1)[1].endswith('_'):
                continue
            # methods: the object itself (self / cls / ctx) is theirs to change, their other arguments are not
            params = [p for p in fi.all_params if p not in ('self', 'cls', 'ctx')]
            aliases = {p: p for p in params}
            stores = 0
            bad = None
            for st in fi.node.body if True else []:
                pass
            # statement order walk (flow-insensitive over branches: a name is an alias if ANY binding may alias)
            assigns = [s for s in ast.walk(fi.node) if isinstance(s, ast.Assign) and isinstance(s.targets[0], ast.Name)]
            changed = True
            fresh = set()
            while changed:
                changed = False
                for s in assigns:
                    nm = s.targets[0].id
                    a = _may_alias(s.value, aliases)
                    if a is not None and aliases.get(nm) != a and nm not in params:
                        aliases[nm] = a
                        changed = True
            # a parameter that is re-bound to a fresh value at function level before any store is no longer the caller's array
            rebound_fresh = {s.targets[0].id for s in fi.node.body if isinstance(s, ast.Assign) and isinstance(s.targets[0], ast.Name)
                             and s.targets[0].id in params and _may_alias(s.value, {p: p for p in params}) is None}
            p0 = {p: p for p in params}
            for st0 in fi.node.body:
                if isinstance(st0, ast.If) and st0.orelse:
                    def fresh_in(block):
                        return {x.targets[0].id for b in block for x in ast.walk(b) if isinstance(x, ast.Assign) and isinstance(x.targets[0], ast.Name)
                                and x.targets[0].id in params and _may_alias(x.value, p0) is None}
                    rebound_fresh |= fresh_in(st0.body) & fresh_in(st0.orelse)
            for s in ast.walk(fi.node):
                tgt = None
                if isinstance(s, ast.Assign) and isinstance(s.targets[0], ast.Subscript):
                    tgt = s.targets[0]
                elif isinstance(s, ast.AugAssign) and not isinstance(s.target, ast.Name):
                    tgt = s.target
                elif isinstance(s, ast.AugAssign) and isinstance(s.target, ast.Name) and (
                        _array_evidence(fi, s.target.id) or (s.target.id not in params and aliases.get(s.target.id) is not None
                                                             and any(x.targets[0].id == s.target.id and not isinstance(x.value, ast.Name) and _may_alias(x.value, aliases) is not None
                                                                     for x in assigns))):
                    tgt = s.target          # `x op= v` on a bare name is in place only for arrays: reported when the function itself treats x as an array
                if tgt is None:
                    continue
                if isinstance(tgt, ast.Name) and tgt.id not in aliases:
                    continue
                base = tgt
                while isinstance(base, (ast.Subscript,)):
                    base = base.value
                a = _may_alias(base if not isinstance(tgt, ast.Name) else tgt, aliases)
                stores += 1
                if a is not None and a not in rebound_fresh and bad is None:
                    # all bindings of the local name alias? (a name that is bound to a fresh copy on every path is fine)
                    nm = base.id if isinstance(base, ast.Name) else None
                    if nm is not None and nm not in params:
                        bind = [x for x in assigns if x.targets[0].id == nm]
                        if any(_may_alias(x.value, aliases) is None for x in bind):
                            continue
                    bad = (s, a)
            if stores == 0:
                continue
            n += 1
            if bad:
                s, a = bad
                rep.violation('PU1', fi.qual, f'`{ast.unparse(s)[:80]}` writes through an object that may be (a view of) the parameter `{a}`: the caller\'s array is '
                              f'modified in place (a second use of the same input sees the overwritten data)', m, s)
            else:
                rep.ok('PU1', fi.qual, f'{stores} in-place store(s), all into locally created arrays', m, fi.node, text=f'{fi.qual} purity')
    rep.count('PU1.functions_with_stores', n)
    return n


# ------------------------------------------------------------------------------------------------ O5
RULE_O5 = ('O5: a memoised function of the named modules returns an immutable value (int / tuple / frozen array): a cached ndarray that is handed out unfrozen - '
           'directly or through a public wrapper that just forwards it - is shared by all callers and by the recursion that builds longer results from it.')


def o5(proj, rep, modules):
    rep.rule('O5', RULE_O5)
    cached = cached_functions(proj)
    n = 0
    for q in sorted(cached):
        fi = proj.funcs[q]
        if fi.module.name not in modules:
            continue
        m = fi.module
        rep.touch(m)
        n += 1
        src = ast.unparse(fi.node).replace(' ', '')
        frozen = 'flags.writeable=False' in src or 'setflags(write=False)' in src
        arrayish = False
        for r in return_exprs(fi.node):
            names = {x.id for x in ast.walk(r) if isinstance(x, ast.Name)}
            exprs = [r] + [v for nm in names for v, st, path in assignments(fi.node).get(nm, []) if v is not None]
            for e in exprs:
                t = ast.unparse(e)
                if any(k in t for k in ('np.array(', 'np.zeros(', 'np.eye(', 'np.stack(', 'np.concatenate(', 'transvection(', 'np.ones(', '.copy()')) and not t.startswith(('tuple(', 'int(')):
                    arrayish = True
        if arrayish and not frozen:
            rep.violation('O5', q, f'memoised ({cached[q]}) function returns an ndarray that is not frozen: every caller (and every recursive use of the cached prefix) shares '
                          f'one mutable object, so an in-place edit of a result corrupts later results', m, fi.node, text=f'{q} cached value')
        else:
            rep.ok('O5', q, 'memoised value is immutable (ints / tuples) or frozen', m, fi.node, text=f'{q} cached value')
    rep.count('O5.cached_functions', n)
    return n
