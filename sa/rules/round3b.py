"""Rules added after the second half of the third seeded-change round.

Every rule here is an ast rule over the resolved project; each was run package-wide on the unchanged tree before it was armed (see DESIGN section 4,
"Round-3 batch, second half") and reports a specific construct.
"""
import ast
import re

from ..callgraph import resolve_callee
from ..dataflow import reaching_defs
from . import numeric


def _in_scope(m, modules):
    return modules is None or any(m.name == q or m.name.startswith(q + '.') for q in modules)


def _is_newaxis(e):
    return (isinstance(e, ast.Constant) and e.value is None) or (isinstance(e, ast.Attribute) and e.attr == 'newaxis')


def _stmt(node):
    while not isinstance(node, ast.stmt):
        node = node._parent
    return node


# ------------------------------------------------------------------------------------------------ HM4
RULE_HM4 = ('HM4: an outer product |v><v| written by broadcasting, `v[..., :, None] * v[..., None, :].conj()`, conjugates the factor whose vector index is '
            'the LAST axis (the column / bra index). Conjugating the factor that ends in a new axis (the row / ket index) builds the transposed projector '
            'conj(|v><v|): Hermitian, PSD, trace one - and a different state for every complex v.')


def _split_conj(e):
    """-> (inner, True) if e is X.conj() / np.conj(X) / X.conj()[idx]; else (e, False).  The returned inner keeps its subscript."""
    if isinstance(e, ast.Call) and isinstance(e.func, ast.Attribute) and e.func.attr in ('conj', 'conjugate') and not e.args:
        return e.func.value, True
    if isinstance(e, ast.Call) and isinstance(e.func, ast.Attribute) and e.func.attr in ('conj', 'conjugate') and len(e.args) == 1 \
            and isinstance(e.func.value, ast.Name) and e.func.value.id in ('np', 'numpy', 'torch'):
        return e.args[0], True
    if isinstance(e, ast.Subscript):
        inner, c = _split_conj(e.value)
        if c:
            return ast.Subscript(value=inner, slice=e.slice, ctx=ast.Load()), True
    return e, False


def _base_and_tail(e):
    """X[idx] -> (dump(X), ends_with_newaxis, has_newaxis) ; X -> (dump(X), False, False)"""
    if isinstance(e, ast.Subscript):
        s = e.slice
        elts = list(s.elts) if isinstance(s, ast.Tuple) else [s]
        return ast.dump(e.value), _is_newaxis(elts[-1]), any(_is_newaxis(x) for x in elts)
    return ast.dump(e), False, False


def hm4(proj, rep, modules=None):
    rep.rule('HM4', RULE_HM4)
    n = 0
    for fi in proj.iter_functions():
        m = fi.module
        if not _in_scope(m, modules):
            continue
        for b in ast.walk(fi.node):
            if not (isinstance(b, ast.BinOp) and isinstance(b.op, ast.Mult)):
                continue
            if isinstance(getattr(b, '_parent', None), ast.BinOp) and isinstance(b._parent.op, ast.Mult):
                continue        # handle each product chain once, at its top
            fac = []

            def fl(e):
                if isinstance(e, ast.BinOp) and isinstance(e.op, ast.Mult):
                    fl(e.left)
                    fl(e.right)
                else:
                    fac.append(e)
            fl(b)
            parts = [_split_conj(f) for f in fac]
            for i, (ci, conj_i) in enumerate(parts):
                if not conj_i:
                    continue
                for j, (uj, conj_j) in enumerate(parts):
                    if conj_j or i == j:
                        continue
                    bc, c_tail, c_new = _base_and_tail(ci)
                    bu, u_tail, u_new = _base_and_tail(uj)
                    if bc != bu or not (c_new or u_new):
                        continue
                    n += 1
                    rep.touch(m)
                    if c_tail and not u_tail:
                        rep.violation('HM4', fi.qual, f'`{ast.unparse(b)[:90]}`: the conjugated factor ends in a new axis, so its vector index is the ROW index: this is '
                                      f'conj(|v><v|) = the transpose of the projector', m, b)
                    elif u_tail and not c_tail:
                        rep.ok('HM4', fi.qual, f'`{ast.unparse(b)[:60]}`: ket factor ends in a new axis, bra factor is conjugated', m, b)
                    else:
                        n -= 1
    rep.count('HM4.outer_products', n)
    return n


# ------------------------------------------------------------------------------------------------ SDP1
RULE_SDP1 = ('SDP1: a function that answers by solving a convex program (`<problem>.solve()`) has no value-returning exit that is reached before the solve: an '
             'early `return` computes the answer some other way and silently ignores the options that only enter through the constraints '
             '(use_ppt, use_boson, kext ...), so the documented ordering between the criteria no longer holds for that input.')


def sdp1(proj, rep, modules=None):
    rep.rule('SDP1', RULE_SDP1)
    n = 0
    for fi in proj.iter_functions():
        m = fi.module
        if not _in_scope(m, modules):
            continue
        solves = [c for c in ast.walk(fi.node) if isinstance(c, ast.Call) and isinstance(c.func, ast.Attribute) and c.func.attr == 'solve'
                  and not ast.unparse(c.func.value).startswith(('np.', 'numpy.', 'scipy.', 'torch.'))]
        if not solves:
            continue
        first = min(c.lineno for c in solves)
        rets = [r for r in ast.walk(fi.node) if isinstance(r, ast.Return) and r.value is not None and not (isinstance(r.value, ast.Constant) and r.value.value is None)]
        n += 1
        rep.touch(m)
        early = [r for r in rets if r.lineno < first]
        if early:
            for r in early:
                rep.violation('SDP1', fi.qual, f'`{ast.unparse(r)[:70]}` (line {r.lineno}) returns before the first `.solve()` (line {first}): this path never solves the program, '
                              f'so the constraint options of the call have no effect on it', m, r)
        else:
            rep.ok('SDP1', fi.qual, f'all {len(rets)} value returns follow the solve', m, solves[0])
    rep.count('SDP1.solver_functions', n)
    return n


# ------------------------------------------------------------------------------------------------ DF1
RULE_DF1 = ('DF1: public defaults that the documented ordering relies on keep their value. `get_ppt_boundary(..., within_dm=True)`: only with the state-space '
            'constraint is beta_PPT <= beta_DM; with within_dm=False the PPT ray length of a state whose partial transpose stays positive longer than the state '
            'itself exceeds the state-space boundary.')
DF1_TABLE = {('numqi.entangle.ppt.get_ppt_boundary', 'within_dm'): True}


def df1(proj, rep):
    rep.rule('DF1', RULE_DF1)
    n = 0
    for (q, p), want in DF1_TABLE.items():
        fi = proj.func(q)
        m = fi.module
        rep.touch(m)
        a = fi.node.args
        pos = a.posonlyargs + a.args
        dflt = None
        if p in [x.arg for x in pos]:
            i = [x.arg for x in pos].index(p) - (len(pos) - len(a.defaults))
            dflt = a.defaults[i] if i >= 0 else None
        elif p in [x.arg for x in a.kwonlyargs]:
            dflt = a.kw_defaults[[x.arg for x in a.kwonlyargs].index(p)]
        if dflt is None:
            rep.undecided('DF1', q, f'parameter `{p}` has no default any more', m, fi.node, text=f'{q}.{p} default')
            continue
        n += 1
        if isinstance(dflt, ast.Constant) and dflt.value is want:
            rep.ok('DF1', q, f'`{p}={want}` by default', m, fi.node, text=f'{q}.{p} default')
        else:
            rep.violation('DF1', q, f'default `{p}={ast.unparse(dflt)}` (documented ordering needs `{want}`): beta_PPT is no longer bounded by beta_DM for a plain call', m, fi.node,
                          text=f'{q}.{p} default')
    rep.count('DF1.defaults', n)
    return n


# ------------------------------------------------------------------------------------------------ E5
RULE_E5 = ('E5: the scalar index -> binary-symplectic conversion keeps the two phase bits the string encoder produced (a Y contributes i, since Y = iXZ): the '
           'phase bits are dropped only on the `with_sign == False` path and never replaced by constants.')


def e5(proj, rep):
    rep.rule('E5', RULE_E5)
    fi = proj.func('numqi.gate._pauli._pauli_index_int_to_F2')
    m = fi.module
    rep.touch(m)
    n = 0
    enc = [c for c in ast.walk(fi.node) if isinstance(c, ast.Call) and ast.unparse(c.func).endswith('pauli_str_to_F2')]
    if not enc:
        rep.undecided('E5', fi.qual, 'encoder call pauli_str_to_F2 not found', m, fi.node, text='encoder')
        return 0
    for c in enc:
        n += 1
        par = c._parent
        if isinstance(par, ast.Subscript) and par.value is c:
            rep.violation('E5', fi.qual, f'`{ast.unparse(par)}` slices the encoder output unconditionally: the phase bits of the string (i per Y) are lost on the with_sign path', m, par)
        else:
            rep.ok('E5', fi.qual, 'the full encoder output (phase bits included) is kept', m, c)
    for s in ast.walk(fi.node):
        if isinstance(s, ast.Subscript) and isinstance(s.slice, ast.Slice) and s.slice.lower is not None and ast.unparse(s.slice.lower) == '2' and isinstance(s.ctx, ast.Load) \
                and not (isinstance(s.value, ast.Call)):
            n += 1
            g = s
            test = None
            while g is not fi.node:
                g = g._parent
                if isinstance(g, ast.If):
                    test = g.test
                    break
            tt = ast.unparse(test).replace(' ', '') if test is not None else ''
            if tt in ('with_sign==False', 'notwith_sign', 'with_signisFalse', '(notwith_sign)'):
                rep.ok('E5', fi.qual, 'phase bits dropped only when with_sign is false', m, s)
            else:
                rep.violation('E5', fi.qual, f'`{ast.unparse(s)}` drops the phase bits outside a `with_sign == False` branch', m, s)
    for c in ast.walk(fi.node):
        if isinstance(c, ast.Call) and ast.unparse(c.func).split('.')[-1] in ('zeros', 'zeros_like', 'ones', 'full'):
            n += 1
            rep.violation('E5', fi.qual, f'`{ast.unparse(c)[:60]}`: constant bits are spliced into the result; the phase of an index is the phase of its Pauli string', m, c)
    rep.count('E5.obligations', n)
    return n


# ------------------------------------------------------------------------------------------------ EL1
RULE_EL1 = ('EL1: under an open-rank guard (`x.ndim > 1`) a new axis is appended with an Ellipsis (`t[..., np.newaxis]`): a fixed number of leading slices '
            '(`t[:, np.newaxis]`) is right only for ndim == 2 and mis-broadcasts every higher-rank batch the guard admits.')


def el1(proj, rep, modules=None):
    rep.rule('EL1', RULE_EL1)
    n = 0
    for fi in proj.iter_functions():
        m = fi.module
        if not _in_scope(m, modules):
            continue
        for g in ast.walk(fi.node):
            if not (isinstance(g, ast.If) and isinstance(g.test, ast.Compare) and len(g.test.ops) == 1 and isinstance(g.test.ops[0], (ast.Gt, ast.GtE))
                    and isinstance(g.test.left, ast.Attribute) and g.test.left.attr == 'ndim'):
                continue
            for s in g.body:
                for x in ast.walk(s):
                    if not (isinstance(x, ast.Subscript) and isinstance(x.ctx, ast.Load)):
                        continue
                    elts = list(x.slice.elts) if isinstance(x.slice, ast.Tuple) else [x.slice]
                    if not any(_is_newaxis(e) for e in elts):
                        continue
                    n += 1
                    rep.touch(m)
                    if any(isinstance(e, ast.Constant) and e.value is Ellipsis for e in elts):
                        rep.ok('EL1', fi.qual, f'`{ast.unparse(x)}` under `{ast.unparse(g.test)}`', m, x)
                    elif all(_is_newaxis(e) or (isinstance(e, ast.Slice) and e.lower is None and e.upper is None) for e in elts):
                        rep.violation('EL1', fi.qual, f'`{ast.unparse(x)}` under `{ast.unparse(g.test)}`: fixed-rank index under an open-rank guard; for ndim >= 3 the new '
                                      f'axis lands in the wrong place and the product broadcasts against the wrong dimension', m, x)
                    else:
                        n -= 1
    rep.count('EL1.guarded_newaxis', n)
    return n


# ------------------------------------------------------------------------------------------------ DT5
RULE_DT5 = ('DT5: the GF(2) modules use no floating-point linear algebra (det / inv / solve / matrix_rank), and every array constructor whose default dtype is float (eye / identity / zeros / ones / empty / full) names an integer '
            'dtype: a float64 matrix of zeros and ones passes every `% 2` arithmetic check, but it is not an element of the indexed representation '
            '(to_int_tuple asserts uint8; byte-keyed lookups and `^`, `&` fail).')
_FLOAT_DEFAULT = {'eye', 'identity', 'zeros', 'ones', 'empty', 'full'}


def dt5(proj, rep, modules):
    rep.rule('DT5', RULE_DT5)
    n = 0
    for fi in proj.iter_functions():
        m = fi.module
        if not _in_scope(m, modules):
            continue
        for c in ast.walk(fi.node):
            if not (isinstance(c, ast.Call) and isinstance(c.func, ast.Attribute) and c.func.attr in _FLOAT_DEFAULT and isinstance(c.func.value, ast.Name)
                    and c.func.value.id in ('np', 'numpy')):
                continue
            if isinstance(_stmt(c), ast.Assert):
                continue        # a dense-matrix sanity check, not GF(2) data
            n += 1
            rep.touch(m)
            dt = next((k.value for k in c.keywords if k.arg == 'dtype'), None)
            if dt is None and c.func.attr in ('zeros', 'ones', 'empty') and len(c.args) >= 2:
                dt = c.args[1]
            if dt is None and c.func.attr == 'full' and len(c.args) >= 3:
                dt = c.args[2]
            if dt is None:
                rep.violation('DT5', fi.qual, f'`{ast.unparse(c)[:70]}` has no dtype: float64 enters a GF(2) computation and the result is not a uint8 group element', m, c)
            else:
                rep.ok('DT5', fi.qual, f'`{ast.unparse(c)[:50]}` dtype given', m, c)
    # floating-point linear algebra has no place on GF(2) data: det / inv / solve / matrix_rank round beyond 2^53 (n >= 22) and lose parity
    for fi in proj.iter_functions():
        m = fi.module
        if not _in_scope(m, modules):
            continue
        for c in ast.walk(fi.node):
            if isinstance(c, ast.Call) and ast.unparse(c.func) in ('np.linalg.det', 'np.linalg.inv', 'np.linalg.solve', 'np.linalg.matrix_rank', 'np.linalg.lstsq',
                                                                   'numpy.linalg.det', 'scipy.linalg.det', 'np.linalg.slogdet', 'np.linalg.pinv'):
                rep.touch(m)
                rep.violation('DT5', fi.qual, f'`{ast.unparse(c)[:60]}`: floating-point linear algebra on a GF(2) matrix: the integer determinant grows past 2^53 (n >= 22) and its '
                              f'parity / rank is lost in rounding', m, c)
    rep.count('DT5.constructors', n)
    return n


# ------------------------------------------------------------------------------------------------ MR1
RULE_MR1 = ('MR1: mixed-radix digits need the running quotient: a comprehension `(N % b for b in bases)` reduces the SAME number modulo every base, so the '
            'digits are locked together (only lcm(bases) of prod(bases) tuples are reachable).')


def mr1(proj, rep, modules=None):
    rep.rule('MR1', RULE_MR1)
    n = 0
    for fi in proj.iter_functions():
        m = fi.module
        if not _in_scope(m, modules):
            continue
        for c in ast.walk(fi.node):
            if not isinstance(c, (ast.GeneratorExp, ast.ListComp)) or len(c.generators) != 1:
                continue
            g = c.generators[0]
            if not isinstance(g.target, ast.Name):
                continue
            n += 1
            e = c.elt
            if isinstance(e, ast.BinOp) and isinstance(e.op, ast.Mod) and isinstance(e.right, ast.Name) and e.right.id == g.target.id \
                    and isinstance(e.left, ast.Name) and e.left.id != g.target.id:
                rep.touch(m)
                rep.violation('MR1', fi.qual, f'`{ast.unparse(c)[:70]}`: every digit is `{e.left.id}` modulo its own base, no floor division between digits: the tuple is '
                              f'not the mixed-radix expansion of `{e.left.id}`', m, c)
    rep.count('MR1.comprehensions', n)
    if n:
        rep.ok('MR1', 'package', f'{n} single-loop comprehensions: none reduces one number modulo every base', proj.mod('numqi.utils'), proj.mod('numqi.utils').tree,
               text='mixed radix sweep')
    return n


# ------------------------------------------------------------------------------------------------ S8
RULE_S8 = ('S8: an unseeded generator (`default_rng()`, `random.Random()`, `RandomState()` without arguments) is created only in the branch selected by '
           '`<seed parameter> is None`. In a fall-through `else` every seed value the earlier branches do not recognise (numpy integers, strings of digits ...) '
           'silently becomes "no seed", and the call is no longer reproducible.')
_UNSEEDED = {'default_rng', 'Random', 'RandomState', 'Generator', 'SystemRandom'}


def s8(proj, rep, modules=None):
    rep.rule('S8', RULE_S8)
    n = 0
    for fi in proj.iter_functions():
        m = fi.module
        if not _in_scope(m, modules):
            continue
        seedp = [p for p in fi.all_params if p in ('seed', 'rng_or_seed', 'rng', 'np_rng', 'random_seed')]
        if not seedp:
            continue
        for c in ast.walk(fi.node):
            if not (isinstance(c, ast.Call) and not c.args and not c.keywords and isinstance(c.func, ast.Attribute) and c.func.attr in _UNSEEDED):
                continue
            n += 1
            rep.touch(m)
            # the nearest enclosing If, and the arm we are in
            node, arm_ok, found = c, False, False

            def none_test(t):
                # -> 'is' / 'isnot' / None for `<seed> is None` / `<seed> is not None`
                if isinstance(t, ast.Compare) and len(t.ops) == 1 and isinstance(t.comparators[0], ast.Constant) and t.comparators[0].value is None \
                        and isinstance(t.left, ast.Name) and t.left.id in seedp:
                    return 'is' if isinstance(t.ops[0], ast.Is) else ('isnot' if isinstance(t.ops[0], ast.IsNot) else None)
                return None
            while node is not fi.node:
                par = node._parent
                if isinstance(par, ast.If) and not found:
                    found = True
                    in_body = any(node is s or any(node is y for y in ast.walk(s)) for s in par.body)
                    k = none_test(par.test)
                    arm_ok = (in_body and k == 'is') or ((not in_body) and k == 'isnot')
                elif isinstance(par, ast.IfExp) and not found and node is not par.test:
                    found = True
                    k = none_test(par.test)
                    arm_ok = (node is par.body and k == 'is') or (node is par.orelse and k == 'isnot')
                node = par
            if arm_ok:
                rep.ok('S8', fi.qual, f'`{ast.unparse(c)}` only when the seed is None', m, c)
            else:
                rep.violation('S8', fi.qual, f'`{ast.unparse(c)}` is not in an `if {seedp[0]} is None:` branch: a seed that the other branches do not recognise falls through to '
                              f'an unseeded generator', m, c)
    rep.count('S8.unseeded_constructors', n)
    return n


# ------------------------------------------------------------------------------------------------ F6 / F7 / F8
RULE_F6 = ('F6: no closed form calls scipy.linalg.sqrtm: on a singular (pure, rank-deficient) density matrix the Schur-based square root is inaccurate to '
           '~1e-8 and may return a complex / non-Hermitian result; the package takes PSD square roots through eigh with clamped eigenvalues.')
RULE_F7 = ('F7: scipy.special.entr(E) is -inf for E < 0: an eigenvalue vector taken straight from eigvalsh / eigh / svd (which returns -1e-17 for a zero '
           'eigenvalue) is clamped or filtered before entr.')
RULE_F8 = ('F8: a clamp that protects a square root is applied to the radicand itself. Clamping an input parameter to its documented range and then '
           'computing the radicand by rounding arithmetic (`a + (1-a)/d**2`) leaves the radicand free to round to -1e-18 at the end point of the range: '
           'sqrt gives NaN exactly where the closed form should vanish.')
_SPECTRUM = {'eigvalsh', 'eigvals', 'eigh', 'eig', 'svd', 'svdvals'}


def f6_f7(proj, rep, modules=None):
    rep.rule('F6', RULE_F6)
    rep.rule('F7', RULE_F7)
    n6 = n7 = 0
    for fi in proj.iter_functions():
        m = fi.module
        if not _in_scope(m, modules):
            continue
        n6 += 1
        for c in ast.walk(fi.node):
            if not isinstance(c, ast.Call):
                continue
            f = ast.unparse(c.func)
            if f.endswith('linalg.sqrtm') or f == 'sqrtm':
                rep.touch(m)
                rep.violation('F6', fi.qual, f'`{ast.unparse(c)[:60]}`: general matrix square root of a density matrix; singular inputs (pure states, product states) lose '
                              f'~8 digits or turn complex', m, c)
            if f.endswith('special.entr') or f == 'entr':
                n7 += 1
                rep.touch(m)
                a = c.args[0]
                raw = None
                vals = [a]
                if isinstance(a, ast.Name):
                    vals = [v for v, st, p in reaching_defs(fi.node, a.id, c) if v != 'param']
                for v in vals:
                    v = numeric._strip(v) if isinstance(v, ast.AST) else v
                    if isinstance(v, ast.Subscript) and not isinstance(v.slice, ast.Compare):
                        v = v.value
                    if isinstance(v, ast.Call) and ast.unparse(v.func).split('.')[-1] in _SPECTRUM:
                        raw = v
                if raw is not None:
                    rep.violation('F7', fi.qual, f'`{ast.unparse(c)[:60]}`: the argument is the raw output of `{ast.unparse(raw.func)}`; a zero eigenvalue computed as -1e-17 '
                                  f'gives entr = -inf', m, c)
                else:
                    rep.ok('F7', fi.qual, f'`{ast.unparse(c)[:50]}`: argument is not a raw spectrum', m, c)
    rep.count('F6.functions_scanned', n6)
    rep.count('F7.entr_sites', n7)
    if n6:
        rep.ok('F6', 'package', f'{n6} functions scanned: no scipy.linalg.sqrtm', proj.mod('numqi.utils'), proj.mod('numqi.utils').tree, text='sqrtm sweep')
    return n6, n7


def _is_clamp(proj, m, e):
    return isinstance(e, ast.Call) and (numeric._ext(proj, m, e) in numeric.GUARD_MAX | numeric.GUARD_CLIP
                                        or (isinstance(e.func, ast.Attribute) and e.func.attr in ('clip', 'clamp', 'clamp_min')))


def f8(proj, rep, modules=None):
    rep.rule('F8', RULE_F8)
    n = 0
    for fi in proj.iter_functions():
        m = fi.module
        if not _in_scope(m, modules):
            continue
        params = set(fi.all_params)
        # parameters that are clamped in place: p = clip(p, ..) / p = maximum(p, ..)
        clamped = {}
        for s in ast.walk(fi.node):
            if isinstance(s, ast.Assign) and len(s.targets) == 1 and isinstance(s.targets[0], ast.Name) and s.targets[0].id in params and _is_clamp(proj, m, s.value) \
                    and any(isinstance(x, ast.Name) and x.id == s.targets[0].id for x in ast.walk(s.value)):
                clamped[s.targets[0].id] = s
        for c in ast.walk(fi.node):
            if not (isinstance(c, ast.Call) and c.args and numeric._ext(proj, m, c) in ('numpy.sqrt', 'torch.sqrt', 'math.sqrt')):
                continue
            names = [x for x in ast.walk(c.args[0]) if isinstance(x, ast.Name)]
            for x in names:
                if x.id in params:
                    continue
                defs = [(v, st) for v, st, p in reaching_defs(fi.node, x.id, c) if v != 'param' and p is None]
                if len(defs) != 1:
                    continue
                v, st = defs[0]
                if _is_clamp(proj, m, v):
                    computed = any(isinstance(y, ast.BinOp) for y in ast.walk(v)) or any(
                        isinstance(vv, ast.BinOp) for y in ast.walk(v) if isinstance(y, ast.Name) and y.id not in params
                        for vv, st2, p2 in reaching_defs(fi.node, y.id, st) if vv != 'param')
                    if computed:
                        n += 1
                        rep.touch(m)
                        rep.ok('F8', fi.qual, f'`{ast.unparse(st)[:60]}`: the computed radicand itself is clamped', m, st)
                    continue
                if not (isinstance(v, ast.BinOp) and isinstance(v.op, (ast.Add, ast.Sub))):
                    continue
                used = {y.id for y in ast.walk(v) if isinstance(y, ast.Name)}
                hit = [p for p in used if p in clamped and clamped[p].lineno < st.lineno]
                if hit:
                    n += 1
                    rep.touch(m)
                    rep.violation('F8', fi.qual, f'`{ast.unparse(c)[:50]}`: `{ast.unparse(st)[:60]}` is computed by rounding arithmetic from `{hit[0]}`, which is clamped as an input '
                                  f'(`{ast.unparse(clamped[hit[0]])[:50]}`) - the radicand itself is not: at the end point of the range it rounds below 0 and sqrt is NaN', m, c)
    rep.count('F8.radicands', n)
    return n


# ------------------------------------------------------------------------------------------------ V3
RULE_V3 = ('V3: a convex-roof model that keeps only the `rank` largest eigenvalues of the target state checks AFTER the truncation that they still sum to '
           'one: checked before the truncation (or not at all) a state of larger rank is silently replaced by a sub-normalised truncation, and the loss '
           'is no longer the value of a decomposition of the given state.')


def v3(proj, rep, modules):
    rep.rule('V3', RULE_V3)
    n = 0
    for fi in proj.iter_functions():
        m = fi.module
        if not _in_scope(m, modules):
            continue
        for blk in [getattr(x, f) for x in ast.walk(fi.node) for f in ('body', 'orelse') if isinstance(getattr(x, f, None), list)]:
            for i, s in enumerate(blk):
                if not (isinstance(s, ast.Assign) and isinstance(s.targets[0], ast.Name)):
                    continue
                nm = s.targets[0].id
                trunc = [x for x in ast.walk(s.value) if isinstance(x, ast.Subscript) and isinstance(x.value, ast.Name) and x.value.id == nm and isinstance(x.slice, ast.Slice)
                         and x.slice.lower is not None and 'rank' in ast.unparse(x.slice.lower)]
                if not trunc:
                    continue
                n += 1
                rep.touch(m)
                later = [a for a in blk[i + 1:] if isinstance(a, ast.Assert) and f'{nm}.sum()' in ast.unparse(a.test).replace(' ', '')]
                if later:
                    rep.ok('V3', fi.qual, f'`{ast.unparse(later[0])[:50]}` after the rank truncation', m, later[0])
                else:
                    rep.violation('V3', fi.qual, f'`{ast.unparse(s)[:60]}`: no `assert abs({nm}.sum()-1) < eps` follows the truncation: a target state of rank above `rank` is '
                                  f'accepted and its discarded weight is lost', m, s)
    rep.count('V3.truncations', n)
    return n


# ------------------------------------------------------------------------------------------------ MC2
RULE_MC2 = ('MC2: no function keeps a hand-rolled memo in a module-level container that it both mutates and reads: such a table is keyed by whatever the '
            'code happens to test (its size, its last argument) rather than by the arguments, so a later call with a different argument can be served a '
            'table built for another one (functools.lru_cache keys by the full argument tuple).')


def mc2(proj, rep, modules=None):
    rep.rule('MC2', RULE_MC2)
    n = 0
    for mq in sorted(proj.modules):
        m = proj.modules[mq]
        if not _in_scope(m, modules):
            continue
        glob = {}
        for s in m.tree.body:
            if isinstance(s, ast.Assign) and len(s.targets) == 1 and isinstance(s.targets[0], ast.Name) and isinstance(s.value, (ast.List, ast.Dict, ast.Set)) \
                    and not (s.value.elts if not isinstance(s.value, ast.Dict) else s.value.keys):
                glob[s.targets[0].id] = s
            if isinstance(s, ast.Assign) and len(s.targets) == 1 and isinstance(s.targets[0], ast.Name) and isinstance(s.value, ast.Call) \
                    and ast.unparse(s.value.func) in ('dict', 'list', 'set', 'collections.OrderedDict') and not s.value.args:
                glob[s.targets[0].id] = s
        n += 1
        if not glob:
            continue
        for fi in [f for f in proj.funcs.values() if f.module is m]:
            local = {a for a in fi.all_params}
            for g, gs in glob.items():
                if g in local:
                    continue
                writes = [x for x in ast.walk(fi.node) if
                          (isinstance(x, ast.Subscript) and isinstance(x.ctx, ast.Store) and isinstance(x.value, ast.Name) and x.value.id == g) or
                          (isinstance(x, ast.Call) and isinstance(x.func, ast.Attribute) and isinstance(x.func.value, ast.Name) and x.func.value.id == g
                           and x.func.attr in ('append', 'update', 'setdefault', 'extend', 'insert', 'add', 'clear', 'pop'))]
                reads = [x for x in ast.walk(fi.node) if isinstance(x, ast.Subscript) and isinstance(x.ctx, ast.Load) and isinstance(x.value, ast.Name) and x.value.id == g]
                if writes and reads:
                    keyed = isinstance(gs.value, (ast.Dict, ast.Call)) and all(
                        {y.id for y in ast.walk(x.slice) if isinstance(y, ast.Name)} and {y.id for y in ast.walk(x.slice) if isinstance(y, ast.Name)} <= local
                        for x in reads)
                    if keyed:
                        continue        # dict memo read back under a key made of the function's own arguments
                    rep.touch(m)
                    w = writes[0]
                    rep.violation('MC2', fi.qual, f'module-level `{g}` is filled (`{ast.unparse(_stmt(w))[:50]}`) and read back (`{ast.unparse(reads[0])[:30]}`) by the same function: a '
                                  f'hand-rolled memo that is not keyed by the arguments', m, w)
    rep.count('MC2.modules', n)
    if n:
        rep.ok('MC2', 'package', f'{n} modules: no function both fills and reads a module-level container', proj.mod('numqi.utils'), proj.mod('numqi.utils').tree,
               text='module memo sweep')
    return n


# ------------------------------------------------------------------------------------------------ DT6
RULE_DT6 = ('DT6: an output buffer that receives angles (arctan2, arccos, angle ...: irrational for integer arguments) does not inherit its dtype from an input: '
            '`np.zeros_like(<parameter or its .real>)` is an integer buffer for an integer-typed input and silently truncates every angle stored into it.')
_FLOAT_FUNCS = {'arctan2', 'arctan', 'arccos', 'arcsin', 'angle', 'atan2', 'acos', 'asin', 'atan'}


def dt6(proj, rep, modules=None):
    rep.rule('DT6', RULE_DT6)
    n = 0
    for fi in proj.iter_functions():
        m = fi.module
        if not _in_scope(m, modules):
            continue
        params = set(fi.all_params)

        def param_plumbing(e, at, depth=0):
            """True when e is a parameter or plumbing (.real / view / subscript / comprehension re-binding) of one"""
            e = numeric._strip(e)
            while isinstance(e, ast.Subscript):
                e = numeric._strip(e.value)
            if not isinstance(e, ast.Name) or depth > 3:
                return False
            defs = reaching_defs(fi.node, e.id, at)
            if not defs:
                return False
            ok = True
            for v, st, p in defs:
                if v == 'param':
                    continue
                if p is not None:
                    # tuple unpacking of `[x.real for x in (params...)]`
                    src = st.value if isinstance(st, ast.Assign) else None
                    if isinstance(src, ast.ListComp) and isinstance(src.elt, ast.Attribute) and src.elt.attr in ('real', 'imag') \
                            and all(isinstance(y, ast.Name) and y.id in params for y in getattr(src.generators[0].iter, 'elts', [None])):
                        continue
                    ok = False
                elif not param_plumbing(v, st, depth + 1):
                    ok = False
            return ok
        for s in ast.walk(fi.node):
            if not (isinstance(s, ast.Assign) and len(s.targets) == 1 and isinstance(s.targets[0], ast.Name) and isinstance(s.value, ast.Call)
                    and ast.unparse(s.value.func).split('.')[-1] in ('zeros_like', 'empty_like', 'ones_like', 'zeros', 'empty', 'ones') and s.value.args):
                continue
            like = ast.unparse(s.value.func).split('.')[-1].endswith('_like')
            dtk = next((k.value for k in s.value.keywords if k.arg == 'dtype'), None)
            buf = s.targets[0].id
            def angle_valued(a):
                exprs = [a.value]
                for y in ast.walk(a.value):
                    if isinstance(y, ast.Name):
                        exprs += [v for v, st, p in reaching_defs(fi.node, y.id, a) if v != 'param' and isinstance(v, ast.AST)]
                return any(isinstance(c, ast.Call) and ast.unparse(c.func).split('.')[-1] in _FLOAT_FUNCS for e in exprs for c in ast.walk(e))
            stores = [a for a in ast.walk(fi.node) if isinstance(a, ast.Assign) and isinstance(a.targets[0], ast.Subscript) and isinstance(a.targets[0].value, ast.Name)
                      and a.targets[0].value.id == buf and a.lineno > s.lineno and angle_valued(a)]
            if not stores:
                continue
            n += 1
            rep.touch(m)
            # the dtype comes from the input either through the template (zeros_like(x)) or through an explicit dtype=x.dtype
            from_input = (like and dtk is None and param_plumbing(s.value.args[0], s)) or (
                isinstance(dtk, ast.Attribute) and dtk.attr == 'dtype' and param_plumbing(dtk.value, s))
            if from_input:
                rep.violation('DT6', fi.qual, f'`{ast.unparse(s)}` takes its dtype from the input, then `{ast.unparse(stores[0])[:60]}` stores real values: for an integer-typed '
                              f'input the results are truncated to integers', m, s)
            else:
                rep.ok('DT6', fi.qual, f'`{ast.unparse(s)}`: template is a computed (float) value', m, s)
    rep.count('DT6.float_buffers', n)
    return n


# ------------------------------------------------------------------------------------------------ DT4
RULE_DT4 = ('DT4: in a function that handles complex data (it conjugates / tests complexness somewhere) a buffer that receives values of the input\'s field (`buf[i] = <item of a sequence derived from the input>`) is not allocated with the default '
            'float64 dtype: `np.empty(shape)` / `np.zeros(shape)` without dtype silently discards the imaginary part of complex items '
            '(ComplexWarning only), where np.stack / np.array keep the item dtype.')


def dt4(proj, rep, modules):
    rep.rule('DT4', RULE_DT4)
    n = 0
    for fi in proj.iter_functions():
        m = fi.module
        if not _in_scope(m, modules):
            continue
        for s in ast.walk(fi.node):
            if not (isinstance(s, ast.Assign) and len(s.targets) == 1 and isinstance(s.targets[0], ast.Name) and isinstance(s.value, ast.Call)
                    and ast.unparse(s.value.func) in ('np.empty', 'np.zeros', 'numpy.empty', 'numpy.zeros')):
                continue
            if any(k.arg == 'dtype' for k in s.value.keywords) or len(s.value.args) >= 2:
                continue
            src = ast.unparse(fi.node)
            if not ('conj' in src or 'complex' in src or '1j' in src):
                continue        # nothing says the function handles complex data
            buf = s.targets[0].id
            # stores of whole items of another sequence: buf[i] = seq[i] / buf[i], other[i] = seq[i]
            for a in ast.walk(fi.node):
                if not (isinstance(a, ast.Assign) and a.lineno > s.lineno):
                    continue
                tg = a.targets[0]
                tgs = tg.elts if isinstance(tg, ast.Tuple) else [tg]
                if not any(isinstance(t, ast.Subscript) and isinstance(t.value, ast.Name) and t.value.id == buf for t in tgs):
                    continue
                v = a.value
                if isinstance(v, ast.Subscript) and isinstance(v.value, ast.Name) and v.value.id != buf and not isinstance(v.slice, ast.Slice):
                    n += 1
                    rep.touch(m)
                    rep.violation('DT4', fi.qual, f'`{ast.unparse(s)[:60]}` is float64 by default; `{ast.unparse(a)[:50]}` copies items of `{v.value.id}` into it: complex items '
                                  f'lose their imaginary part', m, s)
                    break
    rep.count('DT4.copies_into_default_dtype', n)
    return n


# ------------------------------------------------------------------------------------------------ RP1
RULE_RP1 = ('RP1: in a two-party list `[blockA, blockB]` whose blocks are built from role-suffixed parameters (gammaA, thetaA, phiA | gammaB, thetaB, phiB) '
            'the first block uses only A-role names and the second only B-role names (dimension-like names excepted): a B-block that reads one A-role '
            'parameter is a product basis for a different parameter point, and no longer orthogonal / unextendible where the documented one is.')
_ROLE_RE = re.compile(r'^([A-Za-z_]+?)_?(A|B)$')
_DIMLIKE = {'dim', 'd', 'N', 'n', 'num', 'mat', 'matI', 'rank'}


def rp1(proj, rep, func_quals):
    rep.rule('RP1', RULE_RP1)
    n = 0
    for q in func_quals:
        fi = proj.func(q)
        m = fi.module
        rep.touch(m)
        allnames = {x.id for x in ast.walk(fi.node) if isinstance(x, ast.Name)}

        def roles(node):
            out = {'A': set(), 'B': set()}
            for x in ast.walk(node):
                if isinstance(x, ast.Name) and isinstance(x.ctx, ast.Load):
                    mm = _ROLE_RE.match(x.id)
                    if mm and mm.group(1) not in _DIMLIKE and (mm.group(1) + ('B' if mm.group(2) == 'A' else 'A')) in allnames:
                        out[mm.group(2)].add(x.id)
            return out
        for s in ast.walk(fi.node):
            if not (isinstance(s, ast.Assign) and isinstance(s.value, ast.List) and len(s.value.elts) == 2 and all(isinstance(e, ast.Name) for e in s.value.elts)):
                continue
            blocks = []
            for e in s.value.elts:
                defs = [(v, st) for v, st, p in reaching_defs(fi.node, e.id, s) if v != 'param' and p is None]
                blocks.append(defs)
            if not all(len(b) == 1 for b in blocks):
                continue
            ra, rb = roles(blocks[0][0][0]), roles(blocks[1][0][0])
            if not (ra['A'] or ra['B'] or rb['A'] or rb['B']):
                continue
            n += 1
            bad = None
            if ra['B'] and ra['A']:
                bad = (0, sorted(ra['B']), blocks[0][0][1])
            if rb['A'] and rb['B']:
                bad = (1, sorted(rb['A']), blocks[1][0][1])
            if bad:
                rep.violation('RP1', q, f'block {bad[0]} of `{ast.unparse(s)[:40]}` is built from {"A" if bad[0] == 0 else "B"}-role parameters but also reads {bad[1]}: '
                              f'the two parties\' vectors are no longer functions of their own parameters', m, bad[2])
            else:
                rep.ok('RP1', q, f'`{ast.unparse(s)[:40]}`: each block reads only its own party\'s parameters', m, s)
    rep.count('RP1.two_party_lists', n)
    return n


# ------------------------------------------------------------------------------------------------ O3b
RULE_O3B = ('O3B: a public constructor of the named modules does not hand out (directly or through views) the array returned by a memoised helper unless '
            'that helper freezes it: wrapping the cache in a private function moves the shared mutable object one call away, it does not remove it.')


def o3b(proj, rep, modules):
    from .ownership import cached_functions, _VIEW_METHODS
    rep.rule('O3B', RULE_O3B)
    cached = cached_functions(proj)
    n = 0

    def strip(e):
        while True:
            if isinstance(e, ast.Subscript):
                e = e.value
            elif isinstance(e, ast.Attribute) and e.attr in _VIEW_METHODS:
                e = e.value
            elif isinstance(e, ast.Call) and isinstance(e.func, ast.Attribute) and e.func.attr in _VIEW_METHODS:
                e = e.func.value
            else:
                return e
    for mq in modules:
        m = proj.mod(mq)
        rep.touch(m)
        for fi in [f for f in proj.funcs.values() if f.module is m and f.cls is None and not f.qual.rsplit('.', 1)[1].startswith('_')]:
            if fi.qual in cached:
                continue
            for r in ast.walk(fi.node):
                if not (isinstance(r, ast.Return) and r.value is not None):
                    continue
                n += 1
                e = strip(r.value)
                vals = [e]
                if isinstance(e, ast.Name):
                    vals = [strip(v) for v, st, p in reaching_defs(fi.node, e.id, r) if v != 'param' and p is None]
                for v in vals:
                    if not isinstance(v, ast.Call):
                        continue
                    rr = resolve_callee(proj, m, v)
                    if rr.kind == 'func' and rr.qual in cached:
                        src = ast.unparse(rr.node.node).replace(' ', '')
                        if 'flags.writeable=False' in src or 'setflags(write=False)' in src:
                            rep.ok('O3B', fi.qual, f'returns the frozen result of {rr.qual}', m, r)
                        else:
                            rep.violation('O3B', fi.qual, f'`{ast.unparse(r)[:50]}` hands out the result of the memoised `{rr.qual}` ({cached[rr.qual]}) without a copy: every caller '
                                          f'with the same arguments gets the same mutable array', m, r)
    rep.count('O3b.public_returns', n)
    return n


# ------------------------------------------------------------------------------------------------ W8
RULE_W8 = ('W8: a forward trivialization map (`to_*` in numqi.manifold, Module.forward) applies no saturating function (clip / clamp / maximum / minimum / relu / '
           'hardtanh / floor / ceil / round / sign, or the complex sign x/|x| used as a gauge fixing) to a value derived from its parameter: the map would be constant in that coordinate on an open set, so '
           'the Jacobian loses a column at every generic point outside the box and gradient descent cannot leave the face it lands on.')
_SATURATING = {'clip', 'clamp', 'clamp_min', 'clamp_max', 'clamp_', 'clip_', 'maximum', 'minimum', 'fmax', 'fmin', 'relu', 'hardtanh', 'floor', 'ceil', 'round', 'sign',
               'heaviside', 'trunc', 'rint'}


def w8(proj, rep, modules):
    rep.rule('W8', RULE_W8)
    n = 0
    for fi in proj.iter_functions():
        m = fi.module
        if not _in_scope(m, modules):
            continue
        name = fi.qual.rsplit('.', 1)[1]
        if 'theta' in fi.all_params and name.lstrip('_').startswith('to_'):
            seeds = {'theta'}
        elif name == 'forward' and fi.cls is not None:
            seeds = set()
            for x in ast.walk(fi.node):
                if isinstance(x, ast.Attribute) and isinstance(x.value, ast.Name) and x.value.id == 'self' and 'theta' in x.attr:
                    seeds.add('self.' + x.attr)
            if not seeds:
                continue
        else:
            continue
        n += 1
        rep.touch(m)

        def tainted(e, dep):
            meta = set()
            for y in ast.walk(e):
                if isinstance(y, ast.Attribute) and y.attr in ('shape', 'ndim', 'dtype', 'device', 'size'):
                    meta |= {id(z) for z in ast.walk(y.value)}
                if isinstance(y, ast.Call) and isinstance(y.func, ast.Name) and y.func.id in ('len', 'isinstance', 'type'):
                    meta |= {id(z) for a in y.args for z in ast.walk(a)}
            for y in ast.walk(e):
                if id(y) in meta:
                    continue
                if isinstance(y, ast.Name) and y.id in dep:
                    return True
                if isinstance(y, ast.Attribute) and isinstance(y.value, ast.Name) and f'{y.value.id}.{y.attr}' in dep:
                    return True
            return False
        dep = set(seeds)
        changed = True
        while changed:
            changed = False
            for s in ast.walk(fi.node):
                val, tg = None, []
                if isinstance(s, ast.Assign):
                    val = s.value
                    for t in s.targets:
                        tg += list(t.elts) if isinstance(t, ast.Tuple) else [t]
                elif isinstance(s, ast.AugAssign):
                    val, tg = s.value, [s.target]
                elif isinstance(s, (ast.For, ast.comprehension)):
                    val = s.iter
                    tg = list(s.target.elts) if isinstance(s.target, ast.Tuple) else [s.target]
                if val is None or not tainted(val, dep):
                    continue
                for t in tg:
                    while isinstance(t, (ast.Subscript, ast.Starred)):
                        t = t.value
                    for y in ([t] if isinstance(t, ast.Name) else [z for z in ast.walk(t) if isinstance(z, ast.Name)]):
                        if y.id not in dep:
                            dep.add(y.id)
                            changed = True
        bad = None
        for c in ast.walk(fi.node):
            if not (isinstance(c, ast.Call) and isinstance(c.func, ast.Attribute) and c.func.attr in _SATURATING):
                continue
            if isinstance(_stmt(c), ast.Assert):
                continue
            recv_is_lib = isinstance(c.func.value, ast.Name) and c.func.value.id in ('np', 'numpy', 'torch', 'F', 'math')
            operands = list(c.args[:1] if c.func.attr in ('clip', 'clamp', 'clamp_min', 'clamp_max') else c.args) if recv_is_lib else [c.func.value]
            if any(tainted(o, dep) for o in operands):
                bad = c
                break
        if bad is None:
            # exp(-1j*angle(x)) of a parameter-derived value is the same gauge fixing written with the phase angle
            for c in ast.walk(fi.node):
                if isinstance(c, ast.Call) and ast.unparse(c.func).split('.')[-1] == 'angle' and c.args and tainted(c.args[0], dep) and not isinstance(_stmt(c), ast.Assert):
                    bad = ast.BinOp(left=c, op=ast.Div(), right=c)
                    ast.copy_location(bad, c)
                    bad._angle = c
                    break
        if bad is None:
            # the complex sign x/|x| (or conj(x)/|x|) is a saturating function too: a gauge fixing that removes a phase coordinate
            for b in ast.walk(fi.node):
                if isinstance(b, ast.BinOp) and isinstance(b.op, ast.Div) and isinstance(b.right, ast.Call) and ast.unparse(b.right.func).split('.')[-1] in ('abs', 'absolute') \
                        and b.right.args and not isinstance(_stmt(b), ast.Assert):
                    num, _c = _split_conj(b.left)
                    if ast.dump(num) == ast.dump(b.right.args[0]) and tainted(num, dep):
                        bad = b
                        break
        if bad is not None:
            why = 'divides a parameter-derived value by its own modulus (gauge fixing): the map no longer depends on that phase / sign coordinate' if isinstance(bad, ast.BinOp) \
                else 'saturates a value derived from the parameter: outside the box the map does not depend on that coordinate'
            shown = getattr(bad, '_angle', bad)
            if hasattr(bad, '_angle'):
                why = 'takes the phase angle of a parameter-derived value (used to rotate that phase away): the map no longer depends on that phase coordinate'
            rep.violation('W8', fi.qual, f'`{ast.unparse(shown)[:70]}` {why} (zero Jacobian column)', m, shown)
        else:
            rep.ok('W8', fi.qual, 'no saturating function on the parameter path', m, fi.node, text=f'{fi.qual} saturation')
    rep.count('W8.forward_maps', n)
    return n


# ------------------------------------------------------------------------------------------------ DOM1
RULE_DOM1 = ('DOM1: the integer domain that a public function admits through its `assert`s is not narrower than the domain the property quantifies over '
             '(frozen table: smallest admissible value per parameter; the bound is the strongest one met along the chain of numqi callees that receive the parameter as a bare name). '
             'A tightened precondition (`num_qudit > 1` for `>= 1`) turns a documented input into an '
             'AssertionError - or, under `python -O`, into whatever the unguarded code does.')
DOM1_TABLE = {
    'numqi.dicke.get_dicke_basis': {'num_qudit': 1, 'dim': 2},
    'numqi.dicke.get_dicke_klist': {'num_qudit': 1, 'dim': 2},
    'numqi.dicke.get_partial_trace_ABk_to_AB_index': {'num_qudit': 1, 'dim': 2},
}


def _lower_bounds(test, out):
    """collect (param -> smallest admitted integer) from a conjunction of comparisons with integer literals"""
    if isinstance(test, ast.BoolOp) and isinstance(test.op, ast.And):
        for v in test.values:
            _lower_bounds(v, out)
        return
    if isinstance(test, ast.Compare) and len(test.ops) == 1:
        l, op, r = test.left, test.ops[0], test.comparators[0]
        if isinstance(l, ast.Name) and isinstance(r, ast.Constant) and isinstance(r.value, int) and not isinstance(r.value, bool):
            if isinstance(op, ast.Gt):
                out[l.id] = max(out.get(l.id, -10**9), r.value + 1)
            elif isinstance(op, ast.GtE):
                out[l.id] = max(out.get(l.id, -10**9), r.value)
            elif isinstance(op, ast.Eq):
                out[l.id] = max(out.get(l.id, -10**9), r.value)
        elif isinstance(r, ast.Name) and isinstance(l, ast.Constant) and isinstance(l.value, int) and not isinstance(l.value, bool):
            if isinstance(op, ast.Lt):
                out[r.id] = max(out.get(r.id, -10**9), l.value + 1)
            elif isinstance(op, ast.LtE):
                out[r.id] = max(out.get(r.id, -10**9), l.value)


DOM1_TABLE_C05 = {
    'numqi.entangle.symext.is_ABk_symmetric_ext': {'kext': 1},
    'numqi.entangle.symext.get_ABk_symmetric_extension_boundary': {'kext': 1},
    'numqi.group.symext.get_symmetric_extension_irrep_coeff': {'kext': 1, 'dim': 2},
}


def _effective_bounds(proj, fi, depth=0, _seen=None):
    """param -> (smallest admitted integer, the assert that sets it), following bare-name arguments into numqi callees (depth <= 4)"""
    from ..project import bind_call
    _seen = _seen or set()
    lb, why = {}, {}
    for a in [s for s in fi.node.body if isinstance(s, ast.Assert)]:
        tmp = {}
        _lower_bounds(a.test, tmp)
        for k, v in tmp.items():
            if v > lb.get(k, -10**9):
                lb[k], why[k] = v, (fi, a)
    if depth >= 4 or fi.qual in _seen:
        return lb, why
    for c in ast.walk(fi.node):
        if not isinstance(c, ast.Call):
            continue
        r = resolve_callee(proj, fi.module, c)
        callee = r.node if r.kind == 'func' else None
        if callee is None or callee is fi:
            continue
        try:
            b = bind_call(c, callee)
        except Exception:
            continue
        passed = {}
        for p, arg in b.args.items():
            if isinstance(arg, ast.Call) and isinstance(arg.func, ast.Name) and arg.func.id == 'int' and len(arg.args) == 1:
                arg = arg.args[0]
            if isinstance(arg, ast.Name) and arg.id in fi.all_params:
                passed[p] = arg.id
        if not passed:
            continue
        clb, cwhy = _effective_bounds(proj, callee, depth + 1, _seen | {fi.qual})
        for p, mine in passed.items():
            if p in clb and clb[p] > lb.get(mine, -10**9):
                lb[mine], why[mine] = clb[p], cwhy[p]
    return lb, why


def dom1(proj, rep, table=None):
    rep.rule('DOM1', RULE_DOM1)
    n = 0
    for q, want in (table or DOM1_TABLE).items():
        fi = proj.func(q)
        m = fi.module
        rep.touch(m)
        lb, why = _effective_bounds(proj, fi)
        asserts = [s for s in fi.node.body if isinstance(s, ast.Assert)]
        for p, lo in want.items():
            if p not in fi.all_params:
                rep.undecided('DOM1', q, f'parameter `{p}` not found', m, fi.node, text=f'{q}.{p} domain')
                continue
            n += 1
            got = lb.get(p)
            if got is not None and got > lo:
                wfi, a = why[p]
                where = '' if wfi is fi else f' (reached through the call chain, in {wfi.qual})'
                rep.violation('DOM1', q, f'`{ast.unparse(a)[:70]}`{where} admits `{p}` only from {got}; the property quantifies from {lo}: `{p}={lo}` is now rejected',
                              wfi.module, a)
            else:
                rep.ok('DOM1', q, f'`{p}` admitted from {got if got is not None else "-inf"} (needed: {lo})', m, fi.node, text=f'{q}.{p} domain')
    rep.count('DOM1.parameters', n)
    return n


# ------------------------------------------------------------------------------------------------ EX1
RULE_EX1 = ('EX1: exhaustive dispatch: when a function asserts `name in {literals}` and then dispatches on `name` with an if/elif chain of two or more arms '
            '(`name == lit` / `name in {lits}`) that has no `else`, the arms cover every asserted literal; and no arm tests a literal the assert rejects. An '
            'admitted option without an arm leaves the result unbound (UnboundLocalError) or silently skips the work for exactly that option.')


def _lits(e):
    if isinstance(e, (ast.Set, ast.Tuple, ast.List)) and e.elts and all(isinstance(x, ast.Constant) for x in e.elts):
        return {x.value for x in e.elts}
    return None


def _test_vals(t):
    if isinstance(t, ast.Compare) and len(t.ops) == 1:
        l, op, r = t.left, t.ops[0], t.comparators[0]
        if isinstance(op, ast.Eq) and isinstance(r, ast.Constant) and isinstance(r.value, (str, int)) and not isinstance(r.value, bool):
            return ast.unparse(l), {r.value}, 'eq'
        if isinstance(op, ast.In) and _lits(r) is not None:
            return ast.unparse(l), _lits(r), 'in'
    return None


def ex1(proj, rep, modules=None):
    rep.rule('EX1', RULE_EX1)
    n = 0
    for fi in proj.iter_functions():
        m = fi.module
        if not _in_scope(m, modules):
            continue
        fn = fi.node
        if not isinstance(fn, (ast.FunctionDef, ast.AsyncFunctionDef)):
            continue
        # asserted enumerations: top-level asserts of the function body, with their position
        asserted = {}
        for i, s in enumerate(fn.body):
            if isinstance(s, ast.Assert):
                tests = s.test.values if isinstance(s.test, ast.BoolOp) and isinstance(s.test.op, ast.And) else [s.test]
                for t in tests:
                    tv = _test_vals(t)
                    if tv and tv[2] == 'in' and tv[0] not in asserted:
                        asserted[tv[0]] = (tv[1], s)
        if not asserted:
            continue
        seen = set()
        for s in ast.walk(fn):
            if not isinstance(s, ast.If) or id(s) in seen:
                continue
            chain, cur, has_else = [], s, False
            while True:
                seen.add(id(cur))
                chain.append(cur)
                if len(cur.orelse) == 1 and isinstance(cur.orelse[0], ast.If):
                    cur = cur.orelse[0]
                else:
                    has_else = bool(cur.orelse)
                    break
            tvs = [_test_vals(c.test) for c in chain]
            if len(chain) < 2 or any(tv is None for tv in tvs) or len({tv[0] for tv in tvs}) != 1:
                continue
            name = tvs[0][0]
            if name not in asserted or asserted[name][1].lineno > s.lineno:
                continue
            # the dispatched name must not be re-bound between the assert and the chain
            base = name.split('.')[0].split('[')[0]
            rebound = any(isinstance(x, ast.Name) and x.id == base and isinstance(x.ctx, ast.Store) and asserted[name][1].lineno < x.lineno < s.lineno for x in ast.walk(fn))
            if rebound:
                continue
            n += 1
            rep.touch(m)
            want = asserted[name][0]
            covered = set().union(*[tv[1] for tv in tvs])
            missing = want - covered
            extra = covered - want
            if missing and not has_else:
                rep.violation('EX1', fi.qual, f'`{ast.unparse(asserted[name][1])[:60]}` admits {sorted(map(str, missing))} but the dispatch at line {s.lineno} has no arm for it '
                              f'and no else: the option is accepted and then not handled', m, s)
            elif extra:
                arm = next(c for c, tv in zip(chain, tvs) if tv[1] & extra)
                rep.violation('EX1', fi.qual, f'arm `{ast.unparse(arm.test)[:50]}` handles {sorted(map(str, extra))}, which `{ast.unparse(asserted[name][1])[:50]}` rejects: '
                              f'dead arm or stale assert (the two enumerations must agree)', m, arm)
            else:
                rep.ok('EX1', fi.qual, f'dispatch on `{name}` covers {sorted(map(str, want))}', m, s)
    rep.count('EX1.dispatch_chains', n)
    return n


# ------------------------------------------------------------------------------------------------ MC3
RULE_MC3 = ('MC3: who may memoise: the memoised functions of the package are a reviewed, frozen set (24 on the reviewed tree; their alias sites are what O1 / O3 / O5 / '
            'H5 / MC1 check). A function outside that set that is decorated with lru_cache / cache (or keeps a module-level memo) and returns a NumPy / torch '
            'object without freezing it hands one shared mutable object to every caller with equal arguments: an in-place edit of one result silently changes '
            'all later results.')
MC3_REVIEWED = {
    'numqi._torch_op.get_PSDMatrixLogm', 'numqi.entangle.ppt._is_generalized_ppt_dim_list', 'numqi.entangle.symext.get_cvxpy_transpose0213_indexing',
    'numqi.entangle.symext.get_symmetric_extension_index_list', 'numqi.gate._internal._get_quditX_eigen', 'numqi.gate._pauli.get_pauli_group',
    'numqi.gellmann._all_gellmann_matrix_cache', 'numqi.group._lie._get_su2_irrep_get_coeff', 'numqi.group._symmetric._get_hook_length_hf0',
    'numqi.group._symmetric._get_sym_group_num_irrep_hf0', 'numqi.group._symmetric._get_symmetric_group_cayley_table_hf0', 'numqi.group.spf2._get_number_internal',
    'numqi.group.symext._get_symmetric_extension_irrep_coeff_internal', 'numqi.matrix_space._clebsch_gordan._get_clebsch_gordan_coeffient_cache',
    'numqi.matrix_space._hierarchy._permutation_with_antisymmetric_factor_on_int_tuple', 'numqi.matrix_space._hierarchy.get_antisymmetric_basis',
    'numqi.matrix_space._hierarchy.get_antisymmetric_basis_index', 'numqi.matrix_space._hierarchy.get_symmetric_basis',
    'numqi.matrix_space._hierarchy.get_symmetric_basis_index', 'numqi.matrix_space._hierarchy.naive_antisym_sym_projector',
    'numqi.sim.clifford._basic_clifford_dagger_f2', 'numqi.sim.state._measure_quantum_vector_hf0', 'numqi.sim.state._reduce_shape_index_hf0',
    'numqi.utils._hf_num_state_to_num_qubit_hf0',
}
_IMMUTABLE_CALLS = {'int', 'float', 'str', 'bool', 'len', 'tuple', 'frozenset', 'complex', 'round', 'sum', 'max', 'min'}


def _immutable_expr(fn, e, at, depth=0):
    if isinstance(e, ast.Constant):
        return True
    if isinstance(e, ast.Tuple):
        return all(_immutable_expr(fn, x, at, depth) for x in e.elts)
    if isinstance(e, ast.Call) and isinstance(e.func, ast.Name) and e.func.id in _IMMUTABLE_CALLS:
        return True
    if isinstance(e, ast.Call) and isinstance(e.func, ast.Attribute) and e.func.attr in ('item', 'tobytes', 'tolist') and e.func.attr != 'tolist':
        return True
    if isinstance(e, (ast.Compare, ast.BoolOp)):
        return True
    if isinstance(e, ast.IfExp):
        return _immutable_expr(fn, e.body, at, depth) and _immutable_expr(fn, e.orelse, at, depth)
    if isinstance(e, ast.Name) and depth < 3:
        defs = [(v, st) for v, st, p in reaching_defs(fn, e.id, at) if v != 'param' and p is None]
        return bool(defs) and all(_immutable_expr(fn, v, st, depth + 1) for v, st in defs)
    return False


def _returns_package_object(proj, fi, rets):
    """a return value that is an instance of a numqi class, or the result of a numqi function that builds arrays"""
    for r in rets:
        vals = [r.value]
        if isinstance(r.value, ast.Name):
            vals = [v for v, st, p in reaching_defs(fi.node, r.value.id, r) if v != 'param' and isinstance(v, ast.AST)]
        for v in vals:
            # a mutable container is shared between callers just like an array
            if isinstance(v, (ast.Dict, ast.List, ast.Set, ast.ListComp, ast.DictComp, ast.SetComp)):
                return True
            if isinstance(v, ast.Call) and isinstance(v.func, ast.Name) and v.func.id in ('dict', 'list', 'set', 'bytearray'):
                return True
            if isinstance(v, ast.Call):
                rr = resolve_callee(proj, fi.module, v)
                if rr.kind == 'class':
                    return True
                if rr.kind == 'func':
                    src = ast.unparse(rr.node.node)
                    if 'np.' in src or 'torch.' in src:
                        return True
    return False


def mc3(proj, rep, modules=None):
    from .ownership import cached_functions
    rep.rule('MC3', RULE_MC3)
    cached = cached_functions(proj)
    n = 0
    for q, how in sorted(cached.items()):
        fi = proj.func(q)
        m = fi.module
        if not _in_scope(m, modules):
            continue
        n += 1
        rep.touch(m)
        if q in MC3_REVIEWED:
            rep.ok('MC3', q, f'reviewed memo ({how[:40]})', m, fi.node, text=f'{q} memo')
            continue
        src = ast.unparse(fi.node).replace(' ', '')
        if 'flags.writeable=False' in src or 'setflags(write=False)' in src:
            rep.ok('MC3', q, 'new memo, result frozen', m, fi.node, text=f'{q} memo')
            continue
        rets = [r for r in ast.walk(fi.node) if isinstance(r, ast.Return) and r.value is not None]
        if rets and all(_immutable_expr(fi.node, r.value, r) for r in rets):
            rep.ok('MC3', q, 'new memo of an immutable value', m, fi.node, text=f'{q} memo')
        elif 'np.' in src or 'torch.' in src or 'numpy.' in src or _returns_package_object(proj, fi, rets):
            rep.violation('MC3', q, f'not in the reviewed set of memoised functions, decorated `{how[:40]}`, returns an array-valued / mutable object unfrozen '
                          f'(`{ast.unparse(rets[0])[:40] if rets else "?"}`): all callers with equal arguments share one mutable object', m, fi.node, text=f'{q} memo')
        else:
            rep.ok('MC3', q, 'new memo; no array evidence in the body', m, fi.node, text=f'{q} memo')
    # the reviewed names must still exist (a renamed cache is re-reviewed, not silently dropped)
    rep.count('MC3.memoised_functions', n)
    return n


# ------------------------------------------------------------------------------------------------ PR1 / E6
RULE_PR1 = ('PR1: integer bit weights (`1 << arange(k)`, `2 ** arange(k)`) and the index they build stay in integer arithmetic: a cast to a floating dtype '
            '(`astype(np.float64)` for a BLAS matmul) keeps 53 bits, so every index of 2^53 and above (27 qubits) is rounded and the conversion is no longer '
            'injective.')
RULE_E6 = ('E6: the number of qubits of a batch of Pauli strings is the length of its strings (`len(x[0])`), never the storage width of the unicode dtype '
           '(`dtype.itemsize`): an array allocated wider than its strings (dtype U8 holding "XZ") is NUL padded, and the padding would be read as trailing '
           'identity letters.')


def pr1_e6(proj, rep, modules):
    rep.rule('PR1', RULE_PR1)
    rep.rule('E6', RULE_E6)
    n = n6 = 0

    def is_weights(e):
        return any(isinstance(b, ast.BinOp) and ((isinstance(b.op, ast.LShift) and isinstance(b.left, ast.Constant) and b.left.value == 1) or
                                                 (isinstance(b.op, ast.Pow) and isinstance(b.left, ast.Constant) and b.left.value in (2, 4)))
                   and any(isinstance(c, ast.Call) and ast.unparse(c.func).endswith('arange') for c in ast.walk(b.right)) for b in ast.walk(e))
    for fi in proj.iter_functions():
        m = fi.module
        if not _in_scope(m, modules):
            continue
        wnames = {}
        for s in ast.walk(fi.node):
            if isinstance(s, ast.Assign) and isinstance(s.targets[0], ast.Name) and is_weights(s.value):
                wnames[s.targets[0].id] = s
        for s in ast.walk(fi.node):
            if isinstance(s, ast.Assign) and is_weights(s.value) or (isinstance(s, ast.Expr) and is_weights(s.value)):
                n += 1
                rep.touch(m)
                fl = [c for c in ast.walk(s.value) if isinstance(c, ast.Call) and isinstance(c.func, ast.Attribute) and c.func.attr == 'astype' and c.args
                      and 'float' in ast.unparse(c.args[0])]
                fl += [k for c in ast.walk(s.value) if isinstance(c, ast.Call) for k in c.keywords if k.arg == 'dtype' and 'float' in ast.unparse(k.value)]
                if fl:
                    rep.violation('PR1', fi.qual, f'`{ast.unparse(s)[:80]}`: the bit weights are cast to a floating dtype; indices from 2^53 on are rounded', m, s)
                else:
                    rep.ok('PR1', fi.qual, f'`{ast.unparse(s)[:50]}` integer bit weights', m, s)
        # weights used later through a float cast
        for c in ast.walk(fi.node):
            if isinstance(c, ast.Call) and isinstance(c.func, ast.Attribute) and c.func.attr == 'astype' and c.args and 'float' in ast.unparse(c.args[0]) \
                    and isinstance(c.func.value, ast.Name) and c.func.value.id in wnames:
                rep.violation('PR1', fi.qual, f'`{ast.unparse(c)[:60]}`: the bit weights `{c.func.value.id}` are cast to a floating dtype; indices from 2^53 on are rounded', m, c)
        # E6
        unicode_fn = any(isinstance(x, ast.Compare) and "kind=='U'" in ast.unparse(x).replace(' ', '').replace('"', "'") for x in ast.walk(fi.node))
        if unicode_fn:
            n6 += 1
            rep.touch(m)
            hits = [x for x in ast.walk(fi.node) if isinstance(x, ast.Attribute) and x.attr == 'itemsize']
            if hits:
                rep.violation('E6', fi.qual, f'`{ast.unparse(_stmt(hits[0]))[:70]}` reads the storage width of the unicode dtype: NUL padding of a wider array is counted as '
                              f'qubits (every index is multiplied by 4^(width-n))', m, hits[0])
            else:
                rep.ok('E6', fi.qual, 'string length taken from the strings, not from the dtype width', m, fi.node, text=f'{fi.qual} unicode width')
    rep.count('PR1.bit_weight_sites', n)
    rep.count('E6.unicode_batch_functions', n6)
    return n, n6


# ------------------------------------------------------------------------------------------------ D6 / NR1 / PG1
RULE_D6 = ('D6: the sweep over the gate list dispatches EVERY gate: a loop over `gate_index_list` in the simulator contains no `continue` / `break` that skips a gate '
           'on anything but its kind / name ("identity at zero angle" holds for the built-in rotations, not for a user-registered parameter gate).')
RULE_NR1 = ('NR1: the simulator primitives `apply_*` are linear maps of the state: their result is never divided by a trace / norm computed from the data '
            '(re-normalising K rho K^dagger erases the outcome probability of a Kraus operator or projector and is a no-op only for unitaries).')
RULE_PG1 = ('PG1: gate parameters are never reduced modulo 2 pi in the simulator / gate modules: spinor rotations are 4 pi periodic, R(theta - 2 pi) = -R(theta), '
            'which is a relative phase as soon as the gate is controlled.')


NR1_EXTRA = ('numqi.dicke.partial_trace_ABk_to_AB', 'numqi.utils.partial_trace')


def nr1_extra(proj, rep, quals=NR1_EXTRA):
    """NR1 for the reduction maps: a partial trace is linear in its argument"""
    rep.rule('NR1', RULE_NR1)
    n = 0
    for q in quals:
        fi = proj.func(q)
        m = fi.module
        rep.touch(m)
        n += 1
        bad = None
        for b in ast.walk(fi.node):
            if isinstance(b, (ast.BinOp, ast.AugAssign)) and isinstance(b.op, ast.Div):
                den = b.right if isinstance(b, ast.BinOp) else b.value
                if any(isinstance(c, ast.Call) and ast.unparse(c.func).split('.')[-1] in ('trace', 'norm', 'vdot') for c in ast.walk(den)):
                    bad = b
        if bad is not None:
            rep.violation('NR1', q, f'`{ast.unparse(bad)[:70]}` re-normalises the reduced operator by a data-dependent trace / norm: the map is no longer the (linear) '
                          f'partial trace - for a vector of norm c the result is off by the factor c^2', m, bad)
        else:
            rep.ok('NR1', q, 'reduction not re-normalised', m, fi.node, text=f'{q} linearity')
    return n


RULE_MR2 = ('MR2: an integer key `t @ (R ** arange(L))` for tuples t of length L uses a radix R larger than every entry: level strings (length num_qudit, entries < dim) '
            'take R = dim; occupation tuples (length dim, entries <= num_qudit) need R >= num_qudit + 1. With R = dim two occupation tuples collide as soon as an '
            'occupation reaches dim (e.g. (0,4,0) and (1,0,3) for dim = 3).')


def mr2(proj, rep, modules=('numqi.dicke',)):
    rep.rule('MR2', RULE_MR2)
    n = 0
    for fi in proj.iter_functions():
        m = fi.module
        if not _in_scope(m, list(modules)):
            continue
        for b in ast.walk(fi.node):
            if not (isinstance(b, ast.BinOp) and isinstance(b.op, ast.Pow)):
                continue
            ar = [c for c in ast.walk(b.right) if isinstance(c, ast.Call) and ast.unparse(c.func).endswith('arange') and c.args]
            if not ar:
                continue
            R, L = ast.unparse(b.left).replace(' ', ''), ast.unparse(ar[0].args[0]).replace(' ', '')
            if R not in ('dim', 'num_qudit', 'num_qudit+1', '(num_qudit+1)') or L not in ('dim', 'num_qudit'):
                continue
            n += 1
            rep.touch(m)
            if L == 'dim' and R == 'dim':
                rep.violation('MR2', fi.qual, f'`{ast.unparse(b)[:50]}`: keys for length-dim tuples (occupation numbers, up to num_qudit) are built with radix dim: tuples collide as soon '
                              f'as an occupation number reaches dim', m, b)
            elif L == 'num_qudit' and R.startswith('num_qudit') or L == 'num_qudit' and R == 'dim' or L == 'dim':
                rep.ok('MR2', fi.qual, f'`{ast.unparse(b)[:50]}` radix bounds the entries', m, b)
    rep.count('MR2.radix_keys', n)
    return n


def sim_sweeps(proj, rep, modules=('numqi.sim', 'numqi.gate')):
    for k, v in (('D6', RULE_D6), ('NR1', RULE_NR1), ('PG1', RULE_PG1)):
        rep.rule(k, v)
    nloop = napply = nfun = 0
    for fi in proj.iter_functions():
        m = fi.module
        if not _in_scope(m, list(modules)):
            continue
        nfun += 1
        fname = fi.qual.rsplit('.', 1)[1]
        # D6
        for lp in ast.walk(fi.node):
            if isinstance(lp, ast.For) and 'gate_index_list' in ast.unparse(lp.iter) and not isinstance(lp.iter, ast.Call) or \
                    (isinstance(lp, ast.For) and isinstance(lp.iter, ast.Call) and 'gate_index_list' in ast.unparse(lp.iter)
                     and ast.unparse(lp.iter.func) in ('enumerate', 'reversed', 'zip', 'list')):
                if not any(isinstance(x, ast.Call) for s in lp.body for x in ast.walk(s)):
                    continue
                nloop += 1
                rep.touch(m)
                skips = [x for s in lp.body for x in ast.walk(s) if isinstance(x, (ast.Continue, ast.Break))
                         and not any(isinstance(p, (ast.For, ast.While)) and p is not lp for p in _ancestors(x, lp))]
                # a skip decided by the gate's kind / name alone (string literals) is structural: "no arm for this kind", not "this gate does nothing"
                def structural(g):
                    cond = next((p for p in _ancestors(g, lp) if isinstance(p, ast.If)), None)
                    if cond is None:
                        return False
                    for y in ast.walk(cond.test):
                        if isinstance(y, ast.Call):
                            return False
                        if isinstance(y, ast.Name) and not (isinstance(getattr(y, '_parent', None), ast.Attribute) and y._parent.attr in ('kind', 'name')):
                            return False
                    return True
                skips = [g for g in skips if not structural(g)]
                if skips:
                    g = skips[0]
                    cond = next((p for p in _ancestors(g, lp) if isinstance(p, ast.If)), None)
                    rep.violation('D6', fi.qual, f'`{ast.unparse(cond.test)[:70] if cond is not None else "unconditional"}` -> `{"continue" if isinstance(g, ast.Continue) else "break"}` '
                                  f'inside the sweep over the gate list: the gates it matches are never applied', m, g)
                else:
                    rep.ok('D6', fi.qual, f'sweep at line {lp.lineno} dispatches every gate', m, lp)
        # NR1
        if fname.startswith('apply_') and fi.cls is None:
            napply += 1
            rep.touch(m)
            bad = None
            for b in ast.walk(fi.node):
                if isinstance(b, (ast.BinOp, ast.AugAssign)) and isinstance(b.op, ast.Div):
                    den = b.right if isinstance(b, ast.BinOp) else b.value
                    if any(isinstance(c, ast.Call) and ast.unparse(c.func).split('.')[-1] in ('trace', 'norm', 'vdot') for c in ast.walk(den)):
                        bad = b
            if bad is not None:
                rep.violation('NR1', fi.qual, f'`{ast.unparse(bad)[:70]}` re-normalises the result by a data-dependent trace / norm: for a non-unitary operator the returned state is '
                              f'K rho K^dagger / Tr(..), not K rho K^dagger', m, bad)
            else:
                rep.ok('NR1', fi.qual, 'result not re-normalised', m, fi.node, text=f'{fi.qual} linearity')
        # PG1
        for b in ast.walk(fi.node):
            two_pi = None
            if isinstance(b, ast.BinOp) and isinstance(b.op, ast.Mod):
                two_pi = b.right
            elif isinstance(b, ast.Call) and ast.unparse(b.func).split('.')[-1] in ('mod', 'remainder', 'fmod') and len(b.args) == 2:
                two_pi = b.args[1]
            if two_pi is not None and 'pi' in ast.unparse(two_pi):
                rep.touch(m)
                rep.violation('PG1', fi.qual, f'`{ast.unparse(b)[:60]}` wraps an angle modulo a multiple of pi: a rotation by theta and by theta - 2 pi differ by the sign -1', m, b)
    rep.count('D6.gate_sweeps', nloop)
    rep.count('NR1.apply_primitives', napply)
    rep.count('PG1.functions_scanned', nfun)
    if nfun:
        rep.ok('PG1', 'numqi.sim + numqi.gate', f'{nfun} functions scanned: no angle is reduced modulo 2 pi', proj.mod('numqi.sim.circuit'), proj.mod('numqi.sim.circuit').tree,
               text='angle wrap sweep')
    return nloop, napply, nfun


def _ancestors(node, stop):
    out = []
    while node is not stop and hasattr(node, '_parent'):
        node = node._parent
        out.append(node)
    return out


# ------------------------------------------------------------------------------------------------ AX1 / SM1 / SINC1 / VM1
RULE_AX1 = ('AX1: an array that was given an open batch shape (`x.reshape(*shape[:-1], d, r)`: any number of leading batch axes) is reduced along NEGATIVE axes: '
            '`norm(x, axis=1)` addresses the matrix row axis only for exactly one batch axis, and a batch axis or the column axis for every other batch shape.')
RULE_SM1 = ('SM1: a hand-written overflow-safe softmax `exp(x - x.max(..)) / sum(axis=a)` takes the maximum along the axis of the normalising sum (keepdims): '
            'the maximum of the whole array makes every sample that lies ~745 (float64) / ~88 (float32) below the global maximum underflow to 0/0.')
RULE_SINC1 = ('SINC1: `sin(r)/r` with the same `r` in numerator and denominator is evaluated through a guarded form (np.sinc, where(r>eps, .., series)): the literal '
              'quotient is NaN at r = 0 - the identity element / zero parameter vector.')
RULE_VM1 = ('VM1: in the simulator an operator acts from the left: `op @ vec`. A flattened state on the left of `@` (`vec.reshape(-1) @ op`) applies the '
            'TRANSPOSE of the operator: identical for symmetric gates (X, Z, H), the wrong sign for Y and wrong for every non-symmetric gate.')


def ax1_sm1_sinc1_vm1(proj, rep, modules=None):
    for k, v in (('AX1', RULE_AX1), ('SM1', RULE_SM1), ('SINC1', RULE_SINC1), ('VM1', RULE_VM1)):
        rep.rule(k, v)
    nopen = nfun = 0
    for fi in proj.iter_functions():
        m = fi.module
        if not _in_scope(m, modules):
            continue
        nfun += 1
        params = set(fi.all_params)
        # ---- AX1: open-rank names
        open_names = {}
        for s in ast.walk(fi.node):
            if isinstance(s, ast.Assign) and len(s.targets) == 1 and isinstance(s.targets[0], ast.Name) and isinstance(s.value, ast.Call) \
                    and isinstance(s.value.func, ast.Attribute) and s.value.func.attr in ('reshape', 'view'):
                txt = ast.unparse(s.value).replace(' ', '')
                if '[:-1]' in txt or '[:-2]' in txt:
                    open_names[s.targets[0].id] = s
        if open_names:
            for c in ast.walk(fi.node):
                if not (isinstance(c, ast.Call) and c.args and isinstance(c.args[0], ast.Name) and c.args[0].id in open_names):
                    continue
                fname = ast.unparse(c.func).split('.')[-1]
                if fname not in ('norm', 'sum', 'mean', 'max', 'min', 'prod', 'cumsum', 'cumprod', 'softmax', 'logsumexp', 'trace', 'diagonal'):
                    continue
                if c.lineno < open_names[c.args[0].id].lineno:
                    continue
                # the open-rank binding must be the one that reaches the call
                rd = [st for v, st, p in reaching_defs(fi.node, c.args[0].id, c) if v != 'param']
                if open_names[c.args[0].id] not in rd:
                    continue
                ax = [k.value for k in c.keywords if k.arg in ('axis', 'dim', 'axis1', 'axis2', 'dim1', 'dim2')]
                for a in ax:
                    vals = [a] if not isinstance(a, ast.Tuple) else list(a.elts)
                    for v in vals:
                        if isinstance(v, ast.Constant) and isinstance(v.value, int) and not isinstance(v.value, bool):
                            nopen += 1
                            rep.touch(m)
                            if v.value >= 0:
                                rep.violation('AX1', fi.qual, f'`{ast.unparse(c)[:70]}`: `{c.args[0].id}` has an open batch shape (`{ast.unparse(open_names[c.args[0].id])[:50]}`); the '
                                              f'positive axis {v.value} is the intended matrix axis only for one particular number of batch axes', m, c)
                            else:
                                rep.ok('AX1', fi.qual, f'`{ast.unparse(c)[:50]}` reduces a negative axis of an open-rank array', m, c)
        for b in ast.walk(fi.node):
            # ---- SINC1
            if isinstance(b, ast.BinOp) and isinstance(b.op, ast.Div) and isinstance(b.left, ast.Call) and ast.unparse(b.left.func).split('.')[-1] == 'sin' \
                    and b.left.args and ast.dump(b.left.args[0]) == ast.dump(b.right):
                guarded = any(isinstance(p, ast.Call) and ast.unparse(p.func).split('.')[-1] == 'where' for p in _ancestors(b, fi.node))
                if not guarded:
                    rep.touch(m)
                    rep.violation('SINC1', fi.qual, f'`{ast.unparse(b)[:50]}`: 0/0 = NaN when `{ast.unparse(b.right)[:20]}` is exactly zero (identity element / zero parameters)', m, b)
            # ---- SM1
            if isinstance(b, ast.Call) and ast.unparse(b.func).split('.')[-1] == 'exp' and b.args and isinstance(b.args[0], ast.BinOp) and isinstance(b.args[0].op, ast.Sub):
                sub = b.args[0]
                r = sub.right
                if isinstance(r, ast.Call) and isinstance(r.func, ast.Attribute) and r.func.attr in ('max', 'amax') and ast.dump(r.func.value) == ast.dump(sub.left):
                    has_axis = any(k.arg in ('axis', 'dim') and not (isinstance(k.value, ast.Constant) and k.value.value is None) for k in r.keywords) or bool(r.args)
                    sums = [c for c in ast.walk(fi.node) if isinstance(c, ast.Call) and isinstance(c.func, ast.Attribute) and c.func.attr == 'sum'
                            and any(k.arg in ('axis', 'dim') for k in c.keywords)]
                    if not has_axis and sums:
                        rep.touch(m)
                        rep.violation('SM1', fi.qual, f'`{ast.unparse(b)[:60]}` shifts by the maximum of the WHOLE array while `{ast.unparse(sums[0])[:40]}` normalises per sample: a '
                                      f'sample far below the global maximum underflows to 0/0', m, b)
            # ---- VM1
            if isinstance(b, ast.BinOp) and isinstance(b.op, ast.MatMult) and isinstance(b.right, ast.Name) and b.right.id in params \
                    and b.right.id in ('op', 'gate', 'array', 'operator', 'U', 'mat', 'matrix', 'unitary'):
                l = b.left
                flat = isinstance(l, ast.Call) and isinstance(l.func, ast.Attribute) and l.func.attr in ('reshape', 'ravel', 'flatten', 'view') \
                    and (l.func.attr != 'reshape' or (len(l.args) == 1 and ast.unparse(l.args[0]).replace(' ', '') == '-1'))
                if flat:
                    rep.touch(m)
                    rep.violation('VM1', fi.qual, f'`{ast.unparse(b)[:60]}`: vector @ operator applies `{b.right.id}`.T to the state', m, b)
    rep.count('AX1.open_rank_reductions', nopen)
    rep.count('NUM.functions_scanned', nfun)
    if nfun:
        rep.ok('SINC1', 'scope', f'{nfun} functions scanned: no literal sin(r)/r, no whole-array softmax shift, no vector @ operator', proj.mod('numqi.utils'),
               proj.mod('numqi.utils').tree, text='sinc / softmax / vecmat sweep')
    return nopen, nfun


# ------------------------------------------------------------------------------------------------ A10 / A11 / AL3
RULE_A10 = ('A10: forward / backward of a torch.autograd.Function keep per-call data in `ctx` only: they never store into an object reached through another argument '
            '(`info = table[i]; info[k] = v`, `arg.append(..)`). Such an object is shared by every call that uses the same wrapper, so the backward pass of an earlier '
            'forward would read what a later forward wrote (two forwards, then backward: gradients taken with the wrong gate matrices).')
RULE_A11 = ('A11: in a backward primitive (`*_grad`) the set of operator entries that receive a gradient never depends on the current VALUE of the operator: no branch '
            'tests the numeric content of `op` (count_nonzero / allclose / all / any / array_equal ...). A gate that is diagonal at the current point (rx(0), u3(0,..)) '
            'still has non-zero derivatives in its off-diagonal entries.')
RULE_AL3 = ('AL3: a memo key kept between calls is a COPY of the argument: `last = np.asarray(theta)` keeps the caller\'s array itself, so after an in-place update '
            '`array_equal(last, theta)` compares the array with itself and the stale value is served.')
_MUTATORS = {'append', 'extend', 'update', 'setdefault', 'pop', 'clear', 'insert', 'remove', 'add', 'fill', 'copy_', 'zero_'}
_NO_COPY = {'asarray', 'asanyarray', 'ascontiguousarray', 'atleast_1d', 'reshape', 'ravel', 'view', 'squeeze', 'detach'}


def a10(proj, rep):
    rep.rule('A10', RULE_A10)
    n = 0
    for cq, ci in sorted(proj.classes.items()):
        bases = [ast.unparse(b) for b in ci.node.bases]
        if not any(b.endswith('autograd.Function') or b == 'Function' for b in bases):
            continue
        m = ci.module
        rep.touch(m)
        for name in ('forward', 'backward'):
            fi = ci.methods.get(name)
            if fi is None:
                continue
            n += 1
            params = [p for p in fi.all_params if p != 'ctx']
            if fi.node.args.vararg is not None:
                params.append(fi.node.args.vararg.arg)
            alias = {p: p for p in params}
            changed = True
            while changed:
                changed = False
                for s in ast.walk(fi.node):
                    tg, val = [], None
                    if isinstance(s, ast.Assign) and len(s.targets) == 1:
                        tg = [s.targets[0]] if isinstance(s.targets[0], ast.Name) else (list(s.targets[0].elts) if isinstance(s.targets[0], ast.Tuple) else [])
                        val = s.value
                    elif isinstance(s, ast.For):
                        tg = [s.target] if isinstance(s.target, ast.Name) else (list(s.target.elts) if isinstance(s.target, ast.Tuple) else [])
                        val = s.iter
                    if val is None:
                        continue
                    a = _container_alias(val, alias)
                    if a is None:
                        continue
                    for t in tg:
                        if isinstance(t, ast.Name) and t.id not in alias:
                            alias[t.id] = a
                            changed = True
            bad = None
            for s in ast.walk(fi.node):
                base = None
                if isinstance(s, (ast.Assign, ast.AugAssign)):
                    t = s.targets[0] if isinstance(s, ast.Assign) else s.target
                    if isinstance(t, (ast.Subscript, ast.Attribute)):
                        b = t
                        while isinstance(b, (ast.Subscript, ast.Attribute)):
                            b = b.value
                        base = b
                elif isinstance(s, ast.Expr) and isinstance(s.value, ast.Call) and isinstance(s.value.func, ast.Attribute) and s.value.func.attr in _MUTATORS:
                    b = s.value.func.value
                    while isinstance(b, (ast.Subscript, ast.Attribute)):
                        b = b.value
                    base = b
                if isinstance(base, ast.Name) and base.id in alias and bad is None:
                    # a name that is re-bound to a fresh container on every path is local
                    fresh = [x for x in ast.walk(fi.node) if isinstance(x, ast.Assign) and any(isinstance(t, ast.Name) and t.id == base.id for t in x.targets)
                             and _container_alias(x.value, alias) is None]
                    if fresh and base.id not in params:
                        continue
                    bad = (s, alias[base.id])
            if bad:
                rep.violation('A10', f'{cq}.{name}', f'`{ast.unparse(bad[0])[:70]}` stores into an object reached through the argument `{bad[1]}`: state shared between calls, '
                              f'read later by the backward pass of an earlier forward', m, bad[0])
            else:
                rep.ok('A10', f'{cq}.{name}', 'writes only to ctx and to locally created objects', m, fi.node, text=f'{cq}.{name} call-local state')
    rep.count('A10.autograd_methods', n)
    return n


def _container_alias(e, alias):
    """parameter that expression e may be (an element of): p, p[i], p.get(k), p.values(), p.items(), p[i][j] ..."""
    while True:
        if isinstance(e, ast.Name):
            return alias.get(e.id)
        if isinstance(e, ast.Subscript):
            e = e.value
        elif isinstance(e, ast.Call) and isinstance(e.func, ast.Attribute) and e.func.attr in ('get', 'values', 'items', '__getitem__'):
            e = e.func.value
        elif isinstance(e, ast.Call) and isinstance(e.func, ast.Name) and e.func.id in ('reversed', 'enumerate', 'iter', 'sorted', 'list', 'zip') and e.args \
                and e.func.id in ('reversed', 'enumerate', 'iter', 'zip'):
            e = e.args[-1] if e.func.id == 'enumerate' else e.args[0]
        else:
            return None


_VALUE_TESTS = {'count_nonzero', 'allclose', 'all', 'any', 'array_equal', 'isclose', 'nonzero', 'diagonal', 'diag', 'norm', 'max', 'abs'}


def a11(proj, rep, modules=('numqi.sim.state', 'numqi.sim.dm', 'numqi.sim._torch_utils')):
    rep.rule('A11', RULE_A11)
    n = 0
    for fi in proj.iter_functions():
        m = fi.module
        if not _in_scope(m, list(modules)):
            continue
        fname = fi.qual.rsplit('.', 1)[1]
        if not fname.endswith('_grad'):
            continue
        ops = [p for p in fi.all_params if p in ('op', 'array', 'gate', 'operator', 'kop')]
        if not ops:
            continue
        n += 1
        rep.touch(m)
        bad = None
        for g in ast.walk(fi.node):
            if isinstance(g, (ast.If, ast.IfExp)):
                t = g.test
                names = {y.id for y in ast.walk(t) if isinstance(y, ast.Name)}
                value_call = any(isinstance(c, ast.Call) and ast.unparse(c.func).split('.')[-1] in _VALUE_TESTS for c in ast.walk(t))
                # shape / ndim / None tests are structural, not value tests
                struct = all(isinstance(p, ast.Attribute) and p.attr in ('shape', 'ndim', 'dtype') for y in ast.walk(t) if isinstance(y, ast.Name) and y.id in ops
                             for p in [getattr(y, '_parent', None)])
                if names & set(ops) and value_call and not struct:
                    bad = g
        if bad is not None:
            rep.violation('A11', fi.qual, f'`{ast.unparse(bad.test)[:70]}` selects the gradient formula by the current value of the operator: entries that vanish at this point '
                          f'(not identically) get no gradient', m, bad)
        else:
            rep.ok('A11', fi.qual, 'gradient structure does not depend on the value of the operator', m, fi.node, text=f'{fi.qual} value-independent structure')
    rep.count('A11.backward_primitives', n)
    return n


def al3(proj, rep, modules=None):
    rep.rule('AL3', RULE_AL3)
    n = 0

    class _F:      # nested functions (closures returned by factories) are functions too
        pass
    fis = []
    for mq in sorted(proj.modules):
        m = proj.modules[mq]
        if not _in_scope(m, modules):
            continue
        for node in ast.walk(m.tree):
            if isinstance(node, (ast.FunctionDef, ast.AsyncFunctionDef)):
                f = _F()
                f.node, f.module = node, m
                f.qual = f'{m.name}.{node.name}' + (f'@{node.lineno}' if not isinstance(getattr(node, '_parent', None), (ast.Module, ast.ClassDef)) else '')
                f.all_params = [a.arg for a in node.args.posonlyargs + node.args.args + node.args.kwonlyargs]
                fis.append(f)
    for fi in fis:
        m = fi.module
        params = set(fi.all_params)
        # comparisons array_equal(STATE, p) / (STATE == p).all()
        cmps = []
        for c in ast.walk(fi.node):
            if isinstance(c, ast.Call) and ast.unparse(c.func).split('.')[-1] in ('array_equal', 'allclose', 'equal') and len(c.args) >= 2:
                for a, b in ((c.args[0], c.args[1]), (c.args[1], c.args[0])):
                    if isinstance(b, ast.Name) and b.id in params and not (isinstance(a, ast.Name) and a.id in params):
                        cmps.append((c, a, b.id))
        if not cmps:
            continue
        for c, state, p in cmps:
            key = ast.unparse(state)
            # where is that state stored?
            base = state
            while isinstance(base, (ast.Subscript, ast.Attribute)):
                base = base.value
            if not isinstance(base, ast.Name):
                continue
            stores = []
            for s in ast.walk(fi.node):
                if isinstance(s, ast.Assign) and ast.unparse(s.targets[0]) == key:
                    stores.append(s.value)
                if isinstance(s, ast.Call) and isinstance(s.func, ast.Attribute) and s.func.attr == 'update' and isinstance(s.func.value, ast.Name) \
                        and s.func.value.id == base.id and isinstance(state, ast.Subscript) and isinstance(state.slice, ast.Constant):
                    stores += [k.value for k in s.keywords if k.arg == state.slice.value]
            for v in stores:
                n += 1
                rep.touch(m)
                e = v
                while isinstance(e, ast.Call) and ast.unparse(e.func).split('.')[-1] in _NO_COPY and (e.args or isinstance(e.func, ast.Attribute)):
                    e = e.args[0] if (isinstance(e.func, ast.Attribute) and isinstance(e.func.value, ast.Name) and e.func.value.id in ('np', 'numpy', 'torch') and e.args) \
                        else e.func.value
                if isinstance(e, ast.Name) and e.id == p:
                    rep.violation('AL3', fi.qual, f'`{key} = {ast.unparse(v)[:40]}` keeps the caller\'s array itself (no copy) and `{ast.unparse(c)[:50]}` later compares it with the '
                                  f'argument: after an in-place update both are the same object, the stale result is returned', m, c)
                else:
                    rep.ok('AL3', fi.qual, f'`{key}` stored as `{ast.unparse(v)[:40]}`', m, c)
    rep.count('AL3.memo_keys', n)
    return n



# ------------------------------------------------------------------------------------------------ DT7
RULE_DT7 = ('DT7: an array that is complex on some path of the function (it is assigned an expression with a `1j` term, or built by torch.complex / a complex dtype) is '
            'never cast to a real floating dtype (`astype(np.float32)`, `.to(torch.float32)`, `.float()`, `.double()`): the cast discards the imaginary part with '
            'at most a warning. (Taking `.real` says so explicitly and is not reported.)')
_REAL_DT = ('float16', 'float32', 'float64', 'float_', 'double', 'half', 'float')


def dt7(proj, rep, modules=None):
    rep.rule('DT7', RULE_DT7)
    n = 0
    for fi in proj.iter_functions():
        m = fi.module
        if not _in_scope(m, modules):
            continue
        cx = set()
        for s in ast.walk(fi.node):
            if isinstance(s, ast.Assign) and isinstance(s.targets[0], ast.Name):
                t = ast.unparse(s.value).replace(' ', '')
                if '1j*' in t or '*1j' in t or 'torch.complex(' in t or 'complex128' in t or 'complex64' in t:
                    cx.add(s.targets[0].id)
        if not cx:
            continue
        for c in ast.walk(fi.node):
            if not (isinstance(c, ast.Call) and isinstance(c.func, ast.Attribute) and isinstance(c.func.value, ast.Name) and c.func.value.id in cx):
                continue
            real_cast = False
            if c.func.attr in ('astype', 'to', 'type') and c.args and any(ast.unparse(c.args[0]).endswith('.' + d) or ast.unparse(c.args[0]) == d for d in _REAL_DT):
                real_cast = True
            if c.func.attr in ('float', 'double', 'half') and not c.args:
                real_cast = True
            if c.func.attr in ('astype', 'to', 'type', 'float', 'double', 'half'):
                n += 1
                rep.touch(m)
                if real_cast:
                    rep.violation('DT7', fi.qual, f'`{ast.unparse(c)[:60]}`: `{c.func.value.id}` is complex on the path that assigns it a 1j term; the cast to a real dtype drops the '
                                  f'imaginary part there', m, c)
                else:
                    rep.ok('DT7', fi.qual, f'`{ast.unparse(c)[:50]}` keeps the complex field', m, c)
    rep.count('DT7.casts_of_complex_capable_arrays', n)
    return n


# ------------------------------------------------------------------------------------------------ RS1
RULE_RS1 = ('RS1: a matricisation `x.transpose(*rows, *cols).reshape(R, -1)` whose axes come from a loop / comprehension variable takes its row size R from the SAME '
            'variable: a row size computed once for a group of bipartitions (from its first member) is right only when all local dimensions are equal; for unequal '
            'dimensions the reshape is legal but is no longer the bipartition rows | cols.')


def rs1(proj, rep, modules=None):
    rep.rule('RS1', RULE_RS1)
    n = 0
    for fi in proj.iter_functions():
        m = fi.module
        if not _in_scope(m, modules):
            continue
        for c in ast.walk(fi.node):
            if not (isinstance(c, ast.Call) and isinstance(c.func, ast.Attribute) and c.func.attr == 'reshape' and len(c.args) == 2
                    and ast.unparse(c.args[1]).replace(' ', '') == '-1' and isinstance(c.func.value, ast.Call) and isinstance(c.func.value.func, ast.Attribute)
                    and c.func.value.func.attr == 'transpose'):
                continue
            tr = c.func.value
            star = [a.value.id for a in tr.args if isinstance(a, ast.Starred) and isinstance(a.value, ast.Name)]
            if not star:
                continue
            # loop / comprehension that binds the starred names
            binder = None
            for p in _ancestors(c, fi.node):
                tg = None
                if isinstance(p, ast.For):
                    tg = p.target
                elif isinstance(p, (ast.ListComp, ast.GeneratorExp, ast.SetComp)):
                    tg = p.generators[0].target
                if tg is not None and {x.id for x in ast.walk(tg) if isinstance(x, ast.Name)} & set(star):
                    binder = p
                    break
            if binder is None:
                continue
            n += 1
            rep.touch(m)
            R = c.args[0]
            dep = set(star)
            # names (re)bound inside the binder from the starred names
            body_nodes = list(ast.walk(binder))
            changed = True
            while changed:
                changed = False
                for s in body_nodes:
                    if isinstance(s, ast.Assign) and isinstance(s.targets[0], ast.Name) and s.targets[0].id not in dep \
                            and any(isinstance(y, ast.Name) and y.id in dep for y in ast.walk(s.value)):
                        dep.add(s.targets[0].id)
                        changed = True
            rn = {y.id for y in ast.walk(R) if isinstance(y, ast.Name)}
            # the defining expression of R must READ the loop variable's elements: a use only inside len(..) does not
            rdefs = [R] + [v for nm in rn for v, st, p in reaching_defs(fi.node, nm, c) if v != 'param' and isinstance(v, ast.AST)]
            only_len = True
            for e in rdefs:
                inlen = {id(z) for cc in ast.walk(e) if isinstance(cc, ast.Call) and isinstance(cc.func, ast.Name) and cc.func.id == 'len' for z in ast.walk(cc)}
                if any(isinstance(y, ast.Name) and y.id in set(star) and id(y) not in inlen for y in ast.walk(e)):
                    only_len = False
            if rn & dep and only_len and any(isinstance(y, ast.Name) and y.id in set(star) for e in rdefs for y in ast.walk(e)):
                rep.violation('RS1', fi.qual, f'`{ast.unparse(c)[:80]}`: the row size `{ast.unparse(R)}` depends on `{star[0]}` only through its LENGTH (the leading axes of the '
                              f'untransposed tensor), not on the sizes of the axes it names: wrong for unequal local dimensions', m, c)
            elif rn & dep:
                rep.ok('RS1', fi.qual, f'`{ast.unparse(c)[:60]}`: row size follows the loop variable', m, c)
            else:
                rep.violation('RS1', fi.qual, f'`{ast.unparse(c)[:80]}`: the axes follow `{star[0]}` but the row size `{ast.unparse(R)}` is computed outside the loop: wrong matricisation '
                              f'for every member whose row dimensions differ from the first one', m, c)
    rep.count('RS1.loop_matricisations', n)
    return n


# ------------------------------------------------------------------------------------------------ F9 / CC1 / I2
RULE_F9 = ('F9: a squared distance is not computed as the difference of two separately computed squared norms (`|x|^2 - |tr x|^2/N` under a square root): near '
           'the centre both terms agree to ~16 digits and the difference keeps none - a clamp at zero removes the NaN, not the error (5 % at distance 1e-8). '
           'Subtract first, then take the norm.')
RULE_CC1 = ('CC1: a batch that was stacked block-wise (`np.concatenate([a, b], axis=0)`: all of a, then all of b) and pushed through one batched call is unfolded '
            'block-major, `reshape(2, -1)` + reduction over axis 0. `reshape(-1, 2)` pairs neighbouring items instead: right only for a batch of one.')
RULE_I2 = ('I2: the interpolation helper places the state at exactly the requested parameter: `alpha = beta / dm_norm` is not clamped (min / max / clip); beyond the '
           'given state the ray continues, and a clamp silently returns the state itself for every larger beta.')


def f9(proj, rep, modules):
    rep.rule('F9', RULE_F9)
    n = 0
    for fi in proj.iter_functions():
        m = fi.module
        if not _in_scope(m, modules):
            continue
        for c in ast.walk(fi.node):
            if not (isinstance(c, ast.Call) and c.args and numeric._ext(proj, m, c) in ('numpy.sqrt', 'torch.sqrt', 'math.sqrt')):
                continue
            n += 1
            subs = [b for b in ast.walk(c.args[0]) if isinstance(b, ast.BinOp) and isinstance(b.op, ast.Sub) and isinstance(b.left, ast.Name) and isinstance(b.right, ast.Name)]
            for b in subs:
                def squared_norm(name):
                    for v, st, p in reaching_defs(fi.node, name, c):
                        if v == 'param' or not isinstance(v, ast.AST):
                            return False
                        t = ast.unparse(v).replace(' ', '')
                        if not (('**2' in t or 'vdot' in t) and ('norm(' in t or 'trace(' in t or 'abs(' in t or 'vdot(' in t)):
                            return False
                    return True
                if squared_norm(b.left.id) and squared_norm(b.right.id):
                    rep.touch(m)
                    rep.violation('F9', fi.qual, f'`{ast.unparse(c)[:70]}`: `{b.left.id} - {b.right.id}` is the difference of two separately computed squared norms: '
                                  f'catastrophic cancellation when they are nearly equal (the clamp only hides the sign)', m, c)
    rep.count('F9.sqrt_sites', n)
    if n:
        rep.ok('F9', 'scope', f'{n} square roots: none of a difference of two separately computed squared norms', proj.mod('numqi.gellmann'), proj.mod('numqi.gellmann').tree,
               text='norm difference sweep')
    return n


def cc1(proj, rep, modules=None):
    rep.rule('CC1', RULE_CC1)
    n = 0
    for fi in proj.iter_functions():
        m = fi.module
        if not _in_scope(m, modules):
            continue
        blocked = {}
        for s in ast.walk(fi.node):
            if not (isinstance(s, ast.Assign) and isinstance(s.value, ast.Call)):
                continue
            k = None
            for a in list(s.value.args) + [kw.value for kw in s.value.keywords]:
                for cc in ast.walk(a):
                    if isinstance(cc, ast.Call) and ast.unparse(cc.func).split('.')[-1] in ('concatenate', 'concat', 'cat') and cc.args and isinstance(cc.args[0], (ast.List, ast.Tuple)) \
                            and len(cc.args[0].elts) >= 2 and any(kw.arg in ('axis', 'dim') and isinstance(kw.value, ast.Constant) and kw.value.value == 0 for kw in cc.keywords):
                        k = len(cc.args[0].elts)
            if k is None or ast.unparse(s.value.func).split('.')[-1] in ('concatenate', 'concat', 'cat'):
                continue
            tg = s.targets[0]
            for t in (tg.elts if isinstance(tg, ast.Tuple) else [tg]):
                if isinstance(t, ast.Name):
                    blocked[t.id] = (k, s)
        for c in ast.walk(fi.node):
            if isinstance(c, ast.Call) and isinstance(c.func, ast.Attribute) and c.func.attr == 'reshape' and isinstance(c.func.value, ast.Name) and c.func.value.id in blocked \
                    and len(c.args) == 2:
                k, s = blocked[c.func.value.id]
                a0, a1 = [ast.unparse(a).replace(' ', '') for a in c.args]
                if (a0, a1) == ('-1', str(k)):
                    n += 1
                    rep.touch(m)
                    rep.violation('CC1', fi.qual, f'`{ast.unparse(c)}`: `{c.func.value.id}` comes from a batch stacked block-wise by `{ast.unparse(s)[:60]}`; reshape(-1, {k}) pairs '
                                  f'neighbouring items, not item i of each block', m, c)
                elif (a0, a1) == (str(k), '-1'):
                    n += 1
                    rep.touch(m)
                    rep.ok('CC1', fi.qual, f'`{ast.unparse(c)}` unfolds the blocks block-major', m, c)
    rep.count('CC1.block_unfoldings', n)
    return n


def i2(proj, rep):
    rep.rule('I2', RULE_I2)
    fi = proj.func('numqi.entangle._misc.hf_interpolate_dm')
    m = fi.module
    rep.touch(m)
    n = 0
    for s in ast.walk(fi.node):
        if isinstance(s, ast.Assign) and isinstance(s.targets[0], ast.Name) and s.targets[0].id == 'alpha':
            n += 1
            sat = [c for c in ast.walk(s.value) if isinstance(c, ast.Call) and ast.unparse(c.func).split('.')[-1] in ('min', 'max', 'clip', 'minimum', 'maximum', 'clamp')]
            if sat:
                rep.violation('I2', fi.qual, f'`{ast.unparse(s)[:60]}` clamps the interpolation parameter: every beta beyond the clamp returns the same state, not the state at '
                              f'distance beta', m, s)
            else:
                rep.ok('I2', fi.qual, f'`{ast.unparse(s)[:50]}` unclamped', m, s)
    if n == 0:
        rep.undecided('I2', fi.qual, 'assignment of alpha not found', m, fi.node, text='alpha')
    rep.count('I2.alpha_assignments', n)
    return n


# ------------------------------------------------------------------------------------------------ AL4 / AG6
RULE_AL4 = ('AL4: two outputs of one function are two objects: a chained assignment `a = b = <computed array>` followed by `return a, .., b` hands the caller ONE array '
            'under two names, so an in-place update of one output (`gamma += 2*pi*k`) silently changes the other. (Chained assignment of a fresh constant '
            'buffer that is only read is not reported.)')
RULE_AG6 = ('AG6: in the Euler-angle extraction the gimbal tolerance `zero_eps` is an ANGLE: outside assertions it is compared with `beta` (or pi - beta) only. Compared '
            'with a matrix entry / cosine (|cos beta| - 1 < zero_eps) the window is sqrt(2*zero_eps) = 4.5e-4 rad wide and every slightly tilted rotation is snapped '
            'to exact gimbal lock.')


def al4(proj, rep, modules=None):
    rep.rule('AL4', RULE_AL4)
    n = 0
    for fi in proj.iter_functions():
        m = fi.module
        if not _in_scope(m, modules):
            continue
        params = set(fi.all_params)
        rets = [r for r in ast.walk(fi.node) if isinstance(r, ast.Return) and isinstance(r.value, ast.Tuple)]
        if not rets:
            continue
        # names derived from parameters (flow-insensitive closure)
        dep = set(params)
        changed = True
        while changed:
            changed = False
            for s in ast.walk(fi.node):
                if isinstance(s, ast.Assign) and any(isinstance(y, ast.Name) and y.id in dep for y in ast.walk(s.value)):
                    for t in s.targets:
                        for y in ast.walk(t):
                            if isinstance(y, ast.Name) and isinstance(y.ctx, ast.Store) and y.id not in dep:
                                dep.add(y.id)
                                changed = True
        for s in ast.walk(fi.node):
            if not (isinstance(s, ast.Assign) and len(s.targets) >= 2 and all(isinstance(t, ast.Name) for t in s.targets)):
                continue
            n += 1
            names = [t.id for t in s.targets]
            computed = any(isinstance(y, ast.Name) and y.id in dep for y in ast.walk(s.value)) and not isinstance(s.value, ast.Constant)
            both = [r for r in rets if sum(1 for e in r.value.elts if isinstance(e, ast.Name) and e.id in names) >= 2]
            if computed and both:
                # is one of them re-bound before the return?  (then the alias is broken)
                rebound = any(isinstance(x, ast.Assign) and len(x.targets) == 1 and isinstance(x.targets[0], ast.Name) and x.targets[0].id in names and x.lineno > s.lineno
                              and x.lineno < both[0].lineno and any(x is y for b in _ancestors(both[0], fi.node) for y in getattr(b, 'body', [])) for x in ast.walk(fi.node))
                if not rebound:
                    rep.touch(m)
                    rep.violation('AL4', fi.qual, f'`{ast.unparse(s)[:70]}` then `{ast.unparse(both[0])[:40]}`: the outputs {names} are one array object; an in-place update of one '
                                  f'by the caller changes the other', m, s)
    rep.count('AL4.chained_assignments', n)
    return n


def ag6(proj, rep):
    rep.rule('AG6', RULE_AG6)
    n = 0
    for q in ('numqi.group._lie._so3_to_angle_hf0', 'numqi.group._lie.so3_to_angle', 'numqi.group._lie.su2_to_angle', 'numqi.group._lie.so3_to_su2'):
        fi = proj.func(q)
        m = fi.module
        rep.touch(m)
        for c in ast.walk(fi.node):
            if not isinstance(c, ast.Compare) or isinstance(_stmt(c), ast.Assert):
                continue
            sides = [c.left] + list(c.comparators)
            if not any(isinstance(y, ast.Name) and y.id == 'zero_eps' for s in sides for y in ast.walk(s)):
                continue
            n += 1
            others = [s for s in sides if not any(isinstance(y, ast.Name) and y.id == 'zero_eps' for y in ast.walk(s))]
            if all(any(isinstance(y, ast.Name) and y.id == 'beta' for y in ast.walk(s)) for s in others):
                rep.ok('AG6', q, f'`{ast.unparse(c)[:50]}` compares the angle beta with the angle tolerance', m, c)
            else:
                rep.violation('AG6', q, f'`{ast.unparse(c)[:70]}` compares a matrix entry / cosine with the ANGLE tolerance zero_eps: the gimbal window becomes '
                              f'sqrt(2*zero_eps) wide in beta', m, c)
    rep.count('AG6.tolerance_comparisons', n)
    return n


# ------------------------------------------------------------------------------------------------ TR1 / D7
RULE_TR1 = ('TR1: a parameter that may be a bare integer (the function converts an int to a one-element collection: hf_tuple_of_int(p), int(p), isinstance(p, int / '
            'Iterable), hasattr(p, "__len__"), or its annotation is a union with int) is never tested by truthiness (`if not p:`): the integer 0 - qubit 0, '
            'subsystem 0 - is falsy and would be treated as "not given".')
RULE_D7 = ('D7: in the sweep of Circuit.apply_state every arm of the kind dispatch applies its gate unconditionally (the state update `q0 = ...(q0 ...)` is a direct '
           'statement of the arm, not nested under a further condition), and the measurement record (`.bitstr`, `.probability`) is written only by '
           'MeasureGate itself: a skipped measurement would record the distribution of an earlier point of the circuit.')
_FLAG_PREFIX = ('tag_', 'use_', 'is_', 'return_', 'with_', 'ignore_', 'not_', 'has_', 'diag_')


def tr1(proj, rep, modules=None):
    rep.rule('TR1', RULE_TR1)
    n = 0
    for fi in proj.iter_functions():
        m = fi.module
        if not _in_scope(m, modules):
            continue
        params = [p for p in fi.all_params if not p.startswith(_FLAG_PREFIX)]
        if not params:
            continue
        ann = {a.arg: (ast.unparse(a.annotation) if a.annotation is not None else '') for a in fi.node.args.posonlyargs + fi.node.args.args + fi.node.args.kwonlyargs}
        src = ast.unparse(fi.node).replace(' ', '')

        def int_capable(p):
            a = [x.strip() for x in re.sub(r'\[[^\]]*\]', '', ann.get(p, '')).split('|')]
            if 'int' in a and len(a) >= 2:
                return True
            return any(k in src for k in (f'hf_tuple_of_int({p})', f'int({p})', f'isinstance({p},int)', f'isinstance({p},collections.abc.Iterable)', f"hasattr({p},'__len__')",
                                          f'isinstance({p},(int', f'isinstance({p},numbers.Integral)'))
        cap = [p for p in params if int_capable(p)]
        if not cap:
            continue
        n += 1
        bad = None
        for node in ast.walk(fi.node):
            tests = []
            if isinstance(node, (ast.If, ast.IfExp, ast.While)):
                tests.append(node.test)
            elif isinstance(node, ast.BoolOp):
                tests.extend(node.values)
            elif isinstance(node, ast.UnaryOp) and isinstance(node.op, ast.Not):
                tests.append(node.operand)
            for t in tests:
                if isinstance(t, ast.UnaryOp) and isinstance(t.op, ast.Not):
                    t = t.operand
                if isinstance(t, ast.Name) and t.id in cap:
                    bad = (node, t.id)
        rep.touch(m)
        if bad:
            rep.violation('TR1', fi.qual, f'`{ast.unparse(bad[0])[:60]}` tests `{bad[1]}` by truthiness, but `{bad[1]}` may be the bare integer 0 (the function itself converts an int): '
                          f'index 0 is treated as "not given"', m, bad[0])
        else:
            rep.ok('TR1', fi.qual, f'int-capable parameter(s) {cap} only tested with `is None` / isinstance', m, fi.node, text=f'{fi.qual} int-capable tests')
    rep.count('TR1.functions_with_int_capable_parameters', n)
    return n


def d7(proj, rep):
    rep.rule('D7', RULE_D7)
    fi = proj.func('numqi.sim.circuit.Circuit.apply_state')
    m = fi.module
    rep.touch(m)
    n = 0
    loop = next((lp for lp in ast.walk(fi.node) if isinstance(lp, ast.For) and 'gate_index_list' in ast.unparse(lp.iter)), None)
    if loop is None:
        rep.undecided('D7', fi.qual, 'sweep over gate_index_list not found', m, fi.node, text='sweep')
        return 0
    chain = next((s for s in loop.body if isinstance(s, ast.If) and 'kind' in ast.unparse(s.test)), None)
    arms = []
    cur = chain
    while cur is not None:
        arms.append(cur)
        cur = cur.orelse[0] if len(cur.orelse) == 1 and isinstance(cur.orelse[0], ast.If) else None
    for a in arms:
        n += 1
        direct = [s for s in a.body if isinstance(s, ast.Assign) and isinstance(s.targets[0], ast.Name) and s.targets[0].id == 'q0' and isinstance(s.value, ast.Call)
                  and any(isinstance(y, ast.Name) and y.id == 'q0' for y in ast.walk(s.value))]
        nested = [s for b in a.body for s in ast.walk(b) if isinstance(s, ast.Assign) and isinstance(s.targets[0], ast.Name) and s.targets[0].id == 'q0']
        if direct:
            rep.ok('D7', f'{fi.qual}[{ast.unparse(a.test)[:30]}]', 'arm applies its gate unconditionally', m, a)
        elif nested:
            rep.violation('D7', f'{fi.qual}[{ast.unparse(a.test)[:30]}]', f'the state update `{ast.unparse(nested[0])[:40]}` of this arm is conditional: on the other branch the gate is '
                          f'not applied (and its record is not taken at this point of the circuit)', m, a)
        else:
            n -= 1
            rep.undecided('D7', f'{fi.qual}[{ast.unparse(a.test)[:30]}]', 'no state update found in the arm', m, a)
    # who may write the measurement record
    for cq, ci in sorted(proj.classes.items()):
        if not cq.startswith('numqi.sim.'):
            continue
        for name, f2 in ci.methods.items():
            for s in ast.walk(f2.node):
                if isinstance(s, ast.Assign):
                    tg = s.targets[0]
                    for t in (tg.elts if isinstance(tg, ast.Tuple) else [tg]):
                        if isinstance(t, ast.Attribute) and t.attr in ('bitstr', 'probability') and not (isinstance(t.value, ast.Name) and t.value.id == 'self'):
                            n += 1
                            rep.violation('D7', f'{cq}.{name}', f'`{ast.unparse(s)[:60]}` writes the measurement record of a gate from outside MeasureGate: the record no longer comes from a '
                                          f'measurement of the state at that point', f2.module, s)
    rep.count('D7.dispatch_arms', n)
    return n


# ------------------------------------------------------------------------------------------------ ZS1 / V4 / AX2 / AL5 / NQ1 / CE1 / DT8 / OV1 / FS1 / AR4 / T4
RULE_ZS1 = ('ZS1: a continuous entanglement measure is not snapped to zero by a tolerance: no `return 0` / `ret = 0` guarded by a comparison with a small literal '
            '(`ret < 1e-7`) or by a shifted PSD test (`is_positive_semi_definite(.., shift=..)`). Weakly entangled states (0 < C < tol) would be reported as '
            'unentangled while their partial transpose has a negative eigenvalue: "non-zero exactly when NPT" fails.')
RULE_V4 = ('V4: the per-term value of a convex-roof model is never a LOWER bound of sqrt(x): a smoothed root `sqrt(x + d) - sqrt(d)` lies below sqrt(x) by up to sqrt(d) '
           'per term, so the loss can drop below the closed-form value. (A floor `sqrt(max(eps, x))` lies above and is allowed.)')
RULE_AX2 = ('AX2: an array that the function addresses with an Ellipsis (`x[..., i]`: any number of leading batch axes) is reduced along negative axes; a positive '
            'axis literal on the same array is the intended axis for one batch rank only.')
RULE_AL5 = ('AL5: `copy.copy(obj)` shares the containers of `obj`; calling an in-place method (name ending in `_`) on the copy re-writes the original\'s items too. '
            'Use the object\'s own deep copy / rebuild.')
RULE_NQ1 = ('NQ1: `Circuit.num_qubit` is the largest used index plus one, a LOWER bound of the register size: it is never required to EQUAL a register size '
            '(a stabilizer string ending in I gives a narrower circuit that acts correctly on the wider register).')
RULE_CE1 = ('CE1: the ceiling-division idiom `(a + w - 1) // w` equals ceil(a / w) only for an integer w; with a divisor that may be a float (a weight parameter '
            'that is only asserted positive) the bound comes out too small.')
RULE_DT8 = ('DT8: a function that handles complex data (it builds `1j` terms / conjugates) never forces an input-derived array to a real dtype '
            '(`np.ascontiguousarray(x, dtype=np.float64)`, `np.asarray(x, dtype=float)`): on the recursive / later call with a complex block the imaginary part '
            'is dropped with a warning only.')
RULE_OV1 = ('OV1: exact integer combinatorics (math.factorial / math.comb, `//`) never goes through `np.prod` / `np.cumprod`: NumPy integer products wrap '
            'silently at 2^63 (from N = 21 on for hook products).')
RULE_FS1 = ('FS1: in the (anti)symmetric projection tables a memo key for an index selection keeps order-free MULTISET information: a sorted tuple. `frozenset(sel)` '
            'also drops multiplicities, so (a,a,b) and (a,b,b) share one entry.')
RULE_AR4 = ('AR4: a tensor stored with subsystems in ascending order (A, B, C) is matricised by a plain reshape only along a cut of ADJACENT groups in that order '
            '(A | BC, AB | C). `reshape(dimB, dimA*dimC)` has the same size but is not the bipartition B | AC: the B axis must be transposed to the front first.')
RULE_T4 = ('T4: a rank cut keeps the precision class of its quantity: eigenvalues of a Gram matrix `X @ X^dagger` are SQUARED singular values, so one function never cuts '
           'both singular values (from svd) and Gram eigenvalues at the same tolerance: its two arms would disagree by a square root.')


def zs1(proj, rep, modules):
    rep.rule('ZS1', RULE_ZS1)
    n = 0
    for fi in proj.iter_functions():
        m = fi.module
        if not _in_scope(m, modules):
            continue
        fname = fi.qual.rsplit('.', 1)[1]
        if not any(k in fname for k in ('concurrence', 'negativity', 'eof', 'gme', 'entropy', 'measure')) or fi.cls is not None:
            continue
        n += 1
        rep.touch(m)
        bad = None
        for g in ast.walk(fi.node):
            if not isinstance(g, ast.If):
                continue
            t = g.test
            small = any(isinstance(c, ast.Constant) and isinstance(c.value, float) and 0 < c.value < 1e-3 for c in ast.walk(t)) and any(isinstance(c, ast.Compare) for c in ast.walk(t))
            shifted = any(isinstance(c, ast.Call) and 'positive_semi_definite' in ast.unparse(c.func) and any(k.arg == 'shift' for k in c.keywords) for c in ast.walk(t))
            if not (small or shifted):
                continue
            for s in g.body:
                zero = None
                if isinstance(s, ast.Return) and isinstance(s.value, ast.Constant) and s.value.value in (0, 0.0):
                    zero = s
                if isinstance(s, ast.Assign) and isinstance(s.value, ast.Constant) and s.value.value in (0, 0.0) and not isinstance(s.value.value, bool):
                    zero = s
                if zero is not None:
                    bad = (g, zero)
        if bad:
            rep.violation('ZS1', fi.qual, f'`if {ast.unparse(bad[0].test)[:60]}: {ast.unparse(bad[1])[:20]}` snaps the measure to zero inside a tolerance window: entangled states with a '
                          f'value below the tolerance are reported as exactly 0', m, bad[0])
        else:
            rep.ok('ZS1', fi.qual, 'no tolerance-gated zero', m, fi.node, text=f'{fi.qual} zero snap')
    rep.count('ZS1.measure_functions', n)
    return n


def v4(proj, rep, modules):
    rep.rule('V4', RULE_V4)
    n = 0
    for fi in proj.iter_functions():
        m = fi.module
        if not _in_scope(m, modules) or fi.cls is None or fi.qual.rsplit('.', 1)[1] != 'forward':
            continue
        n += 1
        rep.touch(m)
        bad = None
        for b in ast.walk(fi.node):
            if isinstance(b, ast.BinOp) and isinstance(b.op, ast.Sub) and isinstance(b.left, ast.Call) and isinstance(b.right, ast.Call) \
                    and ast.unparse(b.left.func).split('.')[-1] == 'sqrt' and ast.unparse(b.right.func).split('.')[-1] == 'sqrt' and b.left.args and b.right.args:
                inner = b.left.args[0]
                if isinstance(inner, ast.BinOp) and isinstance(inner.op, ast.Add) and (ast.dump(inner.right) == ast.dump(b.right.args[0]) or ast.dump(inner.left) == ast.dump(b.right.args[0])):
                    bad = b
        if bad is not None:
            rep.violation('V4', fi.qual, f'`{ast.unparse(bad)[:70]}` is a lower bound of sqrt(x) (below it by up to sqrt(d) per term): the loss can fall under the closed-form value', m, bad)
        else:
            rep.ok('V4', fi.qual, 'no smoothed root below sqrt(x)', m, fi.node, text=f'{fi.qual} root smoothing')
    rep.count('V4.forward_methods', n)
    return n


def ax2(proj, rep, modules=None):
    rep.rule('AX2', RULE_AX2)
    n = 0
    for fi in proj.iter_functions():
        m = fi.module
        if not _in_scope(m, modules):
            continue
        ell = {}
        for x in ast.walk(fi.node):
            if isinstance(x, ast.Subscript) and isinstance(x.value, ast.Name):
                elts = list(x.slice.elts) if isinstance(x.slice, ast.Tuple) else [x.slice]
                if any(isinstance(e, ast.Constant) and e.value is Ellipsis for e in elts):
                    ell.setdefault(x.value.id, x)
        if not ell:
            continue
        for c in ast.walk(fi.node):
            if not (isinstance(c, ast.Call) and c.args and isinstance(c.args[0], ast.Name) and c.args[0].id in ell):
                continue
            if ast.unparse(c.func).split('.')[-1] not in ('norm', 'sum', 'mean', 'max', 'min', 'prod', 'cumsum', 'cumprod', 'softmax', 'trace', 'diagonal', 'concatenate', 'stack'):
                continue
            for k in c.keywords:
                if k.arg in ('axis', 'dim', 'axis1', 'axis2') and isinstance(k.value, ast.Constant) and isinstance(k.value.value, int) and not isinstance(k.value.value, bool):
                    n += 1
                    rep.touch(m)
                    if k.value.value >= 1:
                        rep.violation('AX2', fi.qual, f'`{ast.unparse(c)[:60]}`: `{c.args[0].id}` is addressed with an Ellipsis elsewhere (`{ast.unparse(ell[c.args[0].id])[:30]}`: open batch '
                                      f'rank) but reduced along the positive axis {k.value.value}', m, c)
                    else:
                        rep.ok('AX2', fi.qual, f'`{ast.unparse(c)[:50]}` axis {k.value.value}', m, c)
    rep.count('AX2.reductions_of_ellipsis_arrays', n)
    return n


def al5_nq1_ce1(proj, rep, modules):
    for k, v in (('AL5', RULE_AL5), ('NQ1', RULE_NQ1), ('CE1', RULE_CE1)):
        rep.rule(k, v)
    nfun = 0
    for fi in proj.iter_functions():
        m = fi.module
        if not _in_scope(m, modules):
            continue
        nfun += 1
        params = set(fi.all_params)
        shallow = {}
        for s in ast.walk(fi.node):
            if isinstance(s, ast.Assign) and isinstance(s.targets[0], ast.Name) and isinstance(s.value, ast.Call) and ast.unparse(s.value.func) in ('copy.copy', 'copy'):
                shallow[s.targets[0].id] = s
        for c in ast.walk(fi.node):
            if isinstance(c, ast.Call) and isinstance(c.func, ast.Attribute) and isinstance(c.func.value, ast.Name) and c.func.value.id in shallow \
                    and c.func.attr.endswith('_') and not c.func.attr.startswith('_'):
                rep.touch(m)
                rep.violation('AL5', fi.qual, f'`{ast.unparse(c)[:50]}` mutates in place an object obtained by `{ast.unparse(shallow[c.func.value.id])[:40]}`: the shallow copy shares '
                              f'its containers with the caller\'s object', m, c)
            if m.name.startswith('numqi.qec') and isinstance(c, ast.Compare) and len(c.ops) == 1 and isinstance(c.ops[0], (ast.Eq, ast.NotEq)) and isinstance(_stmt(c), ast.Assert):
                for side in [c.left] + list(c.comparators):
                    if isinstance(side, ast.Attribute) and side.attr == 'num_qubit' and not (isinstance(side.value, ast.Name) and side.value.id == 'self'):
                        rep.touch(m)
                        rep.violation('NQ1', fi.qual, f'`{ast.unparse(c)[:60]}` requires Circuit.num_qubit (largest used index + 1) to equal a register size: circuits that leave the '
                                      f'last qubits untouched are rejected', m, c)
            if isinstance(c, ast.BinOp) and isinstance(c.op, ast.FloorDiv) and isinstance(c.right, ast.Name) and c.right.id in params:
                w = c.right.id
                t = ast.unparse(c.left).replace(' ', '')
                if (f'+{w}-1' in t or f'-1+{w}' in t or t.startswith(f'{w}-1+') or f'+({w}-1)' in t):
                    src = ast.unparse(fi.node).replace(' ', '')
                    is_int = f'{w}=int({w})' in src or f'isinstance({w},int)' in src
                    if not is_int:
                        rep.touch(m)
                        rep.violation('CE1', fi.qual, f'`{ast.unparse(c)[:60]}`: ceiling-division idiom with the divisor `{w}`, which is not known to be an integer (only a sign check): for a '
                                      f'fractional `{w}` the result is below ceil(a/{w})', m, c)
    rep.count('AL5.functions_scanned', nfun)
    if nfun:
        rep.ok('AL5', 'scope', f'{nfun} functions scanned: no in-place method on a shallow copy, no equality on Circuit.num_qubit, no float ceiling-division idiom',
               proj.mod('numqi.utils'), proj.mod('numqi.utils').tree, text='copy / num_qubit / ceil sweep')
    return nfun


def dt8_ov1(proj, rep, modules):
    rep.rule('DT8', RULE_DT8)
    rep.rule('OV1', RULE_OV1)
    nfun = 0
    for fi in proj.iter_functions():
        m = fi.module
        if not _in_scope(m, modules):
            continue
        nfun += 1
        src = ast.unparse(fi.node)
        cx_aware = '1j' in src or '.conj()' in src
        params = set(fi.all_params)
        for c in ast.walk(fi.node):
            if not isinstance(c, ast.Call):
                continue
            f = ast.unparse(c.func)
            if cx_aware and f.split('.')[-1] in ('ascontiguousarray', 'asarray', 'array', 'asfortranarray') and c.args:
                dt = next((k.value for k in c.keywords if k.arg == 'dtype'), None)
                if dt is not None and any(ast.unparse(dt).endswith(d) for d in ('float64', 'float32', 'float', 'float_', 'double')):
                    if any(isinstance(y, ast.Name) and y.id in params for y in ast.walk(c.args[0])):
                        rep.touch(m)
                        rep.violation('DT8', fi.qual, f'`{ast.unparse(c)[:70]}` forces an input-derived array to a real dtype in a function that itself produces complex values: a complex '
                                      f'input block loses its imaginary part', m, c)
            if isinstance(c.func, ast.Attribute) and c.func.attr in ('prod', 'cumprod') and f.split('.')[0] in ('np', 'numpy'):
                st = _stmt(c)
                if any(isinstance(y, ast.Call) and ast.unparse(y.func) in ('math.factorial', 'math.comb', 'scipy.special.factorial', 'math.perm') for y in ast.walk(st)) \
                        and any(isinstance(y, ast.BinOp) and isinstance(y.op, ast.FloorDiv) for y in ast.walk(st)):
                    rep.touch(m)
                    rep.violation('OV1', fi.qual, f'`{ast.unparse(st)[:80]}`: exact integer arithmetic through `{f}` wraps at 2^63 (use math.prod / Python ints)', m, c)
    rep.count('DT8.functions_scanned', nfun)
    if nfun:
        rep.ok('DT8', 'scope', f'{nfun} functions scanned: no forced real dtype in complex-aware functions, no np.prod in exact combinatorics', proj.mod('numqi.utils'),
               proj.mod('numqi.utils').tree, text='real cast / int product sweep')
    return nfun


def fs1_ar4_t4(proj, rep, modules):
    for k, v in (('FS1', RULE_FS1), ('AR4', RULE_AR4), ('T4', RULE_T4)):
        rep.rule(k, v)
    from .kdefects import _role
    nfun = nre = 0
    for fi in proj.iter_functions():
        m = fi.module
        if not _in_scope(m, modules):
            continue
        nfun += 1
        params = set(fi.all_params)
        for c in ast.walk(fi.node):
            # FS1
            if isinstance(c, ast.Call) and isinstance(c.func, ast.Name) and c.func.id == 'frozenset':
                st = _stmt(c)
                used_as_key = isinstance(getattr(c, '_parent', None), ast.Subscript) or (isinstance(st, ast.Assign) and isinstance(st.targets[0], ast.Name) and any(
                    isinstance(x, ast.Subscript) and isinstance(x.slice, ast.Name) and x.slice.id == st.targets[0].id for x in ast.walk(fi.node)))
                if used_as_key:
                    rep.touch(m)
                    rep.violation('FS1', fi.qual, f'`{ast.unparse(c)[:50]}` is used as a memo key: a set forgets multiplicities, index selections with repeated entries collide', m, c)
            # AR4
            if isinstance(c, ast.Call) and isinstance(c.func, ast.Attribute) and c.func.attr == 'reshape' and len(c.args) == 2 \
                    and not (isinstance(c.func.value, ast.Call) and isinstance(c.func.value.func, ast.Attribute) and c.func.value.func.attr in ('transpose', 'permute', 'swapaxes')):
                seq = []
                ok = True
                for a in c.args:
                    fac = []

                    def fl(e):
                        if isinstance(e, ast.BinOp) and isinstance(e.op, ast.Mult):
                            fl(e.left)
                            fl(e.right)
                        else:
                            fac.append(e)
                    fl(a)
                    for e in fac:
                        r = _role(ast.unparse(e)) if isinstance(e, ast.Name) else None
                        if r is None:
                            ok = False
                        else:
                            seq.append(r[1])
                if ok and len(seq) >= 3 and len(set(seq)) == len(seq):
                    nre += 1
                    rep.touch(m)
                    if seq == sorted(seq):
                        rep.ok('AR4', fi.qual, f'`{ast.unparse(c)[-40:]}`: adjacent groups in ascending subsystem order', m, c)
                    else:
                        rep.violation('AR4', fi.qual, f'`{ast.unparse(c)[-50:]}` on an untransposed tensor: the groups are not adjacent in the stored subsystem order; same size, but not this '
                                      f'bipartition for unequal dimensions', m, c)
            # T4 (contradiction form): one tolerance, two precision classes in one function
            pass
        sv_cmp, gram_cmp = {}, {}
        for c in ast.walk(fi.node):
            if not (isinstance(c, ast.Compare) and len(c.ops) == 1 and isinstance(c.ops[0], (ast.Gt, ast.GtE, ast.Lt, ast.LtE))):
                continue
            a, b = c.left, c.comparators[0]
            for ev, tol in ((a, b), (b, a)):
                if not (isinstance(ev, ast.Name) and isinstance(tol, ast.Name) and tol.id in params and ('eps' in tol.id or 'tol' in tol.id)):
                    continue
                for v, st, p in reaching_defs(fi.node, ev.id, c):
                    if v == 'param' or not isinstance(st, ast.Assign) or not isinstance(st.value, ast.Call):
                        continue
                    call = st.value
                    fn_ = ast.unparse(call.func).split('.')[-1]
                    tg = st.targets[0]
                    if fn_ == 'svd' and isinstance(tg, ast.Tuple) and len(tg.elts) == 3 and isinstance(tg.elts[1], ast.Name) and tg.elts[1].id == ev.id:
                        sv_cmp[tol.id] = c
                    if fn_ in ('eigh', 'eigvalsh') and call.args and isinstance(call.args[0], ast.BinOp) and isinstance(call.args[0].op, ast.MatMult):
                        from .hermitian import _base_of
                        ln, lt, lc = _base_of(call.args[0].left)
                        rn, rt, rc = _base_of(call.args[0].right)
                        first = tg.elts[0] if isinstance(tg, ast.Tuple) else tg
                        if ln is not None and ln == rn and lt != rt and isinstance(first, ast.Name) and first.id == ev.id:
                            gram_cmp[tol.id] = (c, call.args[0])
        for tol in set(sv_cmp) & set(gram_cmp):
            c, g = gram_cmp[tol]
            rep.touch(m)
            rep.violation('T4', fi.qual, f'`{ast.unparse(c)}` cuts the eigenvalues of the Gram matrix `{ast.unparse(g)[:30]}` (squared singular values) at `{tol}`, and '
                          f'`{ast.unparse(sv_cmp[tol])}` cuts singular values at the same `{tol}`: the two arms of one function apply thresholds that differ by a square root', m, c)
    rep.count('AR4.grouped_reshapes', nre)
    rep.count('FS1.functions_scanned', nfun)
    if nfun:
        rep.ok('FS1', 'scope', f'{nfun} functions scanned: no frozenset memo key, no Gram spectrum cut at a singular-value tolerance', proj.mod('numqi.utils'),
               proj.mod('numqi.utils').tree, text='frozenset / gram sweep')
    return nfun, nre


# ------------------------------------------------------------------------------------------------ DT9 / CH1 / LN1
RULE_DT9 = ('DT9: a buffer whose dtype is derived from the dtype of an input (`dtype=A.dtype`, `np.result_type(A.dtype, np.float64)`) never receives a value built with '
            'an imaginary literal (`* 0.5j`): for a real input the buffer is real and the imaginary coefficients are discarded (ComplexWarning only).')
RULE_CH1 = ('CH1: the Choi / Kraus form of a user callable is read off from ALL dim_in^2 matrix units: the probe loops run over the full square. Filling the lower '
            'triangle from the upper one assumes Phi(X^T) = Phi(X)^T, which holds for transposition-covariant (e.g. real) channels only.')
RULE_LN1 = ('LN1: `apply_kraus_op` / `apply_choi_op` / `apply_super_op` are complex-LINEAR in their argument: no conjugate (`.conj()`, `.T.conj()`, np.conj) of a value '
            'derived from `rho`. Hermitising the output is anti-linear; the round trip through hf_channel_to_choi_op (matrix-unit probes) then describes another map.')


def dt9(proj, rep, modules):
    rep.rule('DT9', RULE_DT9)
    n = 0
    for fi in proj.iter_functions():
        m = fi.module
        if not _in_scope(m, modules):
            continue
        params = set(fi.all_params)
        for s in ast.walk(fi.node):
            if not (isinstance(s, ast.Assign) and isinstance(s.targets[0], ast.Name) and isinstance(s.value, ast.Call)
                    and ast.unparse(s.value.func).split('.')[-1] in ('empty', 'zeros', 'ones', 'empty_like', 'zeros_like', 'full')):
                continue
            dt = next((k.value for k in s.value.keywords if k.arg == 'dtype'), None)
            like = ast.unparse(s.value.func).endswith('_like')
            from_input = False
            if dt is not None:
                from_input = any(isinstance(a, ast.Attribute) and a.attr == 'dtype' and isinstance(a.value, ast.Name) and a.value.id in params for a in ast.walk(dt)) \
                    and not any(isinstance(c, ast.Constant) and isinstance(c.value, str) and 'complex' in c.value for c in ast.walk(dt)) and 'complex' not in ast.unparse(dt)
            elif like and s.value.args and isinstance(s.value.args[0], ast.Name) and s.value.args[0].id in params:
                from_input = True
            if not from_input:
                continue
            buf = s.targets[0].id
            for a in ast.walk(fi.node):
                if isinstance(a, ast.Assign) and isinstance(a.targets[0], ast.Subscript) and isinstance(a.targets[0].value, ast.Name) and a.targets[0].value.id == buf \
                        and a.lineno > s.lineno:
                    n += 1
                    # a store inside a branch selected by a dtype / realness test knows what the buffer is
                    guarded = any(isinstance(p, ast.If) and any(k in ast.unparse(p.test) for k in ('real', 'complex', 'dtype')) for p in _ancestors(a, fi.node))
                    if not guarded and any(isinstance(c, ast.Constant) and isinstance(c.value, complex) for c in ast.walk(a.value)):
                        rep.touch(m)
                        rep.violation('DT9', fi.qual, f'`{ast.unparse(s)[:70]}` takes its dtype from the input; `{ast.unparse(a)[:60]}` stores a value with an imaginary factor: for a real '
                                      f'input the imaginary part is discarded', m, a)
    rep.count('DT9.stores_into_input_typed_buffers', n)
    return n


def ch1_ln1(proj, rep):
    rep.rule('CH1', RULE_CH1)
    rep.rule('LN1', RULE_LN1)
    n = 0
    for q in ('numqi.channel._internal.hf_channel_to_choi_op', 'numqi.channel._internal.hf_channel_to_kraus_op'):
        fi = proj.func(q)
        m = fi.module
        rep.touch(m)
        loops = [lp for lp in ast.walk(fi.node) if isinstance(lp, ast.For) and isinstance(lp.iter, ast.Call) and ast.unparse(lp.iter.func) == 'range']
        outer = [lp for lp in loops if any(isinstance(x, ast.For) and x is not lp for x in ast.walk(lp))]
        for lp in loops:
            n += 1
            args = [ast.unparse(a) for a in lp.iter.args]
            outer_vars = {o.target.id for o in outer if isinstance(o.target, ast.Name) and o is not lp}
            if any(isinstance(y, ast.Name) and y.id in outer_vars for a in lp.iter.args for y in ast.walk(a)):
                rep.violation('CH1', q, f'`for {ast.unparse(lp.target)} in {ast.unparse(lp.iter)}`: the probe loop depends on the outer index: only part of the matrix units is '
                              f'evaluated, the rest is inferred by a symmetry the channel need not have', m, lp)
            else:
                rep.ok('CH1', q, f'`for {ast.unparse(lp.target)} in {ast.unparse(lp.iter)}` full range', m, lp)
    for q in ('numqi.channel._internal.apply_kraus_op', 'numqi.channel._internal.apply_choi_op', 'numqi.channel._internal.apply_super_op'):
        fi = proj.func(q)
        m = fi.module
        rep.touch(m)
        n += 1
        dep = {'rho'}
        changed = True
        while changed:
            changed = False
            for s in ast.walk(fi.node):
                if isinstance(s, ast.Assign) and any(isinstance(y, ast.Name) and y.id in dep for y in ast.walk(s.value)):
                    for t in s.targets:
                        for y in ast.walk(t):
                            if isinstance(y, ast.Name) and isinstance(y.ctx, ast.Store) and y.id not in dep:
                                dep.add(y.id)
                                changed = True
        bad = None
        for c in ast.walk(fi.node):
            if isinstance(c, ast.Call) and isinstance(c.func, ast.Attribute) and c.func.attr in ('conj', 'conjugate'):
                recv = c.args[0] if (isinstance(c.func.value, ast.Name) and c.func.value.id in ('np', 'numpy', 'torch') and c.args) else c.func.value
                if any(isinstance(y, ast.Name) and y.id in dep for y in ast.walk(recv)) and not isinstance(_stmt(c), ast.Assert):
                    bad = c
        if bad is not None:
            rep.violation('LN1', q, f'`{ast.unparse(_stmt(bad))[:70]}` conjugates a value derived from `rho`: the map is no longer complex-linear in its argument', m, bad)
        else:
            rep.ok('LN1', q, 'no conjugate on the rho path', m, fi.node, text=f'{q} linearity')
    rep.count('CH1_LN1.obligations', n)
    return n


# ------------------------------------------------------------------------------------------------ RT1 / LM1 / SO2 / HE1
RULE_RT1 = ('RT1: a buffer allocated as (a, b, ...) and filled along its first axis is brought to (b, a, ...) by a TRANSPOSE; `buf.reshape(b, a, -1)` has the right shape '
            'but interleaves the rows of different batch items (identical only for a = 1 or b = 1).')
RULE_LM1 = ('LM1: a memo kept in a local dict inside a loop (`if key not in D: D[key] = value`) is keyed on every attribute of the loop variable the value is computed '
            'from: `value` built from `gate.hf0` and `gate.args` under a key made of `gate.args` only hands every gate that shares the placeholder the matrix of the '
            'first gate, whatever its type.')
RULE_SO2 = ('SO2: a parameter documented / asserted as a SET that becomes an ordered sequence (einsum legs, output axes) goes through sorted(): the iteration order '
            'of a set of ints is ascending only while all elements are below 8.')
RULE_HE1 = ('HE1: the trivialization maps do not normalise through library helpers with a hidden denominator clamp (`torch.nn.functional.normalize`, eps = 1e-12): '
            'below the clamp the result no longer sums / norms to one and the torch and NumPy backends disagree.')


def rt1(proj, rep, modules=None):
    rep.rule('RT1', RULE_RT1)
    n = 0
    for fi in proj.iter_functions():
        m = fi.module
        if not _in_scope(m, modules):
            continue
        bufs = {}
        for s in ast.walk(fi.node):
            if isinstance(s, ast.Assign) and isinstance(s.targets[0], ast.Name) and isinstance(s.value, ast.Call) \
                    and ast.unparse(s.value.func).split('.')[-1] in ('empty', 'zeros', 'ones') and s.value.args and isinstance(s.value.args[0], ast.Tuple) \
                    and len(s.value.args[0].elts) >= 2:
                bufs[s.targets[0].id] = [ast.unparse(e).replace(' ', '') for e in s.value.args[0].elts]
        for c in ast.walk(fi.node):
            if isinstance(c, ast.Call) and isinstance(c.func, ast.Attribute) and c.func.attr == 'reshape' and isinstance(c.func.value, ast.Name) and c.func.value.id in bufs \
                    and len(c.args) >= 2:
                shp = bufs[c.func.value.id]
                a = [ast.unparse(x).replace(' ', '') for x in c.args]
                n += 1
                rep.touch(m)
                if a[0] == shp[1] and a[1] == shp[0] and shp[0] != shp[1]:
                    rep.violation('RT1', fi.qual, f'`{ast.unparse(c)}`: `{c.func.value.id}` was allocated as ({", ".join(shp)}); swapping its first two axes needs a transpose, this reshape '
                                  f'interleaves rows of different items', m, c)
                else:
                    rep.ok('RT1', fi.qual, f'`{ast.unparse(c)[:50]}` does not swap the allocation axes', m, c)
    rep.count('RT1.reshapes_of_allocated_buffers', n)
    return n


def lm1(proj, rep, modules=None):
    rep.rule('LM1', RULE_LM1)
    n = 0
    for fi in proj.iter_functions():
        m = fi.module
        if not _in_scope(m, modules):
            continue
        for lp in ast.walk(fi.node):
            if not isinstance(lp, ast.For):
                continue
            lvars = {y.id for y in ast.walk(lp.target) if isinstance(y, ast.Name)}
            for g in ast.walk(lp):
                if not (isinstance(g, ast.If) and isinstance(g.test, ast.Compare) and len(g.test.ops) == 1 and isinstance(g.test.ops[0], ast.NotIn)
                        and isinstance(g.test.left, ast.Name) and isinstance(g.test.comparators[0], ast.Name)):
                    continue
                key, D = g.test.left.id, g.test.comparators[0].id
                store = next((s for s in ast.walk(g) if isinstance(s, ast.Assign) and isinstance(s.targets[0], ast.Subscript) and isinstance(s.targets[0].value, ast.Name)
                              and s.targets[0].value.id == D), None)
                kdef = next((s for s in ast.walk(lp) if isinstance(s, ast.Assign) and isinstance(s.targets[0], ast.Name) and s.targets[0].id == key), None)
                if store is None or kdef is None:
                    continue
                n += 1
                rep.touch(m)

                def roots(nodes):
                    out = set()
                    for nd in nodes:
                        for y in ast.walk(nd):
                            if isinstance(y, ast.Attribute):
                                b = y
                                chain = []
                                while isinstance(b, ast.Attribute):
                                    chain.append(b.attr)
                                    b = b.value
                                if isinstance(b, ast.Name) and b.id in lvars:
                                    out.add((b.id, chain[-1]))
                            elif isinstance(y, ast.Name) and y.id in lvars and not isinstance(getattr(y, '_parent', None), ast.Attribute):
                                out.add((y.id, None))
                    return out
                kroots = roots([kdef.value])
                # the stored value and the block-local definitions it is computed from
                vnodes = [store.value]
                names = {y.id for y in ast.walk(store.value) if isinstance(y, ast.Name)}
                changed = True
                while changed:
                    changed = False
                    for s2 in ast.walk(g):
                        if isinstance(s2, ast.Assign) and s2 is not store and any(isinstance(t, ast.Name) and t.id in names for t2 in s2.targets for t in ast.walk(t2)) \
                                and s2.value not in vnodes:
                            vnodes.append(s2.value)
                            names |= {y.id for y in ast.walk(s2.value) if isinstance(y, ast.Name)}
                            changed = True
                vroots = roots(vnodes)
                whole = {v for v, a in kroots if a is None}
                missing = sorted(f'{v}.{a}' if a else v for v, a in vroots if (v, a) not in kroots and v not in whole)
                if missing:
                    rep.violation('LM1', fi.qual, f'memo `{D}[{key}]`: the stored value is computed from {missing}, which the key `{ast.unparse(kdef.value)[:50]}` does not contain: '
                                  f'items that agree on the key but differ there receive the first item\'s value', m, g)
                else:
                    rep.ok('LM1', fi.qual, f'memo `{D}[{key}]` keyed on everything the value reads from the loop variable', m, g)
    rep.count('LM1.local_memos', n)
    return n


def so2_he1(proj, rep, modules=None):
    rep.rule('SO2', RULE_SO2)
    rep.rule('HE1', RULE_HE1)
    n = 0
    for fi in proj.iter_functions():
        m = fi.module
        if not _in_scope(m, modules):
            continue
        ann = {a.arg: (ast.unparse(a.annotation) if a.annotation is not None else '') for a in fi.node.args.posonlyargs + fi.node.args.args + fi.node.args.kwonlyargs}
        for p, a in ann.items():
            if not (a.startswith('set') or f'isinstance({p},set)' in ast.unparse(fi.node).replace(' ', '')):
                continue
            n += 1
            rep.touch(m)
            src = ast.unparse(fi.node).replace(' ', '')
            has_sorted = f'sorted({p}' in src or f'sorted(set({p}' in src
            conv = [c for c in ast.walk(fi.node) if isinstance(c, ast.Call) and ast.unparse(c.func).split('.')[-1] in ('list', 'tuple', 'hf_tuple_of_int', 'array', 'asarray')
                    and c.args and isinstance(c.args[0], ast.Name) and c.args[0].id == p]
            conv = [c for c in conv if not any(isinstance(p2, ast.Call) and isinstance(p2.func, ast.Name) and p2.func.id in ('sorted', 'set', 'frozenset', 'len')
                                               for p2 in _ancestors(c, fi.node))]
            if conv and not has_sorted:
                rep.violation('SO2', fi.qual, f'`{ast.unparse(conv[0])[:50]}` turns the set parameter `{p}` into a sequence without sorted(): the order of the elements (hence of the '
                              f'output axes) is arbitrary once an element is 8 or larger', m, conv[0])
            else:
                rep.ok('SO2', fi.qual, f'set parameter `{p}` is ordered by sorted() before use' if has_sorted else f'set parameter `{p}` never converted to a sequence', m, fi.node,
                       text=f'{fi.qual}.{p} order')
        for c in ast.walk(fi.node):
            if isinstance(c, ast.Call) and ast.unparse(c.func).endswith('functional.normalize') or (isinstance(c, ast.Call) and ast.unparse(c.func) in ('F.normalize',)):
                eps = next((k.value for k in c.keywords if k.arg == 'eps'), None)
                if not (isinstance(eps, ast.Constant) and eps.value == 0):
                    rep.touch(m)
                    rep.violation('HE1', fi.qual, f'`{ast.unparse(c)[:60]}` clamps its denominator at eps = 1e-12: for tiny arguments the result is not normalised and differs from '
                                  f'the NumPy branch', m, c)
    rep.count('SO2.set_parameters', n)
    return n


# ------------------------------------------------------------------------------------------------ LEN1 / S9
RULE_LEN1 = ('LEN1: a count over ALL elements of an array (`x.sum()`, `count_nonzero(x)` without axis) is compared with `x.size`, never with `len(x)`: len is the length '
             'of the first axis, so for any array with two or more axes the "all ones" / "all set" test fires for the wrong arrays.')
RULE_S9 = ('S9: in a seed-accepting method every use of the generator happens whatever the object went through before: a call that receives the generator is not '
           'guarded by a condition that reads `self.<attr>` state written by earlier calls. Otherwise `solve(dm, seed=s)` twice on one object gives two results, and '
           'the second depends on the seed of the first.')


def len1(proj, rep, modules=None):
    rep.rule('LEN1', RULE_LEN1)
    n = 0
    for fi in proj.iter_functions():
        m = fi.module
        if not _in_scope(m, modules):
            continue
        totals = {}
        for s in ast.walk(fi.node):
            if isinstance(s, ast.Assign) and isinstance(s.targets[0], ast.Name):
                for c in ast.walk(s.value):
                    if isinstance(c, ast.Call) and isinstance(c.func, ast.Attribute) and c.func.attr in ('sum', 'count_nonzero') and not any(k.arg in ('axis', 'dim') for k in c.keywords):
                        arr = c.func.value if c.func.attr == 'sum' and not (isinstance(c.func.value, ast.Name) and c.func.value.id in ('np', 'numpy', 'torch')) else (c.args[0] if c.args else None)
                        if isinstance(arr, ast.Name) and (c.func.attr != 'sum' or not c.args or arr is not c.func.value):
                            totals[s.targets[0].id] = arr.id
        for c in ast.walk(fi.node):
            if not (isinstance(c, ast.Compare) and len(c.ops) == 1 and isinstance(c.ops[0], (ast.Eq, ast.NotEq))):
                continue
            a, b = c.left, c.comparators[0]
            for tot, ln in ((a, b), (b, a)):
                arr = None
                if isinstance(tot, ast.Name) and tot.id in totals:
                    arr = totals[tot.id]
                elif isinstance(tot, ast.Call) and isinstance(tot.func, ast.Attribute) and tot.func.attr == 'sum' and isinstance(tot.func.value, ast.Name) and not tot.args \
                        and not any(k.arg in ('axis', 'dim') for k in tot.keywords):
                    arr = tot.func.value.id
                if arr is None:
                    continue
                n += 1
                if isinstance(ln, ast.Call) and isinstance(ln.func, ast.Name) and ln.func.id == 'len' and ln.args and isinstance(ln.args[0], ast.Name) and ln.args[0].id == arr:
                    rep.touch(m)
                    rep.violation('LEN1', fi.qual, f'`{ast.unparse(c)}`: a count over all elements of `{arr}` is compared with `len({arr})` (first axis only); right for 1-D arrays '
                                  f'only - use `{arr}.size`', m, c)
                else:
                    rep.ok('LEN1', fi.qual, f'`{ast.unparse(c)[:50]}`', m, c)
    rep.count('LEN1.total_count_comparisons', n)
    return n


def s9(proj, rep, modules=None):
    rep.rule('S9', RULE_S9)
    n = 0
    for fi in proj.iter_functions():
        m = fi.module
        if not _in_scope(m, modules) or fi.cls is None:
            continue
        seedp = [p for p in fi.all_params if p in ('seed', 'rng_or_seed')]
        if not seedp:
            continue
        # generator names: bound from get_numpy_rng(seed) / default_rng(seed)
        gens = set(seedp)
        for s in ast.walk(fi.node):
            if isinstance(s, ast.Assign) and isinstance(s.targets[0], ast.Name) and any(isinstance(y, ast.Name) and y.id in gens for y in ast.walk(s.value)):
                gens.add(s.targets[0].id)
        for c in ast.walk(fi.node):
            if not (isinstance(c, ast.Call) and any(isinstance(a, ast.Name) and a.id in gens for a in list(c.args) + [k.value for k in c.keywords])):
                continue
            if ast.unparse(c.func).split('.')[-1] in ('get_numpy_rng', 'get_random_rng', 'default_rng'):
                continue
            n += 1
            rep.touch(m)
            bad = None
            for p in _ancestors(c, fi.node):
                if isinstance(p, ast.If):
                    names = {y.id for y in ast.walk(p.test) if isinstance(y, ast.Name)}
                    exprs = [p.test]
                    for nm in names:
                        exprs += [v for v, st, pp in reaching_defs(fi.node, nm, p) if v != 'param' and isinstance(v, ast.AST)]
                    if any(isinstance(y, ast.Attribute) and isinstance(y.value, ast.Name) and y.value.id == 'self' for e in exprs for y in ast.walk(e)):
                        bad = p
            if bad is not None:
                rep.violation('S9', fi.qual, f'`{ast.unparse(c)[:50]}` uses the generator only when `{ast.unparse(bad.test)[:50]}`, a condition on object state left by earlier calls: the '
                              f'result for a given seed depends on the call history', m, c)
            else:
                rep.ok('S9', fi.qual, f'`{ast.unparse(c)[:50]}` not gated by object state', m, c)
    rep.count('S9.generator_uses_in_methods', n)
    return n


# ------------------------------------------------------------------------------------------------ H10 / PAR1 / ST3 / DT10 / P2 / BI2
RULE_H10 = ('H10: the export CliffordCircuit.to_universal_circuit appends exactly one state-vector gate per recorded gate, by a direct builder call in each arm of the '
            'arity dispatch; it does not fuse gates by multiplying into the matrix of an earlier gate (the product order of a fused run is the reverse of the '
            'reading order, and the tableau path does not fuse).')
RULE_PAR1 = ('PAR1: a parity computed by xor-folding (`p ^= p >> s` for s in a literal tuple) folds every bit of the word: the largest shift is at least 32 for a 64-bit '
             'index. Shifts (4, 2, 1) fold the low byte only: from 9 qubits on, Z / Y factors on the leading qubits get the wrong sign.')
RULE_ST3 = ('ST3: whether the caller passed a single item or a batch is read from `ndim` BEFORE the array is flattened; after `x.reshape(-1, L)` the test `x.shape[0] == 1` '
            'also holds for a batch of one, whose batch axes must be kept.')
RULE_DT10 = ('DT10: an in-place update with a floating-point quantity (`np.fill_diagonal(x, x.diagonal() + shift)`, `x += eps`) is never applied to a plain copy of an '
             'input (`x = x.copy()`): the copy keeps the input dtype, so for an integer-typed matrix the shift is truncated to 0. (`x + shift*eye` promotes.)')
RULE_P2 = ('P2: the irrep blocks of the symmetric-extension SDP factorise as (dimA) x (block/dimA): a `cvxpy.partial_transpose(block, [d0, n//d0], axis)` names dimA as '
           'the first factor. With dimB the factorisation is wrong for dimA != dimB: the constraint is no longer a positive map on product states and separable '
           'states become infeasible.')
RULE_BI2 = ('BI2: the Sp(2n, F2) bookkeeping works with Python integers of unbounded size (digits up to 4^n): no such value is converted to a fixed-width NumPy integer '
            '(`np.array([int(i)], dtype="<u8")`, `np.array(base) * np.array(..)`): the conversion raises from 2^64 on or wraps silently from n = 17 on.')


def h10(proj, rep):
    rep.rule('H10', RULE_H10)
    fi = proj.func('numqi.sim.clifford.CliffordCircuit.to_universal_circuit')
    m = fi.module
    rep.touch(m)
    n = 0
    loop = next((lp for lp in ast.walk(fi.node) if isinstance(lp, ast.For) and 'gate_index_list' in ast.unparse(lp.iter)), None)
    if loop is None:
        rep.undecided('H10', fi.qual, 'loop over gate_index_list not found', m, fi.node, text='export loop')
        return 0
    chain = next((s for s in loop.body if isinstance(s, ast.If)), None)
    arms = []
    if chain is not None:
        arms.append(chain.body)
        if chain.orelse:
            arms.append(chain.orelse)
    for body in arms:
        n += 1
        direct = [s for s in body if any(isinstance(c, ast.Call) and isinstance(c.func, ast.Attribute) and c.func.attr.endswith('_gate') for c in
                                         ([s.value] if isinstance(s, ast.Expr) else ([s.value] if isinstance(s, ast.Assign) else [])))]
        nested = [c for s in body for c in ast.walk(s) if isinstance(c, ast.Call) and isinstance(c.func, ast.Attribute) and c.func.attr.endswith('_gate')]
        if direct:
            rep.ok('H10', fi.qual, 'arm appends its gate by a direct builder call', m, direct[0])
        elif nested:
            rep.violation('H10', fi.qual, f'`{ast.unparse(nested[0])[:60]}` is conditional in this arm: some recorded gates are not appended as gates of their own', m, nested[0])
        else:
            n -= 1
            rep.undecided('H10', fi.qual, 'no builder call in the arm', m, body[0])
    for s in ast.walk(fi.node):
        if isinstance(s, ast.Assign) and isinstance(s.targets[0], ast.Attribute) and s.targets[0].attr == 'array':
            n += 1
            rep.violation('H10', fi.qual, f'`{ast.unparse(s)[:70]}` multiplies into the matrix of an earlier gate: a fused run is applied in the order of this product, not in '
                          f'recording order', m, s)
    rep.count('H10.export_arms', n)
    return n


def par1_st3(proj, rep, modules):
    rep.rule('PAR1', RULE_PAR1)
    rep.rule('ST3', RULE_ST3)
    nfun = 0
    for fi in proj.iter_functions():
        m = fi.module
        if not _in_scope(m, modules):
            continue
        nfun += 1
        for lp in ast.walk(fi.node):
            if isinstance(lp, ast.For) and isinstance(lp.iter, (ast.Tuple, ast.List)) and all(isinstance(e, ast.Constant) and isinstance(e.value, int) for e in lp.iter.elts) \
                    and isinstance(lp.target, ast.Name):
                fold = any(isinstance(b, ast.BinOp) and isinstance(b.op, ast.BitXor) and any(isinstance(y, ast.BinOp) and isinstance(y.op, ast.RShift) and isinstance(y.right, ast.Name)
                                                                                          and y.right.id == lp.target.id for y in ast.walk(b)) for s in lp.body for b in ast.walk(s))
                if fold:
                    mx = max(e.value for e in lp.iter.elts)
                    rep.touch(m)
                    if mx < 32:
                        rep.violation('PAR1', fi.qual, f'`for {lp.target.id} in {ast.unparse(lp.iter)}`: the xor-fold covers the low {2 * mx} bits only; indices of {2 * mx + 1} or more bits '
                                      f'(qubits) get a wrong parity', m, lp)
                    else:
                        rep.ok('PAR1', fi.qual, f'xor-fold with shifts up to {mx}', m, lp)
        # ST3
        flat_at = {}
        for s in ast.walk(fi.node):
            if isinstance(s, ast.Assign) and isinstance(s.targets[0], ast.Name) and isinstance(s.value, ast.Call) and isinstance(s.value.func, ast.Attribute) \
                    and s.value.func.attr == 'reshape' and s.value.args and ast.unparse(s.value.args[0]).replace(' ', '') == '-1' \
                    and isinstance(s.value.func.value, ast.Name) and s.value.func.value.id == s.targets[0].id:
                flat_at.setdefault(s.targets[0].id, s.lineno)
        for s in ast.walk(fi.node):
            if isinstance(s, ast.Assign) and isinstance(s.targets[0], ast.Name) and 'single' in s.targets[0].id and isinstance(s.value, ast.Compare):
                t = ast.unparse(s.value).replace(' ', '')
                for arr, ln in flat_at.items():
                    if s.lineno > ln and (f'{arr}.shape[0]==1' in t or f'len({arr})==1' in t):
                        rep.touch(m)
                        rep.violation('ST3', fi.qual, f'`{ast.unparse(s)}` is evaluated after `{arr}` was flattened (line {ln}): a batch holding one item is taken for a single item and '
                                      f'loses its batch axes', m, s)
    rep.count('PAR1.functions_scanned', nfun)
    if nfun:
        rep.ok('PAR1', 'scope', f'{nfun} functions scanned: no short xor-fold, no single-item flag read after flattening', proj.mod('numqi.utils'), proj.mod('numqi.utils').tree,
               text='parity fold / single flag sweep')
    return nfun


def dt10(proj, rep, modules=None):
    rep.rule('DT10', RULE_DT10)
    n = 0
    for fi in proj.iter_functions():
        m = fi.module
        if not _in_scope(m, modules):
            continue
        params = set(fi.all_params)
        floatp = set()
        for a, d in zip(reversed(fi.node.args.posonlyargs + fi.node.args.args), reversed(fi.node.args.defaults)):
            if isinstance(d, ast.Constant) and isinstance(d.value, float):
                floatp.add(a.arg)
        for a in fi.node.args.posonlyargs + fi.node.args.args + fi.node.args.kwonlyargs:
            if a.annotation is not None and ast.unparse(a.annotation) == 'float':
                floatp.add(a.arg)
        copies = {}
        for s in ast.walk(fi.node):
            if isinstance(s, ast.Assign) and isinstance(s.targets[0], ast.Name) and isinstance(s.value, ast.Call) and isinstance(s.value.func, ast.Attribute) \
                    and s.value.func.attr == 'copy' and not s.value.args and isinstance(s.value.func.value, ast.Name) and s.value.func.value.id in params:
                copies[s.targets[0].id] = s
        if not copies or not floatp:
            continue
        for c in ast.walk(fi.node):
            tgt = val = None
            if isinstance(c, ast.Call) and ast.unparse(c.func).endswith('fill_diagonal') and len(c.args) >= 2 and isinstance(c.args[0], ast.Name):
                tgt, val = c.args[0].id, c.args[1]
            elif isinstance(c, ast.AugAssign) and isinstance(c.target, ast.Name):
                tgt, val = c.target.id, c.value
            if tgt in copies and val is not None and c.lineno > copies[tgt].lineno:
                n += 1
                rep.touch(m)
                if any(isinstance(y, ast.Name) and y.id in floatp for y in ast.walk(val)) or any(isinstance(y, ast.Constant) and isinstance(y.value, float) for y in ast.walk(val)):
                    rep.violation('DT10', fi.qual, f'`{ast.unparse(c)[:70]}` updates `{tgt} = {ast.unparse(copies[tgt].value)}` (input dtype kept) in place with a floating-point quantity: '
                                  f'for an integer-typed input it is truncated', m, c)
    rep.count('DT10.inplace_updates_of_input_copies', n)
    return n


def p2(proj, rep, modules=('numqi.entangle.symext',)):
    from .kdefects import _role
    rep.rule('P2', RULE_P2)
    n = 0
    for fi in proj.iter_functions():
        m = fi.module
        if not _in_scope(m, list(modules)):
            continue
        for c in ast.walk(fi.node):
            if isinstance(c, ast.Call) and ast.unparse(c.func).endswith('partial_transpose') and len(c.args) >= 2 and isinstance(c.args[1], (ast.List, ast.Tuple)) and len(c.args[1].elts) == 2:
                d0, d1 = c.args[1].elts
                if not (isinstance(d0, ast.Name) and _role(d0.id) is not None and isinstance(d1, ast.BinOp) and isinstance(d1.op, ast.FloorDiv)):
                    continue
                n += 1
                rep.touch(m)
                if _role(d0.id)[1] == 0 and isinstance(d1.right, ast.Name) and d1.right.id == d0.id:
                    rep.ok('P2', fi.qual, f'`{ast.unparse(c)[:60]}`: first factor dimA', m, c)
                else:
                    rep.violation('P2', fi.qual, f'`{ast.unparse(c)[:80]}` factorises the irrep block with `{d0.id}` as its first factor; the blocks are (dimA) x (block/dimA): wrong '
                                  f'factorisation whenever dimA != dimB', m, c)
    rep.count('P2.block_partial_transposes', n)
    return n


def bi2(proj, rep, modules=('numqi.group.spf2',)):
    rep.rule('BI2', RULE_BI2)
    n = 0
    for fi in proj.iter_functions():
        m = fi.module
        if not _in_scope(m, list(modules)):
            continue
        n += 1
        for c in ast.walk(fi.node):
            if not (isinstance(c, ast.Call) and ast.unparse(c.func) in ('np.array', 'np.asarray', 'numpy.array', 'np.uint64', 'np.int64', 'np.fromiter')):
                continue
            dt = next((k.value for k in c.keywords if k.arg == 'dtype'), None)
            dts = ast.unparse(dt) if dt is not None else ''
            wide = any(k in dts for k in ('u8', 'i8', 'uint64', 'int64')) or ast.unparse(c.func) in ('np.uint64', 'np.int64')
            arg = c.args[0] if c.args else None
            from_int = arg is not None and any(isinstance(y, ast.Call) and isinstance(y.func, ast.Name) and y.func.id == 'int' for y in ast.walk(arg))
            from_base = arg is not None and any(isinstance(y, ast.Name) and y.id in ('base', 'coset', 'int_base') for y in ast.walk(arg)) and dt is None \
                and isinstance(getattr(c, '_parent', None), ast.BinOp)
            if (wide and from_int) or from_base:
                rep.touch(m)
                rep.violation('BI2', fi.qual, f'`{ast.unparse(c)[:60]}` converts an unbounded Python integer of the Sp(2n,F2) bookkeeping to a fixed-width NumPy integer: it raises from '
                              f'2^64 on / wraps silently in products from n = 17 on', m, c)
    rep.count('BI2.functions_scanned', n)
    if n:
        rep.ok('BI2', 'numqi.group.spf2', f'{n} functions scanned: no fixed-width conversion of group-size integers', proj.mod('numqi.group.spf2'), proj.mod('numqi.group.spf2').tree,
               text='bigint conversion sweep')
    return n


# ------------------------------------------------------------------------------------------------ A12 / SD1
RULE_A12 = ('A12: no `backward` of a torch.autograd.Function re-normalises a quantity of the reverse sweep by a norm / trace computed from the data, and none selects its formula by the numeric content of an operator / tensor (array_equal / allclose / count_nonzero '
            '/ all / any): "every factor is Hermitian" does not make their PRODUCT Hermitian, and a formula chosen by the current value is not the derivative at '
            'neighbouring points.')
RULE_SD1 = ('SD1: no quotient has a pairwise difference of one vector with itself as denominator (`(f(a_i) - f(a_j)) / (a_i - a_j)` written with two broadcast views of '
            'the same array) without a guard for equal entries: a repeated eigenvalue gives 0/0 = NaN (maximally mixed, Werner and isotropic states have repeated '
            'eigenvalues).')


def a12(proj, rep):
    rep.rule('A12', RULE_A12)
    n = 0
    for cq, ci in sorted(proj.classes.items()):
        bases = [ast.unparse(b) for b in ci.node.bases]
        if not any(b.endswith('autograd.Function') or b == 'Function' for b in bases):
            continue
        fi = ci.methods.get('backward')
        if fi is None:
            continue
        m = ci.module
        rep.touch(m)
        n += 1
        bad = None
        for g in ast.walk(fi.node):
            if isinstance(g, (ast.If, ast.IfExp)):
                if any(isinstance(c, ast.Call) and ast.unparse(c.func).split('.')[-1] in ('array_equal', 'allclose', 'count_nonzero', 'isclose', 'equal') for c in ast.walk(g.test)):
                    bad = g
        renorm = None
        for b in ast.walk(fi.node):
            if isinstance(b, (ast.BinOp, ast.AugAssign)) and isinstance(b.op, ast.Div):
                den = b.right if isinstance(b, ast.BinOp) else b.value
                if any(isinstance(c, ast.Call) and ast.unparse(c.func).split('.')[-1] in ('norm', 'trace') for c in ast.walk(den)):
                    renorm = b
        if renorm is not None:
            rep.violation('A12', f'{cq}.backward', f'`{ast.unparse(renorm)[:60]}` re-normalises a quantity of the reverse sweep by a data-dependent norm: for an input of norm c != 1 '
                          f'the gradients computed afterwards are scaled by 1/c', m, renorm)
        elif bad is not None:
            rep.violation('A12', f'{cq}.backward', f'`{ast.unparse(bad.test)[:70]}` chooses the gradient formula by the current value of an operator', m, bad)
        else:
            rep.ok('A12', f'{cq}.backward', 'gradient formula does not branch on operator values', m, fi.node, text=f'{cq}.backward value branches')
    rep.count('A12.backward_methods', n)
    return n


def sd1(proj, rep, modules=None):
    rep.rule('SD1', RULE_SD1)
    n = 0

    def base_of_view(e):
        cur = e
        for _ in range(4):
            if isinstance(cur, ast.Call) and isinstance(cur.func, ast.Attribute) and cur.func.attr in ('view', 'reshape', 'unsqueeze'):
                cur = cur.func.value
            elif isinstance(cur, ast.Subscript) and any(_is_newaxis(x) for x in (cur.slice.elts if isinstance(cur.slice, ast.Tuple) else [cur.slice])):
                cur = cur.value
            else:
                break
        return ast.dump(cur) if cur is not e else None

    def pair_diff(e):
        return isinstance(e, ast.BinOp) and isinstance(e.op, ast.Sub) and base_of_view(e.left) is not None and base_of_view(e.left) == base_of_view(e.right) \
            and ast.dump(e.left) != ast.dump(e.right)
    for fi in proj.iter_functions():
        m = fi.module
        if not _in_scope(m, modules):
            continue
        for b in ast.walk(fi.node):
            if not (isinstance(b, ast.BinOp) and isinstance(b.op, ast.Div)):
                continue
            den = b.right
            cands = [den]
            if isinstance(den, ast.Name):
                cands = [v for v, st, p in reaching_defs(fi.node, den.id, b) if v != 'param' and isinstance(v, ast.AST)]
            if any(pair_diff(c) for c in cands):
                n += 1
                rep.touch(m)
                guarded = any(isinstance(p, ast.Call) and ast.unparse(p.func).split('.')[-1] == 'where' for p in _ancestors(b, fi.node))
                if guarded:
                    rep.ok('SD1', fi.qual, f'`{ast.unparse(b)[:50]}` inside where()', m, b)
                else:
                    rep.violation('SD1', fi.qual, f'`{ast.unparse(b)[:70]}`: the denominator is the pairwise difference of one array with itself: 0/0 for repeated entries '
                                  f'(degenerate spectra)', m, b)
    rep.count('SD1.pairwise_difference_quotients', n)
    return n


# ------------------------------------------------------------------------------------------------ W10 / W11 / HM5 (+ W8 angle)
RULE_W10 = ('W10: the Cayley chart returns C^order: written as a power, `matrix_power(C, order)`; written as a loop, `ret = C` followed by `order - 1` multiplications. '
            '`matrix_power(C, order - 1)` is the identity for order = 1: a constant map (Jacobian rank 0).')
RULE_W11 = ('W11: when a dense parameter matrix is split into `triu(theta, a)` and `tril(theta, b)` every entry belongs to one of the two parts: a <= b + 1. '
            '`triu(theta, 1)` with `tril(theta, -1)` drops the diagonal: d parameters never reach the output (rank d^2 - d instead of d^2).')
RULE_HM5 = ('HM5: in the entanglement criteria a density-matrix argument (rho / dm) is Hermitised with the CONJUGATE transpose. `(rho + rho.transpose(0,2,1))/2` is '
            'Re(rho): still a state, but a different one for every complex-valued input, so the criterion is evaluated on the wrong state.')


def w10_w11(proj, rep):
    rep.rule('W10', RULE_W10)
    rep.rule('W11', RULE_W11)
    n = 0
    fi = proj.func('numqi.manifold._internal.to_special_orthogonal_cayley')
    m = fi.module
    rep.touch(m)
    pw = [c for c in ast.walk(fi.node) if isinstance(c, ast.Call) and ast.unparse(c.func).endswith('matrix_power') and len(c.args) == 2]
    loops = [lp for lp in ast.walk(fi.node) if isinstance(lp, ast.For) and isinstance(lp.iter, ast.Call) and ast.unparse(lp.iter.func) == 'range']
    for c in pw:
        n += 1
        if ast.unparse(c.args[1]).replace(' ', '') == 'order':
            rep.ok('W10', fi.qual, f'`{ast.unparse(c)[:50]}`', m, c)
        else:
            rep.violation('W10', fi.qual, f'`{ast.unparse(c)[:60]}`: exponent `{ast.unparse(c.args[1])}` instead of `order`: for order = 1 the chart is the identity for every theta', m, c)
    for lp in loops:
        n += 1
        a = ast.unparse(lp.iter.args[0]).replace(' ', '') if len(lp.iter.args) == 1 else None
        if a in ('order-1', '(order-1)'):
            rep.ok('W10', fi.qual, f'`for _ in {ast.unparse(lp.iter)}` after ret = C', m, lp)
        else:
            rep.violation('W10', fi.qual, f'`for .. in {ast.unparse(lp.iter)}`: the number of further multiplications is not order - 1', m, lp)
    if n == 0:
        rep.undecided('W10', fi.qual, 'neither matrix_power nor the multiplication loop found', m, fi.node, text='cayley power')
    # W11 over the manifold maps
    n11 = 0
    for f2 in proj.iter_functions():
        if not f2.module.name.startswith('numqi.manifold'):
            continue
        tri = {}
        for c in ast.walk(f2.node):
            if isinstance(c, ast.Call) and ast.unparse(c.func).split('.')[-1] in ('triu', 'tril') and c.args and isinstance(c.args[0], ast.Name):
                kind = ast.unparse(c.func).split('.')[-1]
                k = c.args[1] if len(c.args) >= 2 else next((kw.value for kw in c.keywords if kw.arg in ('k', 'diagonal')), None)
                try:
                    kv = 0 if k is None else int(ast.literal_eval(k))
                except Exception:
                    continue
                backend = ast.unparse(c.func).split('.')[0]
                tri.setdefault((c.args[0].id, backend), {}).setdefault(kind, []).append((kv, c))
        for (nm, be), d in tri.items():
            if 'triu' in d and 'tril' in d:
                for a, ca in d['triu']:
                    n11 += 1
                    b = max(x for x, _ in d['tril'])
                    if a <= b + 1:
                        rep.ok('W11', f2.qual, f'`{ast.unparse(ca)}` with tril(.., {b}) covers every entry', f2.module, ca)
                    else:
                        rep.violation('W11', f2.qual, f'`{ast.unparse(ca)}` with `tril({nm}, {b})`: the diagonals {b + 1}..{a - 1} of `{nm}` belong to neither part: those parameters '
                                      f'never reach the output', f2.module, ca)
    rep.count('W10.power_sites', n)
    rep.count('W11.triangular_splits', n11)
    return n, n11


def hm5(proj, rep, modules=('numqi.entangle', 'numqi.utils')):
    from .hermitian import _base_of
    rep.rule('HM5', RULE_HM5)
    n = 0
    STATE = {'rho', 'dm', 'rhoAB', 'dm0', 'rho0', 'dm_target', 'rho_list', 'dm_list', 'sigma', 'rho1', 'dm1'}
    for fi in proj.iter_functions():
        m = fi.module
        if not _in_scope(m, list(modules)):
            continue
        sp = STATE & set(fi.all_params)
        if not sp:
            continue
        # names derived from the state by arithmetic / reshape / transpose (one Hermitian matrix in, one Hermitian-up-to-layout matrix out)
        sp = set(sp)
        changed = True
        while changed:
            changed = False
            for s2 in ast.walk(fi.node):
                if isinstance(s2, ast.Assign) and len(s2.targets) == 1 and isinstance(s2.targets[0], ast.Name) and s2.targets[0].id not in sp:
                    v = s2.value
                    names = {y.id for y in ast.walk(v) if isinstance(y, ast.Name)}
                    calls = [ast.unparse(c.func).split('.')[-1] for c in ast.walk(v) if isinstance(c, ast.Call)]
                    if names & sp and all(c in ('reshape', 'transpose', 'copy', 'astype', 'asarray') for c in calls) and not any(
                            isinstance(y, ast.Attribute) and y.attr in ('real', 'imag') for y in ast.walk(v)):
                        sp.add(s2.targets[0].id)
                        changed = True
        n += 1
        rep.touch(m)
        bad = None
        for b in ast.walk(fi.node):
            if isinstance(b, ast.BinOp) and isinstance(b.op, (ast.Add, ast.Sub)):
                ln, lt, lc = _base_of(b.left)
                rn, rt, rc = _base_of(b.right)
                if ln is not None and ln == rn and ln in sp and lt != rt and lc == rc and not isinstance(_stmt(b), ast.Assert):
                    bad = b
        if bad is not None:
            rep.violation('HM5', fi.qual, f'`{ast.unparse(bad)[:60]}` combines the state with its bare transpose: this is Re / Im of the state, not its Hermitian part', m, bad)
        else:
            rep.ok('HM5', fi.qual, 'state argument never combined with its bare transpose', m, fi.node, text=f'{fi.qual} hermitisation')
    rep.count('HM5.functions_with_state_arguments', n)
    return n


# ------------------------------------------------------------------------------------------------ round 5, second half
RULE_QF1 = ('QF1: a quadratic form <v|M|v> written `vdot(v, E)` with a matrix product E has v as the RIGHT operand of that product (`M @ v`). `vdot(v, v @ M)` is '
            '<v|M^T|v> = conj(<v|M|v>) for Hermitian M: equal only for real data.')
RULE_HM6 = ('HM6: in a function that handles complex data (it conjugates / builds 1j terms), an einsum that uses the SAME array as two operands (a Gram matrix, a '
            'character inner product, an outer product |v><v|) conjugates one of them: `einsum(X, .., X, ..)` / `einsum("ij,ik->ijk", X, X)` is sum X X, not X X^dagger.')
RULE_V5 = ('V5: a convex-roof `forward` never divides by the ensemble weights without a floor: a member of exactly zero weight (a zero row of the Stiefel matrix, the '
           'eigen-ensemble warm start) gives 0/0 = NaN although the decomposition is valid.')
RULE_AC1 = ('AC1: `np.allclose` / `np.isclose` / `torch.allclose` called with an explicit `atol` also names `rtol` (normally rtol=0): the default rtol = 1e-5 is added on '
            'top, so a tolerance parameter of 1e-10 silently becomes 1e-5 relative and nearly-structured input is dispatched to the wrong structure class.')
RULE_LG1 = ('LG1: the layout of an input is never guessed from a size coincidence: `if x.shape[0] == n: x = x.T` transposes every square input that is already in the '
            'documented layout.')
RULE_DT11 = ('DT11: in numqi.gellmann every torch constructor that receives Python floats (`torch.full`, `torch.tensor`, `torch.ones(..)*c`) names its dtype: the default '
             'float32 rounds constants like 1/sqrt(2d) to 1e-8 before they are promoted back to float64.')
RULE_DT6C = ('DT6C: in numqi.gellmann a buffer that receives sqrt-scaled coefficients is not allocated with the dtype of the input (`empty_like(vec[...])`): integer '
             'coefficient vectors (unit vectors e_i) would have the irrational factors truncated.')
RULE_UPB1 = ('UPB1: in the literal table of the four-qubit UPB every two product vectors are orthogonal because some party holds two different vectors of the same '
             'orthonormal basis b_k; the checker evaluates this on the (basis, index) labels of the literal table - a transcription slip in an index list breaks '
             'orthogonality of the set and the rank of the complementary projector.')
RULE_GR8 = ('GR8: a hard-coded table of partition numbers equals p(0), p(1), ... computed by the checker (Euler recurrence): a mistyped entry makes the irrep count '
            'disagree with the number of Young diagrams for that N only.')
RULE_PG2 = ('PG2: `get_su2_irrep` never reduces alpha / gamma modulo 2 pi: exp(-i m alpha) with half-integer m is 4 pi periodic, the wrap flips the sign of the whole '
            'matrix for odd 2j.')
RULE_AG7 = ('AG7: the 4 pi sheet of gamma in `su2_to_angle` is decided by the real part of the COMPLEX product exp(i(alpha+gamma)/2) * a: a test built from `a.real` '
            'alone drops the -sin * Im(a) term and leaves gamma unshifted whenever U[0,0] is purely imaginary (diag(i,-i), i*H).')
RULE_M3G = ('M3(g): measure_quantum_vector does not reject states by an absolute double-precision tolerance on the probabilities (`assert abs(prob.sum()-1) < 1e-10`): '
            'a correctly normalised complex64 state is off by 1e-7.')


def qf1_hm6_ac1_lg1(proj, rep, modules=None):
    for k, v in (('QF1', RULE_QF1), ('HM6', RULE_HM6), ('AC1', RULE_AC1), ('LG1', RULE_LG1)):
        rep.rule(k, v)
    nfun = nq = 0
    for fi in proj.iter_functions():
        m = fi.module
        if not _in_scope(m, modules):
            continue
        nfun += 1
        src = ast.unparse(fi.node)
        cx_aware = '1j' in src or '.conj()' in src or 'complex' in src
        params = set(fi.all_params)
        for c in ast.walk(fi.node):
            if isinstance(c, ast.Call):
                f = ast.unparse(c.func)
                # QF1
                if f.split('.')[-1] == 'vdot' and len(c.args) == 2 and isinstance(c.args[0], ast.Name) and isinstance(c.args[1], ast.BinOp) and isinstance(c.args[1].op, ast.MatMult):
                    v = c.args[0].id
                    mm = c.args[1]
                    l_is = isinstance(mm.left, ast.Name) and mm.left.id == v
                    r_is = isinstance(mm.right, ast.Name) and mm.right.id == v
                    if l_is or r_is:
                        nq += 1
                        rep.touch(m)
                        if l_is and not r_is:
                            rep.violation('QF1', fi.qual, f'`{ast.unparse(c)[:60]}`: the vector `{v}` multiplies the matrix from the left: this is <{v}|M^T|{v}>, the conjugate of the '
                                          f'quadratic form for Hermitian M', m, c)
                        else:
                            rep.ok('QF1', fi.qual, f'`{ast.unparse(c)[:50]}`', m, c)
                # HM6
                if f.split('.')[-1] in ('einsum', 'contract') and cx_aware:
                    ops = [a for a in c.args if isinstance(a, ast.Name)]
                    names = [a.id for a in ops]
                    dup = {x for x in names if names.count(x) >= 2}
                    has_conj = any(isinstance(a, ast.Call) and isinstance(a.func, ast.Attribute) and a.func.attr in ('conj', 'conjugate') for a in c.args)
                    if dup and not has_conj and not isinstance(_stmt(c), ast.Assert):
                        x = sorted(dup)[0]
                        # complex evidence for that very array: defined with 1j / conj / from a complex-capable producer, or it is a parameter of a complex-aware function
                        defs = [v for v, st, p in reaching_defs(fi.node, x, c) if v != 'param' and isinstance(v, ast.AST)]
                        real_only = defs and all(('.real' in ast.unparse(v) or 'abs(' in ast.unparse(v)) for v in defs)
                        if not real_only and _complex_flow(fi, x, c):
                            rep.touch(m)
                            rep.violation('HM6', fi.qual, f'`{ast.unparse(c)[:70]}` contracts `{x}` with itself without a conjugate in a function that handles complex data: for complex '
                                          f'`{x}` this is not a Gram matrix / projector', m, c)
                # HS1 (reported under HM6): <A, B> = sum conj(A_ij) B_ij of two flattened square matrices needs the conjugate on one of them
                if f.split('.')[-1] in ('einsum', 'contract') and len(c.args) >= 4:
                    ops = [(c.args[i], c.args[i + 1]) for i in range(0, len(c.args) - 1, 2) if isinstance(c.args[i + 1], ast.List)]

                    def flat_sq(e):
                        e2 = e.func.value if isinstance(e, ast.Call) and isinstance(e.func, ast.Attribute) and e.func.attr in ('conj', 'conjugate') else e
                        return isinstance(e2, ast.Call) and isinstance(e2.func, ast.Attribute) and e2.func.attr == 'reshape' and len(e2.args) == 2 \
                            and isinstance(e2.args[1], ast.BinOp) and isinstance(e2.args[1].op, ast.Mult) and ast.dump(e2.args[1].left) == ast.dump(e2.args[1].right)
                    if len(ops) == 2 and ast.dump(ops[0][1]) == ast.dump(ops[1][1]) and all(flat_sq(o) for o, _ in ops):
                        nq += 1
                        rep.touch(m)
                        if any('conj' in ast.unparse(o) for o, _ in ops):
                            rep.ok('HM6', fi.qual, f'`{ast.unparse(c)[:60]}`: Hilbert-Schmidt product with a conjugate', m, c)
                        else:
                            rep.violation('HM6', fi.qual, f'`{ast.unparse(c)[:80]}`: the Hilbert-Schmidt product of two flattened matrices without a conjugate is Tr(A^T B), not '
                                          f'Tr(A^dagger B): for a complex Hermitian state this adds S(rho || rho^T)', m, c)
                # AC1
                if f.split('.')[-1] in ('allclose', 'isclose') and any(k.arg == 'atol' for k in c.keywords) and not any(k.arg == 'rtol' for k in c.keywords) and len(c.args) < 3:
                    rep.touch(m)
                    rep.violation('AC1', fi.qual, f'`{ast.unparse(c)[:70]}` passes atol but keeps the default rtol = 1e-5: the effective tolerance is atol + 1e-5*|b|', m, c)
            # LG1
            if isinstance(c, ast.If) and isinstance(c.test, ast.Compare) and len(c.test.ops) == 1 and isinstance(c.test.ops[0], ast.Eq):
                t = c.test
                sides = [t.left, t.comparators[0]]
                shp = [s for s in sides if isinstance(s, ast.Subscript) and isinstance(s.value, ast.Attribute) and s.value.attr == 'shape' and isinstance(s.value.value, ast.Name)
                       and s.value.value.id in params]
                if shp:
                    p = shp[0].value.value.id
                    for s in c.body:
                        if isinstance(s, ast.Assign) and isinstance(s.targets[0], ast.Name) and s.targets[0].id == p:
                            tv = ast.unparse(s.value).replace(' ', '')
                            if tv in (f'{p}.T', f'{p}.transpose()', f'{p}.transpose(1,0)', f'{p}.mT', f'{p}.transpose(0,1)'):
                                rep.touch(m)
                                rep.violation('LG1', fi.qual, f'`if {ast.unparse(t)}: {ast.unparse(s)}`: the input layout is guessed from a size coincidence; a square input in the documented '
                                              f'layout is transposed as well', m, c)
    rep.count('QF1.quadratic_forms', nq)
    rep.count('QF1.functions_scanned', nfun)
    if nfun:
        rep.ok('HM6', 'scope', f'{nfun} functions scanned: no self-contraction without conjugate in complex-aware code, no allclose with a hidden rtol, no layout guess', proj.mod('numqi.utils'),
               proj.mod('numqi.utils').tree, text='hm6 / ac1 / lg1 sweep')
    return nfun, nq


def _complex_flow(fi, name, at):
    """does `name` plausibly hold complex data here?  a 1j / exp(1j..) / complex producer in its definitions (2 hops), or a parameter"""
    seen = set()

    def go(nm, node, depth):
        if depth > 2 or nm in seen:
            return False
        seen.add(nm)
        for v, st, p in reaching_defs(fi.node, nm, node):
            if v == 'param':
                return True
            if not isinstance(v, ast.AST):
                continue
            t = ast.unparse(v)
            if '1j' in t or 'complex' in t or '.conj()' in t:
                return True
            for y in ast.walk(v):
                if isinstance(y, ast.Name) and go(y.id, st, depth + 1):
                    return True
        # list-valued names filled by append
        for c in ast.walk(fi.node):
            if isinstance(c, ast.Call) and isinstance(c.func, ast.Attribute) and c.func.attr in ('append', 'extend') and isinstance(c.func.value, ast.Name) and c.func.value.id == nm:
                t = ast.unparse(c)
                if '1j' in t or 'complex' in t:
                    return True
                for y in ast.walk(c):
                    if isinstance(y, ast.Name) and y.id != nm and go(y.id, c, depth + 1):
                        return True
        return False
    return go(name, at, 0)


def v5(proj, rep, modules):
    rep.rule('V5', RULE_V5)
    n = 0
    for fi in proj.iter_functions():
        m = fi.module
        if not _in_scope(m, modules) or fi.cls is None or fi.qual.rsplit('.', 1)[1] != 'forward':
            continue
        weights = {s.targets[0].id for s in ast.walk(fi.node) if isinstance(s, ast.Assign) and isinstance(s.targets[0], ast.Name) and s.targets[0].id in ('prob', 'weight', 'p_list', 'prob_list')}
        if not weights:
            continue
        n += 1
        rep.touch(m)
        bad = None
        for b in ast.walk(fi.node):
            if isinstance(b, ast.BinOp) and isinstance(b.op, ast.Div):
                den = b.right
                if any(isinstance(y, ast.Name) and y.id in weights for y in ast.walk(den)) and not any(
                        isinstance(c, ast.Call) and ast.unparse(c.func).split('.')[-1] in ('maximum', 'clamp', 'clip', 'clamp_min') for c in ast.walk(den)):
                    bad = b
        if bad is not None:
            rep.violation('V5', fi.qual, f'`{ast.unparse(bad)[:70]}` divides by the ensemble weights without a floor: NaN for a member of zero weight', m, bad)
        else:
            rep.ok('V5', fi.qual, 'no unguarded division by the ensemble weights', m, fi.node, text=f'{fi.qual} weight division')
    rep.count('V5.forward_methods_with_weights', n)
    return n


def gellmann_dtype(proj, rep):
    rep.rule('DT11', RULE_DT11)
    rep.rule('DT6C', RULE_DT6C)
    n = 0
    for fi in proj.iter_functions():
        m = fi.module
        if m.name != 'numqi.gellmann':
            continue
        params = set(fi.all_params)
        for c in ast.walk(fi.node):
            if isinstance(c, ast.Call) and ast.unparse(c.func) in ('torch.full', 'torch.tensor', 'torch.ones', 'torch.zeros', 'torch.eye', 'torch.linspace'):
                n += 1
                rep.touch(m)
                if any(k.arg == 'dtype' for k in c.keywords):
                    rep.ok('DT11', fi.qual, f'`{ast.unparse(c)[:50]}` names its dtype', m, c)
                else:
                    rep.violation('DT11', fi.qual, f'`{ast.unparse(c)[:70]}` has no dtype: float32 by default, a constant such as 1/sqrt(2d) is rounded to 1e-8 before the promotion to '
                                  f'float64', m, c)
        for s in ast.walk(fi.node):
            if isinstance(s, ast.Assign) and isinstance(s.targets[0], ast.Name) and isinstance(s.value, ast.Call) and ast.unparse(s.value.func).split('.')[-1] in ('empty_like', 'zeros_like') \
                    and s.value.args and any(isinstance(y, ast.Name) and y.id in params for y in ast.walk(s.value.args[0])) and not any(k.arg == 'dtype' for k in s.value.keywords):
                buf = s.targets[0].id
                for a in ast.walk(fi.node):
                    if isinstance(a, ast.Assign) and isinstance(a.targets[0], ast.Subscript) and isinstance(a.targets[0].value, ast.Name) and a.targets[0].value.id == buf \
                            and any(isinstance(c, ast.Call) and ast.unparse(c.func).split('.')[-1] == 'sqrt' for c in ast.walk(a.value)):
                        n += 1
                        rep.touch(m)
                        rep.violation('DT6C', fi.qual, f'`{ast.unparse(s)[:60]}` inherits the dtype of the coefficient vector and `{ast.unparse(a)[:50]}` stores sqrt-scaled values: integer '
                                      f'coefficient vectors are truncated', m, s)
    rep.count('DT11.torch_constructors_in_gellmann', n)
    return n


def _partition_numbers(k):
    p = [1] + [0] * (k - 1)
    for part in range(1, k):
        for s in range(part, k):
            p[s] += p[s - part]
    return p


def upb1_gr8(proj, rep, which):
    n = 0
    if 'UPB1' in which:
        rep.rule('UPB1', RULE_UPB1)
        fi = proj.func('numqi.entangle.upb.load_upb')
        m = fi.module
        rep.touch(m)
        arm = next((g for g in ast.walk(fi.node) if isinstance(g, ast.If) and "'feng2x2x2x2'" in ast.unparse(g.test)), None)
        parties = None
        if arm is not None:
            defs = {s.targets[0].id: s.value for s in arm.body if isinstance(s, ast.Assign) and isinstance(s.targets[0], ast.Name)}
            up = defs.get('upb')

            def label(e):
                if isinstance(e, ast.Subscript) and isinstance(e.value, ast.Name) and e.value.id in ('b1', 'b2', 'b3') and isinstance(e.slice, ast.Constant):
                    return (int(e.value.id[1]), int(e.slice.value))
                return None
            if isinstance(up, ast.List) and all(isinstance(e, ast.Name) and e.id in defs for e in up.elts):
                parties = []
                for e in up.elts:
                    v = defs[e.id]
                    if isinstance(v, ast.Call) and ast.unparse(v.func).endswith('stack') and isinstance(v.args[0], ast.List):
                        parties.append([label(x) for x in v.args[0].elts])
                    else:
                        parties = None
                        break
            elif isinstance(up, ast.ListComp) and isinstance(defs.get('basis'), ast.Call) and 'concatenate' in ast.unparse(defs['basis'].func):
                order = [x.id for x in defs['basis'].args[0].elts] if isinstance(defs['basis'].args[0], ast.List) else None
                it = up.generators[0].iter
                if order == ['b1', 'b2', 'b3'] and isinstance(it, (ast.Tuple, ast.List)):
                    try:
                        parties = [[(r // 2 + 1, r % 2) for r in ast.literal_eval(x)] for x in it.elts]
                    except Exception:
                        parties = None
        if not parties or any(l is None for p in parties for l in p) or len({len(p) for p in parties}) != 1:
            rep.undecided('UPB1', fi.qual, 'literal table of the feng2x2x2x2 UPB not recognised', m, arm if arm is not None else fi.node, text='feng table')
        else:
            nv = len(parties[0])
            bad = [(i, j) for i in range(nv) for j in range(i + 1, nv) if not any(p[i][0] == p[j][0] and p[i][1] != p[j][1] for p in parties)]
            n += nv * (nv - 1) // 2
            if bad:
                rep.violation('UPB1', fi.qual, f'product vectors {bad[0][0]} and {bad[0][1]} of the feng2x2x2x2 table are not orthogonal: no party holds two different vectors of one '
                              f'basis for this pair ({len(bad)} such pair(s)): the set is not an orthonormal product basis', m, arm)
            else:
                rep.ok('UPB1', fi.qual, f'all {nv * (nv - 1) // 2} pairs of the feng2x2x2x2 table are orthogonal by construction', m, arm)
    if 'GR8' in which:
        rep.rule('GR8', RULE_GR8)
        m = proj.mod('numqi.group._symmetric')
        rep.touch(m)
        for s in m.tree.body:
            if isinstance(s, ast.Assign) and isinstance(s.targets[0], ast.Name) and isinstance(s.value, (ast.Tuple, ast.List)) and len(s.value.elts) >= 8 \
                    and all(isinstance(e, ast.Constant) and isinstance(e.value, int) for e in s.value.elts):
                vals = [e.value for e in s.value.elts]
                p = _partition_numbers(len(vals))
                close = sum(1 for a, b in zip(vals, p) if a == b)
                if close >= len(vals) - 3:          # it IS a table of partition numbers
                    n += 1
                    if vals == p:
                        rep.ok('GR8', f'numqi.group._symmetric.{s.targets[0].id}', f'{len(vals)} partition numbers', m, s)
                    else:
                        k = next(i for i, (a, b) in enumerate(zip(vals, p)) if a != b)
                        rep.violation('GR8', f'numqi.group._symmetric.{s.targets[0].id}', f'entry {k} of the partition-number table is {vals[k]}, p({k}) = {p[k]}', m, s)
    return n


def pg2_ag7_m3g(proj, rep, which):
    n = 0
    if 'PG2' in which:
        rep.rule('PG2', RULE_PG2)
        fi = proj.func('numqi.group._lie.get_su2_irrep')
        m = fi.module
        rep.touch(m)
        n += 1
        bad = None
        for b in ast.walk(fi.node):
            if isinstance(b, ast.BinOp) and isinstance(b.op, ast.Mod) and 'pi' in ast.unparse(b.right):
                bad = b
        if bad is not None:
            rep.violation('PG2', fi.qual, f'`{ast.unparse(bad)[:50]}` wraps an Euler angle: for half-integer spin the representation is 4 pi periodic in alpha and gamma, a 2 pi wrap '
                          f'changes the sign of D^j', m, bad)
        else:
            rep.ok('PG2', fi.qual, 'Euler angles not wrapped', m, fi.node, text='get_su2_irrep angle wrap')
    if 'AG7' in which:
        rep.rule('AG7', RULE_AG7)
        fi = proj.func('numqi.group._lie.su2_to_angle')
        m = fi.module
        rep.touch(m)
        tests = [s for s in ast.walk(fi.node) if isinstance(s, ast.Assign) and isinstance(s.value, ast.Compare) and isinstance(s.value.ops[0], ast.Lt)
                 and isinstance(s.value.comparators[0], ast.Constant) and s.value.comparators[0].value == 0]
        if not tests:
            rep.undecided('AG7', fi.qual, 'sheet test `(...) < 0` not found', m, fi.node, text='sheet test')
        for s in tests:
            n += 1
            t = ast.unparse(s.value.left).replace(' ', '')
            complex_product = ('exp(' in t and 'j' in t and t.endswith('.real')) or ('.imag' in t and '.real' in t)
            if complex_product:
                rep.ok('AG7', fi.qual, f'`{ast.unparse(s)[:60]}`: real part of the complex product', m, s)
            else:
                rep.violation('AG7', fi.qual, f'`{ast.unparse(s)[:70]}`: the sheet test does not take the real part of the complex product exp(i(alpha+gamma)/2)*a (the Im(a) term is '
                              f'missing): purely imaginary U[0,0] is put on the wrong sheet', m, s)
    if 'M3G' in which:
        rep.rule('M3', RULE_M3G)
        fi = proj.func('numqi.sim.state.measure_quantum_vector')
        m = fi.module
        rep.touch(m)
        n += 1
        bad = [a for a in ast.walk(fi.node) if isinstance(a, ast.Assert) and 'prob' in ast.unparse(a.test)
               and any(isinstance(c, ast.Constant) and isinstance(c.value, float) and 0 < c.value < 1e-6 for c in ast.walk(a.test))]
        if bad:
            rep.violation('M3', f'{fi.qual}[tolerance]', f'`{ast.unparse(bad[0])[:70]}` rejects states by a double-precision absolute tolerance: normalised single-precision states '
                          f'(off by 1e-7) can no longer be measured', m, bad[0])
        else:
            rep.ok('M3', f'{fi.qual}[tolerance]', 'no absolute double-precision tolerance on the probabilities', m, fi.node, text='measure tolerance')
    return n


# ------------------------------------------------------------------------------------------------ round 6
RULE_DTYPE1 = ('DTYPE1: a real / complex dispatch of a torch module never tests equality with ONE complex dtype (`dtype == torch.complex128`) and sends everything else to '
               'the real arm: torch.complex64 would get the real parameter count and the module parametrises the real manifold only.')
RULE_H7B = ('H7B: `Circuit.num_qubit` takes the maximum over EVERY index slot of a gate: for a control gate both the control set `index[0]` and the target tuple '
            '`index[1]`. A circuit whose highest qubit occurs only as a control would get a register one qubit too small.')
RULE_GR7 = ('GR7: in the hook branch of the tableau recursion the upper bounds run over `range(youngT[0], youngT.sum())` - the number of ROWS of the diagram (first '
            'entry of the transposed diagram); `young[0]` is the number of columns and coincides only for self-conjugate hooks.')
RULE_E4B = ('E4B: `PauliOperator.__matmul__` has no shortcut selected by object identity (`if b is self`): the phase of P*P is (-1)^(phase bit + x.z), not the phase bit '
            'alone, because XZ = -iY is folded into the phase bits.')
RULE_ID2 = ('ID2: a memo that outlives the call (an attribute of self, a module-level dict) is never keyed by `id(obj)`: CPython reuses addresses of collected objects, so '
            'a new partner at an old address is served the dead partner\'s entry.')
RULE_SG1 = ('SG1: a conversion / closed form defined for every dimension or spectrum has ONE formulation; an early `return` under a literal-dimension test '
            '(`shape[-1] == 2`, `N0 == 2`) or under a small-literal spectrum test is a second formulation whose agreement with the first (normalisation convention, '
            'squares vs. roots) no shape argument can decide: the check stops and asks for re-calibration.')
RULE_DT12 = ('DT12: the items of a list are never all cast to the dtype of its FIRST item (`np.asarray(x, dtype=np.asarray(L[0]).dtype)`): a complex later item loses its '
             'imaginary part when the first one is real.')
RULE_O6 = ('O6: a public constructor of the catalogue modules does not return (a view of) a module-level array: `_TABLE[i]` is a view, every caller shares the table and '
           'an in-place edit of one result rewrites the catalogue.')
RULE_LM2 = ('LM2: a value read from a memo dict (`x = D[key]`) is not updated in place afterwards (`x += ...`): the update lands in the memo, and every later reader of the '
            'same key receives the accumulated value.')


def dtype1_h7b_gr7_e4b(proj, rep, which):
    n = 0
    if 'DTYPE1' in which:
        rep.rule('DTYPE1', RULE_DTYPE1)
        for fi in proj.iter_functions():
            m = fi.module
            if not m.name.startswith('numqi.manifold'):
                continue
            for c in ast.walk(fi.node):
                if isinstance(c, ast.IfExp) or isinstance(c, ast.If):
                    t = c.test
                    if isinstance(t, ast.Compare) and len(t.ops) == 1 and isinstance(t.ops[0], (ast.Eq, ast.NotEq)):
                        txt = [ast.unparse(t.left), ast.unparse(t.comparators[0])]
                        arms = ast.unparse(c.body if isinstance(c, ast.IfExp) else ast.Module(body=c.body, type_ignores=[])) + ast.unparse(
                            c.orelse if isinstance(c, ast.IfExp) else ast.Module(body=c.orelse, type_ignores=[]))
                        if 'torch.float' in arms or 'torch.complex' in arms or 'np.float' in arms:
                            continue        # a precision mapping inside the complex arm, not a real / complex dispatch
                        if any(x in ('torch.complex128', 'torch.complex64', 'np.complex128', 'np.complex64') for x in txt) and any('dtype' in x for x in txt):
                            n += 1
                            rep.touch(m)
                            rep.violation('DTYPE1', fi.qual, f'`{ast.unparse(t)}` singles out one complex precision; the other one (complex64 / complex128) takes the real arm', m, c)
        fi0 = proj.func('numqi.manifold._stiefel.Stiefel.__init__')
        n += 1
        rep.ok('DTYPE1', 'numqi.manifold', 'no real / complex dispatch on a single complex dtype', fi0.module, fi0.node, text='manifold dtype dispatch')
    if 'H7B' in which:
        rep.rule('H7B', RULE_H7B)
        fi = proj.func('numqi.sim.circuit.Circuit.num_qubit')
        m = fi.module
        rep.touch(m)
        src = ast.unparse(fi.node).replace(' ', '')
        n += 1
        arms = [g for g in ast.walk(fi.node) if isinstance(g, (ast.If, ast.IfExp)) and "kind=='control'" in ast.unparse(g.test).replace(' ', '')]
        if not arms:
            rep.undecided('H7B', fi.qual, 'control arm not found', m, fi.node, text='num_qubit control arm')
        else:
            g = arms[0]
            body = ast.unparse(g.body if isinstance(g, ast.IfExp) else ast.Module(body=g.body, type_ignores=[])).replace(' ', '')
            if '[0]' in body and '[1]' in body:
                rep.ok('H7B', fi.qual, 'control gates contribute their control set and their targets', m, g)
            else:
                rep.violation('H7B', fi.qual, f'`{body[:60]}`: a control gate contributes only one of its two index slots to the register size', m, g)
    if 'GR7' in which:
        rep.rule('GR7', RULE_GR7)
        fi = proj.func('numqi.group._symmetric._get_all_young_tableaux_hf0')
        m = fi.module
        rep.touch(m)
        for c in ast.walk(fi.node):
            if isinstance(c, ast.Call) and isinstance(c.func, ast.Name) and c.func.id == 'range' and len(c.args) == 2 \
                    and isinstance(c.args[0], ast.Subscript) and isinstance(c.args[1], ast.Call) and ast.unparse(c.args[1]).endswith('.sum()'):
                n += 1
                a0 = ast.unparse(c.args[0].value)
                if a0 == 'youngT':
                    rep.ok('GR7', fi.qual, f'`{ast.unparse(c)}` bounds from the transposed diagram', m, c)
                else:
                    rep.violation('GR7', fi.qual, f'`{ast.unparse(c)}`: the hook-branch bounds use `{a0}[0]` (number of columns) where the number of rows `youngT[0]` is meant', m, c)
    if 'E4B' in which:
        rep.rule('E4B', RULE_E4B)
        fi = proj.func('numqi.gate._pauli.PauliOperator.__matmul__')
        m = fi.module
        rep.touch(m)
        n += 1
        bad = [g for g in ast.walk(fi.node) if isinstance(g, ast.If) and any(isinstance(o, (ast.Is, ast.IsNot)) for c in ast.walk(g.test) if isinstance(c, ast.Compare) for o in c.ops)
               and any(isinstance(r, ast.Return) for s in g.body for r in ast.walk(s))]
        if bad:
            rep.violation('E4B', fi.qual, f'`if {ast.unparse(bad[0].test)}: return ...`: identity-gated shortcut in the product; the general phase formula is bypassed', m, bad[0])
        else:
            rep.ok('E4B', fi.qual, 'no identity-gated shortcut', m, fi.node, text='matmul shortcut')
    return n


def id2_lm2_dt12(proj, rep, modules=None):
    for k, v in (('ID2', RULE_ID2), ('LM2', RULE_LM2), ('DT12', RULE_DT12)):
        rep.rule(k, v)
    nfun = 0
    for fi in proj.iter_functions():
        m = fi.module
        if not _in_scope(m, modules):
            continue
        nfun += 1
        glob = {t.id for s in m.tree.body if isinstance(s, ast.Assign) for t in s.targets if isinstance(t, ast.Name)}
        memo_reads = {}
        for c in ast.walk(fi.node):
            # ID2
            if isinstance(c, ast.Call) and isinstance(c.func, ast.Name) and c.func.id == 'id' and len(c.args) == 1:
                par = getattr(c, '_parent', None)
                holder = None
                if isinstance(par, ast.Subscript) and par.slice is c:
                    holder = par.value
                elif isinstance(par, ast.Call) and isinstance(par.func, ast.Attribute) and par.func.attr in ('get', 'setdefault', 'pop') and c in par.args:
                    holder = par.func.value
                if holder is not None:
                    persistent = (isinstance(holder, ast.Attribute) and isinstance(holder.value, ast.Name) and holder.value.id == 'self') or \
                        (isinstance(holder, ast.Name) and holder.id in glob)
                    if persistent:
                        rep.touch(m)
                        rep.violation('ID2', fi.qual, f'`{ast.unparse(par)[:60]}`: a persistent memo keyed by id(): the address of a collected object is reused by a later one', m, c)
            # LM2: x = D[key]
            if isinstance(c, ast.Assign) and isinstance(c.targets[0], ast.Name) and isinstance(c.value, ast.Subscript) and isinstance(c.value.value, ast.Name):
                D = c.value.value.id
                is_memo = any(isinstance(s, ast.Assign) and isinstance(s.targets[0], ast.Subscript) and isinstance(s.targets[0].value, ast.Name) and s.targets[0].value.id == D
                              for s in ast.walk(fi.node)) and any(isinstance(g, ast.Compare) and isinstance(g.ops[0], (ast.NotIn, ast.In)) and isinstance(g.comparators[0], ast.Name)
                                                                  and g.comparators[0].id == D for g in ast.walk(fi.node))
                if is_memo:
                    memo_reads[c.targets[0].id] = (c, D)
            # DT12
            if isinstance(c, ast.Call) and ast.unparse(c.func).split('.')[-1] in ('asarray', 'array', 'ascontiguousarray') and c.args:
                dt = next((k.value for k in c.keywords if k.arg == 'dtype'), None)
                if isinstance(dt, ast.Name):
                    for v, st, p in reaching_defs(fi.node, dt.id, c):
                        if v != 'param' and isinstance(v, ast.Attribute) and v.attr == 'dtype' and any(
                                isinstance(y, ast.Subscript) and isinstance(y.slice, ast.Constant) and y.slice.value == 0 for y in ast.walk(v.value)) \
                                and any(isinstance(p2, (ast.ListComp, ast.GeneratorExp, ast.For)) for p2 in _ancestors(c, fi.node)):
                            rep.touch(m)
                            rep.violation('DT12', fi.qual, f'`{ast.unparse(c)[:60]}` casts every item to `{ast.unparse(v)[:40]}`, the dtype of the FIRST item: complex later items lose '
                                          f'their imaginary part', m, c)
        for s in ast.walk(fi.node):
            if isinstance(s, ast.AugAssign) and isinstance(s.target, ast.Name) and s.target.id in memo_reads and s.lineno > memo_reads[s.target.id][0].lineno:
                c0, D = memo_reads[s.target.id]
                rep.touch(m)
                rep.violation('LM2', fi.qual, f'`{ast.unparse(c0)[:40]}` then `{ast.unparse(s)[:50]}`: the in-place update is applied to the object stored in the memo `{D}`; later '
                              f'readers of the same key get the accumulated value', m, s)
    rep.count('ID2.functions_scanned', nfun)
    if nfun:
        rep.ok('ID2', 'scope', f'{nfun} functions scanned: no persistent id()-keyed memo, no in-place update of a memo value, no cast to the first item\'s dtype', proj.mod('numqi.utils'),
               proj.mod('numqi.utils').tree, text='id memo / memo alias / first dtype sweep')
    return nfun


def o6(proj, rep, modules):
    rep.rule('O6', RULE_O6)
    n = 0
    for mq in modules:
        m = proj.mod(mq)
        rep.touch(m)
        tables = {t.id for s in m.tree.body if isinstance(s, ast.Assign) for t in s.targets if isinstance(t, ast.Name)
                  and any(isinstance(c, ast.Call) and ast.unparse(c.func).split('.')[0] in ('np', 'numpy', 'torch') for c in ast.walk(s.value))}
        for fi in [f for f in proj.funcs.values() if f.module is m and f.cls is None and not f.qual.rsplit('.', 1)[1].startswith('_')]:
            for r in ast.walk(fi.node):
                if not (isinstance(r, ast.Return) and r.value is not None):
                    continue
                n += 1
                vals = [r.value]
                if isinstance(r.value, ast.Name):
                    vals = [v for v, st, p in reaching_defs(fi.node, r.value.id, r) if v != 'param' and isinstance(v, ast.AST)]
                for v in vals:
                    b = v
                    while isinstance(b, (ast.Subscript, ast.Attribute)) or (isinstance(b, ast.Call) and isinstance(b.func, ast.Attribute) and b.func.attr in ('reshape', 'view', 'ravel', 'transpose')):
                        b = b.value if not isinstance(b, ast.Call) else b.func.value
                    if isinstance(b, ast.Name) and b.id in tables and b is not v:
                        rep.violation('O6', fi.qual, f'`{ast.unparse(v)[:40]}` is a view of the module-level array `{b.id}`: all callers share the catalogue entry', m, r)
    rep.count('O6.public_returns', n)
    return n


def sg1(proj, rep, func_quals):
    """literal-dimension / tolerance-gated early returns: undecidable second formulation -> undecided"""
    rep.rule('SG1', RULE_SG1)
    n = 0
    for q in func_quals:
        fi = proj.func(q)
        m = fi.module
        rep.touch(m)
        bad = None
        for g in ast.walk(fi.node):
            if not isinstance(g, ast.If):
                continue
            early = any(isinstance(s, ast.Return) and s.value is not None and not isinstance(s.value, ast.Constant) for s in g.body)
            t = ast.unparse(g.test).replace(' ', '')
            lit_dim = re.search(r'(shape\[-?\d\]|N0|dim|\bd)==2(?!\d)', t) is not None
            if not early:
                # assignment form: `if dim == 2: ret = <fast path>  else: ret = <general formula>` with ret returned
                retn = {r.value.id for r in ast.walk(fi.node) if isinstance(r, ast.Return) and isinstance(r.value, ast.Name)}
                arm = lambda blk: {x.id for s in blk for x in ast.walk(s) if isinstance(x, ast.Name) and isinstance(x.ctx, ast.Store)}
                if lit_dim and g.orelse and (arm(g.body) & arm(g.orelse) & retn):
                    bad = g
                continue
            probe = any(isinstance(c, ast.Call) and ast.unparse(c.func).split('.')[-1] in ('count_nonzero', 'allclose', 'array_equal', 'array_equiv', 'isclose')
                        and any(isinstance(x, ast.Name) and x.id in fi.all_params for x in ast.walk(c)) for c in ast.walk(g.test))
            if probe:
                bad = g
            small = any(isinstance(c, ast.Constant) and isinstance(c.value, float) and 0 < c.value < 1e-3 for c in ast.walk(g.test)) and \
                any(isinstance(c, ast.Subscript) for c in ast.walk(g.test))
            if lit_dim or small:
                bad = g
        if bad is not None:
            rep.undecided('SG1', q, f'`if {ast.unparse(bad.test)[:50]}: return <second formulation>`: agreement with the general formula is not decidable from the shape of the code', m, bad)
        else:
            n += 1
            rep.ok('SG1', q, 'single formulation', m, fi.node, text=f'{q} single formulation')
    rep.count('SG1.functions', n)
    return n


# ------------------------------------------------------------------------------------------------ DTF1
RULE_DTF1 = ('DTF1: a buffer whose dtype is certainly real - allocated without dtype (float64 by default) or with an explicit real floating / integer dtype - never '
             'receives a value that is certainly complex (an imaginary literal factor, `exp(1j * ..)`, `torch.complex(..)`, a name bound to such an expression): NumPy '
             'discards the imaginary part with a ComplexWarning only. (Buffers typed after an input are DT9; stores inside a dtype-guarded branch are skipped.)')
_REAL_DT_NAMES = ('float64', 'float32', 'float16', 'float_', 'double', 'int64', 'int32', 'int8', 'uint8', 'int_', 'intp', 'bool_', 'bool', 'float', 'int')


def _certainly_complex(fi, e, at, depth=0):
    for y in ast.walk(e):
        if isinstance(y, ast.Constant) and isinstance(y.value, complex):
            # a complex literal under .real / .imag / abs() does not make the value complex
            if not any((isinstance(p, ast.Attribute) and p.attr in ('real', 'imag')) or (isinstance(p, ast.Call) and ast.unparse(p.func).split('.')[-1] in ('abs', 'absolute', 'angle'))
                       for p in _ancestors(y, e) if p is not e) and not (isinstance(e, ast.Attribute) and e.attr in ('real', 'imag')):
                return True
        if isinstance(y, ast.Call) and ast.unparse(y.func) in ('torch.complex',):
            return True
    if depth < 2:
        top = e
        if isinstance(top, ast.Attribute) and top.attr in ('real', 'imag'):
            return False
        for y in ast.walk(e):
            if isinstance(y, ast.Name):
                par = getattr(y, '_parent', None)
                if isinstance(par, ast.Attribute) and par.attr in ('real', 'imag', 'shape', 'dtype', 'ndim'):
                    continue
                rd = reaching_defs(fi.node, y.id, at)
                if any(v == 'param' or p is not None or not isinstance(st, ast.Assign) for v, st, p in rd):
                    continue        # loop targets, unpackings and parameters are not decided
                if any(isinstance(p2, (ast.Compare, ast.IfExp)) and (not isinstance(p2, ast.IfExp) or y in ast.walk(p2.test)) for p2 in _ancestors(y, e)):
                    continue        # a name that only steers a test
                defs = [v for v, st, p in rd if isinstance(v, ast.AST)]
                if defs and all(_certainly_complex(fi, v, at, depth + 1) for v in defs) and not any(
                        isinstance(p, ast.Call) and ast.unparse(p.func).split('.')[-1] in ('abs', 'absolute', 'angle', 'real', 'isreal', 'iscomplexobj', 'len') for p in _ancestors(y, e)):
                    return True
    return False


def dtf1(proj, rep, modules=None):
    rep.rule('DTF1', RULE_DTF1)
    n = 0
    for fi in proj.iter_functions():
        m = fi.module
        if not _in_scope(m, modules):
            continue
        bufs = {}
        for s in ast.walk(fi.node):
            if isinstance(s, ast.Assign) and len(s.targets) == 1 and isinstance(s.targets[0], ast.Name) and isinstance(s.value, ast.Call) \
                    and ast.unparse(s.value.func) in ('np.zeros', 'np.empty', 'np.ones', 'np.eye', 'np.full', 'numpy.zeros', 'numpy.empty'):
                dt = next((k.value for k in s.value.keywords if k.arg == 'dtype'), None)
                if dt is None and ast.unparse(s.value.func).split('.')[-1] in ('zeros', 'empty', 'ones') and len(s.value.args) >= 2:
                    dt = s.value.args[1]
                if dt is None and ast.unparse(s.value.func).split('.')[-1] == 'full':
                    continue
                if dt is None or ast.unparse(dt).split('.')[-1] in _REAL_DT_NAMES:
                    # a name that is re-allocated elsewhere with another dtype is not decided
                    others = [x for x in ast.walk(fi.node) if isinstance(x, ast.Assign) and any(isinstance(t, ast.Name) and t.id == s.targets[0].id for t in x.targets) and x is not s]
                    if not others:
                        bufs[s.targets[0].id] = (s, 'float64 (default)' if dt is None else ast.unparse(dt))
        if not bufs:
            continue
        for a in ast.walk(fi.node):
            tgt = None
            if isinstance(a, ast.Assign) and isinstance(a.targets[0], ast.Subscript) and isinstance(a.targets[0].value, ast.Name):
                tgt, val = a.targets[0].value.id, a.value
            elif isinstance(a, ast.AugAssign) and isinstance(a.target, (ast.Subscript, ast.Name)):
                b = a.target.value if isinstance(a.target, ast.Subscript) else a.target
                if isinstance(b, ast.Name):
                    tgt, val = b.id, a.value
            if tgt not in bufs or a.lineno < bufs[tgt][0].lineno:
                continue
            n += 1
            guarded = any(isinstance(p, ast.If) and any(k in ast.unparse(p.test) for k in ('real', 'complex', 'dtype')) for p in _ancestors(a, fi.node))
            if not guarded and _certainly_complex(fi, val, a):
                rep.touch(m)
                rep.violation('DTF1', fi.qual, f'`{ast.unparse(bufs[tgt][0])[:60]}` is {bufs[tgt][1]}; `{ast.unparse(a)[:60]}` stores a complex value: the imaginary part is discarded', m, a)
    rep.count('DTF1.stores_into_real_buffers', n)
    return n


# ------------------------------------------------------------------------------------------------ round 7
RULE_FD2 = ('FD2: floor division `//` is never applied to a parameter that is annotated / defaulted as a float (interval ends, tolerances, rates): `(upper + lower)//2` floors the '
            'midpoint and is right only when it happens to be an integer.')
RULE_DET1 = ('DET1: inside a loss function / forward method no tensor that takes part in the returned arithmetic is `.detach()`-ed: the gradient delivered is then not the derivative '
             'of the returned value (detaching a mean is harmless for the L2 penalty only).')
RULE_DT13 = ('DT13: a buffer typed after ONE input (`empty_like(x)`) does not receive products with ANOTHER input (`op[0,0]*x[...]`): the result type is the promotion of both, so a '
             'complex operator applied to a real-typed state loses its imaginary part.')
RULE_NRM1 = ('NRM1: normalisation is the last value-changing step: taking `.real` / `.imag` of an already normalised vector and returning it gives a vector of norm < 1.')
RULE_ST4 = ('ST4: a function that records `shape = x.shape`, flattens the batch with `x.reshape(-1, ..)` and used to restore the layout keeps at least one later reshape / view that '
            'mentions `shape`: without it every input with two or more batch axes comes back flattened.')
RULE_Q8 = ('Q8: the tokenizer of the indexed Pauli-string form reads multi-digit qubit indices: the pattern given to `re.findall` contains `[0-9]+` like the validating pattern; '
           '`[XYZI][0-9]` puts a factor on qubit 10 onto qubit 1.')
RULE_UN1 = ('UN1: the groups returned by a splitter are unpacked in the order their sizes were given: `for indx, indy, indz in split(.., [nx, ny, nz])` - the Pauli-type letters of the '
            'unpack targets and of the size names agree position by position.')
RULE_D4B = ('D4b: `MeasureGate.forward` passes only the incoming state, its own index and its generator to `measure_quantum_vector`: no other attribute of the gate (a record of an '
            'earlier run) may steer the measurement of a later state.')
RULE_CHK1 = ('CHK1: the input checker of the SDP criteria only CHECKS: `rho` is re-bound by plumbing (asarray / reshape) only, never replaced by a spectrally modified copy - the '
             'criterion would be evaluated on another state than the one given.')


def fd2_det1_nrm1(proj, rep, modules=None):
    for k, v in (('FD2', RULE_FD2), ('DET1', RULE_DET1), ('NRM1', RULE_NRM1)):
        rep.rule(k, v)
    nfun = 0
    for fi in proj.iter_functions():
        m = fi.module
        if not _in_scope(m, modules):
            continue
        nfun += 1
        floatp = set()
        args = fi.node.args
        pos = args.posonlyargs + args.args
        for a, d in zip(reversed(pos), reversed(args.defaults)):
            if isinstance(d, ast.Constant) and isinstance(d.value, float):
                floatp.add(a.arg)
        for a in pos + args.kwonlyargs:
            if a.annotation is not None and ast.unparse(a.annotation) == 'float':
                floatp.add(a.arg)
        fname = fi.qual.rsplit('.', 1)[1]
        for b in ast.walk(fi.node):
            if isinstance(b, ast.BinOp) and isinstance(b.op, ast.FloorDiv) and floatp:
                if any(isinstance(y, ast.Name) and y.id in floatp for y in ast.walk(b.left)) or any(isinstance(y, ast.Name) and y.id in floatp for y in ast.walk(b.right)):
                    rep.touch(m)
                    rep.violation('FD2', fi.qual, f'`{ast.unparse(b)[:50]}` floor-divides a float parameter: the result is floored to an integer value', m, b)
            # DET1
            if ('loss' in fname or fname == 'forward') and isinstance(b, ast.Call) and isinstance(b.func, ast.Attribute) and b.func.attr == 'detach' and not b.args:
                par = getattr(b, '_parent', None)
                st = _stmt(b)
                # only a detached term that flows into the RETURNED value matters (diagnostics stored on self are fine)
                retnames = {y.id for r in ast.walk(fi.node) if isinstance(r, ast.Return) and r.value is not None for y in ast.walk(r.value) if isinstance(y, ast.Name)}
                changed = True
                while changed:
                    changed = False
                    for s2 in ast.walk(fi.node):
                        if isinstance(s2, ast.Assign) and any(isinstance(t, ast.Name) and t.id in retnames for t in s2.targets):
                            for y in ast.walk(s2.value):
                                if isinstance(y, ast.Name) and y.id not in retnames:
                                    retnames.add(y.id)
                                    changed = True
                flows = isinstance(st, ast.Return) or (isinstance(st, ast.Assign) and any(isinstance(t, ast.Name) and t.id in retnames for t in st.targets))
                if flows and (isinstance(par, ast.BinOp) or (isinstance(par, ast.Call) and b in par.args and ast.unparse(par.func).split('.')[-1] in ('abs', 'sum', 'mean', 'square', 'sqrt'))):
                    rep.touch(m)
                    rep.violation('DET1', fi.qual, f'`{ast.unparse(par)[:70]}`: a detached tensor takes part in the returned loss; its contribution to the derivative is dropped', m, b)
        # NRM1
        normed = {}
        for s in ast.walk(fi.node):
            if isinstance(s, ast.Assign) and isinstance(s.targets[0], ast.Name) and isinstance(s.value, ast.BinOp) and isinstance(s.value.op, ast.Div) \
                    and any(isinstance(c, ast.Call) and ast.unparse(c.func).split('.')[-1] == 'norm' for c in ast.walk(s.value.right)):
                normed[s.targets[0].id] = s
            elif isinstance(s, ast.AugAssign) and isinstance(s.target, ast.Name) and isinstance(s.op, ast.Div) \
                    and any(isinstance(c, ast.Call) and ast.unparse(c.func).split('.')[-1] == 'norm' for c in ast.walk(s.value)):
                normed[s.target.id] = s
        for s in ast.walk(fi.node):
            if isinstance(s, ast.Assign) and isinstance(s.targets[0], ast.Name) and s.targets[0].id in normed and s.lineno > normed[s.targets[0].id].lineno:
                v = s.value
                core = v.func.value if isinstance(v, ast.Call) and isinstance(v.func, ast.Attribute) and v.func.attr in ('copy', 'astype') else v
                if isinstance(core, ast.Attribute) and core.attr in ('real', 'imag') and isinstance(core.value, ast.Name) and core.value.id == s.targets[0].id:
                    later = [x for x in ast.walk(fi.node) if ((isinstance(x, ast.Assign) and isinstance(x.targets[0], ast.Name) and x.targets[0].id == s.targets[0].id)
                                                              or (isinstance(x, ast.AugAssign) and isinstance(x.target, ast.Name) and x.target.id == s.targets[0].id)) and x.lineno > s.lineno
                             and any(isinstance(c, ast.Call) and ast.unparse(c.func).split('.')[-1] == 'norm' for c in ast.walk(x.value))]
                    if not later:
                        rep.touch(m)
                        rep.violation('NRM1', fi.qual, f'`{ast.unparse(s)[:50]}` projects a vector that was normalised at line {normed[s.targets[0].id].lineno} and is not normalised again: '
                                      f'the returned vector has norm < 1', m, s)
    rep.count('FD2.functions_scanned', nfun)
    if nfun:
        rep.ok('FD2', 'scope', f'{nfun} functions scanned: no floor division of a float parameter, no detached term in a loss, no projection after normalisation', proj.mod('numqi.utils'),
               proj.mod('numqi.utils').tree, text='fd2 / det1 / nrm1 sweep')
    return nfun


def dt13_st4(proj, rep, modules=None):
    rep.rule('DT13', RULE_DT13)
    rep.rule('ST4', RULE_ST4)
    n = n4 = 0
    for fi in proj.iter_functions():
        m = fi.module
        if not _in_scope(m, modules):
            continue
        params = set(fi.all_params)
        # parameter each name derives from by plumbing (reshape / view / slices)
        src = {p: p for p in params}
        changed = True
        while changed:
            changed = False
            for s in ast.walk(fi.node):
                if isinstance(s, ast.Assign) and isinstance(s.targets[0], ast.Name) and s.targets[0].id not in src:
                    names = {y.id for y in ast.walk(s.value) if isinstance(y, ast.Name) and y.id in src}
                    roots = {src[x] for x in names}
                    if len(roots) == 1 and not any(isinstance(c, ast.BinOp) for c in ast.walk(s.value)):
                        src[s.targets[0].id] = roots.pop()
                        changed = True
        for s in ast.walk(fi.node):
            typed_after = None
            if isinstance(s, ast.Assign) and isinstance(s.targets[0], ast.Name) and isinstance(s.value, ast.Call) and ast.unparse(s.value.func).split('.')[-1] in ('empty_like', 'zeros_like') \
                    and s.value.args and isinstance(s.value.args[0], ast.Name) and s.value.args[0].id in src and not any(k.arg == 'dtype' for k in s.value.keywords):
                typed_after = s.value.args[0].id
            elif isinstance(s, ast.Assign) and isinstance(s.targets[0], ast.Name) and isinstance(s.value, ast.Call) and ast.unparse(s.value.func).split('.')[-1] in ('empty', 'zeros'):
                dk = next((k.value for k in s.value.keywords if k.arg == 'dtype'), None)
                if isinstance(dk, ast.Attribute) and dk.attr == 'dtype' and isinstance(dk.value, ast.Name) and dk.value.id in src:
                    typed_after = dk.value.id
            if typed_after is not None:
                buf, origin = s.targets[0].id, src[typed_after]
                for a in ast.walk(fi.node):
                    if isinstance(a, ast.Assign) and isinstance(a.targets[0], ast.Subscript) and isinstance(a.targets[0].value, ast.Name) and a.targets[0].value.id == buf:
                        n += 1
                        others = {src[y.id] for y in ast.walk(a.value) if isinstance(y, ast.Name) and y.id in src and src[y.id] != origin
                                  and not (isinstance(getattr(y, '_parent', None), ast.Subscript) and getattr(y, '_parent').slice is y)
                                  and not (isinstance(getattr(y, '_parent', None), ast.Call) and getattr(y, '_parent').func is y)}
                        others = {o for o in others if not any(isinstance(c, ast.Call) and isinstance(c.func, ast.Name) and c.func.id == o for c in ast.walk(fi.node))}
                        from .ownership import _array_evidence
                        others = {o for o in others if _array_evidence(fi, o)}
                        if others and any(isinstance(c, ast.BinOp) and isinstance(c.op, (ast.Mult, ast.MatMult)) for c in ast.walk(a.value)):
                            rep.touch(m)
                            rep.violation('DT13', fi.qual, f'`{ast.unparse(s)[:50]}` has the dtype of `{origin}`; `{ast.unparse(a)[:60]}` stores products with `{sorted(others)[0]}`: a wider-typed '
                                          f'`{sorted(others)[0]}` (complex on real, float on integer) is truncated to the dtype of `{origin}`', m, a)
        # ST4
        for blk in [getattr(x, f) for x in ast.walk(fi.node) for f in ('body', 'orelse') if isinstance(getattr(x, f, None), list)]:
            for i, st in enumerate(blk):
                if not (isinstance(st, ast.Assign) and isinstance(st.targets[0], ast.Name) and isinstance(st.value, ast.Attribute) and st.value.attr == 'shape'
                        and isinstance(st.value.value, ast.Name) and st.value.value.id in params):
                    continue
                arr, sh = st.value.value.id, st.targets[0].id
                flat = [s2 for s2 in blk[i + 1:] if isinstance(s2, ast.Assign) and any(isinstance(t, ast.Name) and t.id == arr for t in s2.targets) and any(
                    isinstance(c, ast.Call) and isinstance(c.func, ast.Attribute) and c.func.attr == 'reshape' and c.args and ast.unparse(c.args[0]).replace(' ', '') == '-1' for c in ast.walk(s2.value))]
                if not flat:
                    continue
                n4 += 1
                restored = any(isinstance(c, ast.Call) and isinstance(c.func, ast.Attribute) and c.func.attr in ('reshape', 'view') and any(
                    isinstance(y, ast.Name) and y.id == sh for a2 in c.args for y in ast.walk(a2)) for c in ast.walk(fi.node) if getattr(c, 'lineno', 0) > flat[0].lineno)
                rep.touch(m)
                if restored:
                    rep.ok('ST4', fi.qual, f'`{sh}` restores the batch layout after `{ast.unparse(flat[0])[:40]}`', m, st)
                else:
                    rep.violation('ST4', fi.qual, f'`{ast.unparse(st)}` is recorded and `{ast.unparse(flat[0])[:50]}` flattens the batch, but no later reshape uses `{sh}`: inputs with two or '
                                  f'more batch axes come back flattened', m, st)
    rep.count('DT13.stores_into_input_typed_buffers', n)
    rep.count('ST4.flattened_batches', n4)
    return n, n4


def q8_un1_d4b_chk1(proj, rep, which):
    n = 0
    if 'Q8' in which:
        rep.rule('Q8', RULE_Q8)
        m = proj.mod('numqi.qec._qecc')
        rep.touch(m)
        consts = {s.targets[0].id: s.value.value for s in m.tree.body if isinstance(s, ast.Assign) and isinstance(s.targets[0], ast.Name) and isinstance(s.value, ast.Constant)
                  and isinstance(s.value.value, str)}
        fi = proj.func('numqi.qec._qecc.parse_simple_pauli')
        for c in ast.walk(fi.node):
            if isinstance(c, ast.Call) and ast.unparse(c.func) == 're.findall' and c.args:
                pat = c.args[0]
                txt = pat.value if isinstance(pat, ast.Constant) and isinstance(pat.value, str) else (consts.get(pat.id) if isinstance(pat, ast.Name) else None)
                if txt is None or '[0-9]' not in txt:
                    continue
                n += 1
                if '[0-9]+' in txt or '[0-9]*' in txt or '[0-9]{' in txt:
                    rep.ok('Q8', fi.qual, f'tokenizer pattern `{txt}` reads multi-digit indices', m, c)
                else:
                    rep.violation('Q8', fi.qual, f'tokenizer pattern `{txt}` reads ONE digit of the qubit index: a factor on qubit 10 or above lands on qubit 1', m, c)
    if 'UN1' in which:
        rep.rule('UN1', RULE_UN1)
        for fi in proj.iter_functions():
            m = fi.module
            if not m.name.startswith('numqi.qec'):
                continue
            for lp in ast.walk(fi.node):
                if isinstance(lp, ast.For) and isinstance(lp.target, ast.Tuple) and all(isinstance(e, ast.Name) for e in lp.target.elts) and isinstance(lp.iter, ast.Call):
                    tl = [e.id[-1] for e in lp.target.elts]
                    if not (set(tl) <= set('xyzXYZ') and len(set(tl)) == len(tl) >= 2):
                        continue
                    for a in lp.iter.args:
                        if isinstance(a, (ast.List, ast.Tuple)) and len(a.elts) == len(tl) and all(isinstance(e, ast.Name) for e in a.elts):
                            al = [e.id[-1] for e in a.elts]
                            if set(x.lower() for x in al) == set(x.lower() for x in tl):
                                n += 1
                                rep.touch(m)
                                if [x.lower() for x in al] == [x.lower() for x in tl]:
                                    rep.ok('UN1', fi.qual, f'`{ast.unparse(lp.target)}` unpacked in the order of `{ast.unparse(a)}`', m, lp)
                                else:
                                    rep.violation('UN1', fi.qual, f'`for {ast.unparse(lp.target)} in ..({ast.unparse(a)})`: the groups are unpacked in another order than their sizes are '
                                                  f'given: the counts are attached to the wrong Pauli types', m, lp)
    if 'D4B' in which:
        rep.rule('D4B', RULE_D4B)
        fi = proj.func('numqi.sim.circuit.MeasureGate.forward')
        m = fi.module
        rep.touch(m)
        for c in ast.walk(fi.node):
            if isinstance(c, ast.Call) and ast.unparse(c.func).endswith('measure_quantum_vector'):
                n += 1
                extra = [y.attr for a in list(c.args) + [k.value for k in c.keywords] for y in ast.walk(a) if isinstance(y, ast.Attribute) and isinstance(y.value, ast.Name)
                         and y.value.id == 'self' and y.attr not in ('index', 'np_rng', 'seed')]
                if extra:
                    rep.violation('D4B', fi.qual, f'`{ast.unparse(c)[:90]}` passes `self.{extra[0]}`, a record of an earlier run, into the measurement of the current state', m, c)
                else:
                    rep.ok('D4B', fi.qual, 'measurement steered by the state, the index and the generator only', m, c)
    if 'CHK1' in which:
        rep.rule('CHK1', RULE_CHK1)
        fi = proj.func('numqi.entangle._misc._check_input_rho_SDP')
        m = fi.module
        rep.touch(m)
        for s in ast.walk(fi.node):
            if isinstance(s, ast.Assign) and any(isinstance(t, ast.Name) and t.id == 'rho' for t in s.targets):
                n += 1
                if any(isinstance(b, ast.BinOp) and isinstance(b.op, (ast.MatMult, ast.Mult, ast.Div, ast.Add, ast.Sub)) for b in ast.walk(s.value)):
                    rep.violation('CHK1', fi.qual, f'`{ast.unparse(s)[:70]}` replaces the input state by a computed one inside the input CHECK: every criterion that calls the checker is '
                                  f'evaluated on a modified state', m, s)
                else:
                    rep.ok('CHK1', fi.qual, f'`{ast.unparse(s)[:50]}` plumbing only', m, s)
    return n


RULE_GI1 = ('GI1: where a loop walks `enumerate(gate_index_list)` and records a per-position table, the entry of position k carries the gate object and the index tuple of position k '
            '(the loop targets themselves, or gate_index_list[k]): two measurement gates with one name are two objects, each with its own recorded outcome.')


def gi1(proj, rep, modules=('numqi.sim',)):
    rep.rule('GI1', RULE_GI1)
    n = 0
    for fi in proj.iter_functions():
        m = fi.module
        if not any(m.name == x or m.name.startswith(x + '.') for x in modules):
            continue
        for lp in ast.walk(fi.node):
            if not (isinstance(lp, ast.For) and isinstance(lp.iter, ast.Call) and ast.unparse(lp.iter.func) == 'enumerate' and lp.iter.args
                    and ast.unparse(lp.iter.args[0]).split('.')[-1] == 'gate_index_list'):
                continue
            t = lp.target
            if not (isinstance(t, ast.Tuple) and len(t.elts) == 2 and isinstance(t.elts[0], ast.Name) and isinstance(t.elts[1], ast.Tuple) and len(t.elts[1].elts) == 2
                    and all(isinstance(e, ast.Name) for e in t.elts[1].elts)):
                continue
            pos, g, ix = t.elts[0].id, t.elts[1].elts[0].id, t.elts[1].elts[1].id
            lst = ast.unparse(lp.iter.args[0])
            for c in ast.walk(lp):
                if not (isinstance(c, ast.Call) and ast.unparse(c.func) == 'dict'):
                    continue
                for kw in c.keywords:
                    if kw.arg not in ('gate', 'index'):
                        continue
                    want = g if kw.arg == 'gate' else ix
                    v = ast.unparse(kw.value).replace(' ', '')
                    rep.touch(m)
                    if v == want or v == f'{lst}[{pos}][{0 if kw.arg == "gate" else 1}]':
                        n += 1
                        rep.ok('GI1', fi.qual, f'`{kw.arg}={v}` is the loop\'s own {kw.arg}', m, c, text=f'{kw.arg} of position')
                    elif pos not in {x.id for x in ast.walk(kw.value) if isinstance(x, ast.Name)} and want not in {x.id for x in ast.walk(kw.value) if isinstance(x, ast.Name)}:
                        n += 1
                        rep.violation('GI1', fi.qual, f'`{kw.arg}={v}` is not the {kw.arg} of position {pos}: it mentions neither `{want}` nor `{pos}`', m, c)
                    elif any(isinstance(x, ast.Subscript) and isinstance(x.slice, ast.Constant) and isinstance(x.slice.value, int)
                             and pos not in {y.id for y in ast.walk(x) if isinstance(y, ast.Name)} for x in ast.walk(kw.value)):
                        n += 1
                        rep.violation('GI1', fi.qual, f'`{kw.arg}={v}` picks a fixed element of a collection that is not addressed by the position `{pos}`: gates that share the key share one '
                                                      f'object (for a measurement gate: one recorded outcome)', m, c)
                    else:
                        rep.undecided('GI1', fi.qual, f'`{kw.arg}={v}` not recognised as the loop\'s own {kw.arg}', m, c)
    return n


RULE_TD1 = ('TD1: a trial-division sweep `range(lo, B, step)` whose body tests `n % x` includes the integer square root: B is isqrt(n)+1 / int(sqrt(n))+1 (an exclusive bound '
            'without the +1 never tries x = sqrt(n): 9, 25, 49 pass as primes).')
RULE_DT14 = ('DT14: a buffer allocated from a scalar parameter without a dtype (np.full(n, p), np.diag(np.full(n, p)), np.array([.. p ..])) has the dtype of what the caller '
             'passed; a later item store of a quotient / root is truncated when the caller passes an integer end point (b = 0 or 1).')
RULE_DROP1 = ('DROP1: in the hierarchy certificate routines (numqi.matrix_space._hierarchy) a loop that accumulates witness vectors appends on every iteration: no `continue` under a magnitude '
              'test (abs / max / norm against a tolerance) precedes the append - a vanishing vector is itself the dependence witness.')
RULE_RD2 = ('RD2: in a state constructor with a `return_dm` switch the conversion to the projector is the last transformation of the result: nothing modifies `ret` after the '
            '`if return_dm:` block (the density matrix is the projector of the very ket the other mode returns).')


def td1_dt14_drop1_rd2(proj, rep, which, modules=None):
    n = dict(TD1=0, DT14=0, DROP1=0, RD2=0)
    for k in which:
        rep.rule(k, globals()['RULE_' + k])
    sqrtish = lambda e: (isinstance(e, ast.Call) and ast.unparse(e.func).split('.')[-1] == 'isqrt') or (
        isinstance(e, ast.Call) and ast.unparse(e.func) == 'int' and e.args and (
            any(isinstance(c, ast.Call) and ast.unparse(c.func).split('.')[-1] == 'sqrt' for c in ast.walk(e.args[0]))
            or any(isinstance(c, ast.BinOp) and isinstance(c.op, ast.Pow) and ast.unparse(c.right) in ('0.5', '1/2') for c in ast.walk(e.args[0]))))
    if 'TD1' in which:
        for m in proj.modules.values():
            if not _in_scope(m, modules):
                continue
            for c in ast.walk(m.tree):
                gens = []
                if isinstance(c, ast.For):
                    gens = [(c.target, c.iter, c.body)]
                elif isinstance(c, (ast.GeneratorExp, ast.ListComp, ast.SetComp)):
                    gens = [(g.target, g.iter, [c.elt] + list(g.ifs)) for g in c.generators]
                for tgt, it, body in gens:
                    if not (isinstance(it, ast.Call) and ast.unparse(it.func) == 'range' and len(it.args) >= 2 and isinstance(tgt, ast.Name)):
                        continue
                    B = it.args[1]
                    mods = [b for s in body for b in ast.walk(s) if isinstance(b, ast.BinOp) and isinstance(b.op, ast.Mod) and isinstance(b.right, ast.Name) and b.right.id == tgt.id]
                    if not mods:
                        continue
                    core = B.left if isinstance(B, ast.BinOp) and isinstance(B.op, ast.Add) else B
                    if not sqrtish(core) and not (isinstance(B, ast.BinOp) and sqrtish(B.right)):
                        continue
                    n['TD1'] += 1
                    rep.touch(m)
                    if isinstance(B, ast.BinOp) and isinstance(B.op, ast.Add) and ast.unparse(B.right if sqrtish(B.left) else B.left) in ('1', '2'):
                        rep.ok('TD1', m.name, f'`{ast.unparse(it)}` includes the integer square root', m, it, text=f'trial division {ast.unparse(it)}')
                    elif sqrtish(B):
                        rep.violation('TD1', m.name, f'`{ast.unparse(it)}` stops before the integer square root: n = p*p (9, 25, 49, 121) has no divisor in the sweep and passes as prime',
                                      m, it)
                    else:
                        rep.undecided('TD1', m.name, f'`{ast.unparse(it)}` bound not recognised', m, it)
    for fi in proj.iter_functions():
        m = fi.module
        if not _in_scope(m, modules):
            continue
        params = set(fi.all_params)
        if 'DT14' in which:
            for s in ast.walk(fi.node):
                if not (isinstance(s, ast.Assign) and isinstance(s.targets[0], ast.Name)):
                    continue
                v = s.value
                if isinstance(v, ast.Call) and ast.unparse(v.func) in ('np.diag', 'numpy.diag') and v.args:
                    v = v.args[0]
                src = None
                if isinstance(v, ast.Call) and ast.unparse(v.func) in ('np.full', 'numpy.full') and len(v.args) >= 2 and not any(k.arg == 'dtype' for k in v.keywords) and len(v.args) < 3:
                    if isinstance(v.args[1], ast.Name) and v.args[1].id in params:
                        src = v.args[1].id
                elif isinstance(v, ast.Call) and ast.unparse(v.func) in ('np.array', 'numpy.array') and v.args and isinstance(v.args[0], (ast.List, ast.Tuple)) \
                        and not any(k.arg == 'dtype' for k in v.keywords) and len(v.args) == 1:
                    leaves = [x for x in ast.walk(v.args[0]) if not isinstance(x, (ast.List, ast.Tuple, ast.Load))]
                    if leaves and all((isinstance(x, ast.Name) and x.id in params) or (isinstance(x, ast.Constant) and isinstance(x.value, int)) for x in leaves) \
                            and any(isinstance(x, ast.Name) for x in leaves):
                        src = next(x.id for x in leaves if isinstance(x, ast.Name))
                if src is None:
                    continue
                ann = next((a.annotation for a in fi.node.args.args + fi.node.args.kwonlyargs if a.arg == src), None)
                if ann is None or 'float' not in ast.unparse(ann) or 'ndarray' in ast.unparse(ann) or 'Tensor' in ast.unparse(ann):
                    continue
                # the parameter is not converted to float before the allocation
                if any(isinstance(x, ast.Assign) and any(isinstance(t, ast.Name) and t.id == src for t in x.targets) and x.lineno < s.lineno for x in ast.walk(fi.node)):
                    continue
                buf = s.targets[0].id
                n['DT14'] += 1
                bad = None
                for a in ast.walk(fi.node):
                    if isinstance(a, ast.Assign) and isinstance(a.targets[0], ast.Subscript) and isinstance(a.targets[0].value, ast.Name) and a.targets[0].value.id == buf \
                            and a.lineno > s.lineno:
                        if any(isinstance(c, ast.BinOp) and isinstance(c.op, ast.Div) for c in ast.walk(a.value)) or any(
                                isinstance(c, ast.Call) and ast.unparse(c.func).split('.')[-1] in ('sqrt', 'exp', 'cos', 'sin') for c in ast.walk(a.value)):
                            # re-bound in between?
                            if not any(isinstance(x, ast.Assign) and any(isinstance(t, ast.Name) and t.id == buf for t in x.targets) and s.lineno < x.lineno < a.lineno
                                       for x in ast.walk(fi.node)):
                                bad = a
                                break
                rep.touch(m)
                if bad is not None:
                    rep.violation('DT14', fi.qual, f'`{ast.unparse(s)[:60]}` has the dtype of the argument `{src}`; `{ast.unparse(bad)[:60]}` stores a quotient / root into it: with the '
                                  f'integer end point {src} = 0 (or 1) the entries are truncated', m, bad)
                else:
                    rep.ok('DT14', fi.qual, f'`{ast.unparse(s)[:50]}`: no fractional item store follows', m, s)
        if 'DROP1' in which and m.name in ('numqi.matrix_space._hierarchy',):
            for lp in ast.walk(fi.node):
                if not isinstance(lp, ast.For):
                    continue
                apps = [k for k, st in enumerate(lp.body) if isinstance(st, ast.Expr) and isinstance(st.value, ast.Call) and isinstance(st.value.func, ast.Attribute)
                        and st.value.func.attr == 'append']
                if not apps:
                    continue
                n['DROP1'] += 1
                rep.touch(m)
                hit = None
                for st in lp.body[:apps[-1]]:
                    if isinstance(st, ast.If) and any(isinstance(x, ast.Continue) for b in st.body for x in ast.walk(b)) and any(
                            isinstance(c, ast.Call) and ast.unparse(c.func).split('.')[-1] in ('abs', 'max', 'norm', 'allclose', 'vdot', 'dot') for c in ast.walk(st.test)):
                        hit = st
                if hit is not None:
                    rep.violation('DROP1', fi.qual, f'`if {ast.unparse(hit.test)[:60]}: continue` skips the append of this iteration: the dropped (vanishing) vector is the dependence '
                                  f'witness, the remaining ones pass the independence test', m, hit)
                else:
                    rep.ok('DROP1', fi.qual, f'the loop at line {lp.lineno} appends on every iteration', m, lp, text=f'accumulating loop {ast.unparse(lp.target)} in {ast.unparse(lp.iter)[:40]}')
        if 'RD2' in which and 'return_dm' in params:
            for k, st in enumerate(fi.node.body):
                if isinstance(st, ast.If) and ast.unparse(st.test) == 'return_dm':
                    tgts = {t.id for s2 in st.body if isinstance(s2, ast.Assign) for t in s2.targets if isinstance(t, ast.Name)}
                    if not tgts:
                        continue
                    n['RD2'] += 1
                    rep.touch(m)
                    later = [s2 for s3 in fi.node.body[k + 1:] for s2 in ast.walk(s3) if isinstance(s2, (ast.Assign, ast.AugAssign)) and any(
                        isinstance(t, ast.Name) and t.id in tgts for t in (s2.targets if isinstance(s2, ast.Assign) else [s2.target]))]
                    later = [s2 for s2 in later if isinstance(s2, ast.AugAssign) or any(
                        isinstance(b, ast.BinOp) and not isinstance(b.left, ast.Constant) and not isinstance(b.right, ast.Constant) for b in ast.walk(s2.value))]
                    if later:
                        rep.violation('RD2', fi.qual, f'`{ast.unparse(later[0])[:60]}` modifies the result after the `if return_dm:` conversion: in the density-matrix mode it acts on the '
                                      f'projector, not on the ket', m, later[0])
                    else:
                        rep.ok('RD2', fi.qual, 'the projector conversion is the last transformation of the result', m, st)
    for k in which:
        rep.count(f'{k}.instances', n[k])
    return n


RULE_FW2 = ('FW2: on a branch that delegates to a numqi helper, an option the caller accepts and the helper accepts under the same name is passed on: when the call leaves it '
            'out (the helper then runs with its default) and the caller reads the option neither in that branch nor after it, the option is ignored on that branch.')
RULE_RND1 = ('RND1: an angle is quantised to a multiple of pi/2 (or any grid) with round(), never with int() / floor / astype(int): a phase that falls short of the exact '
             'multiple by one ulp is truncated to the neighbouring grid point.')
RULE_ORD1 = ('ORD1: where gates of a list are fused into one matrix the later gate multiplies from the LEFT (`gate.array @ previous`): `previous @ gate.array` applies a run '
             'of gates in reversed order.')


def fw2_rnd1_ord1(proj, rep, which, modules=None):
    from ..callgraph import resolve_callee
    n = dict(FW2=0, RND1=0, ORD1=0)
    for k in which:
        rep.rule(k, globals()['RULE_' + k])
    for fi in proj.iter_functions():
        m = fi.module
        if not _in_scope(m, modules):
            continue
        fn = fi.node
        if 'FW2' in which:
            opts = {a.arg for a, d in zip(reversed(fn.args.args), reversed(fn.args.defaults))} | {a.arg for a, d in zip(fn.args.kwonlyargs, fn.args.kw_defaults) if d is not None}
            if opts:
                for c in ast.walk(fn):
                    if not isinstance(c, ast.Call) or any(isinstance(a, ast.Starred) for a in c.args) or any(k.arg is None for k in c.keywords):
                        continue
                    try:
                        r_ = resolve_callee(proj, m, c)
                    except Exception:
                        continue
                    g = r_.node if r_.kind == 'func' else None
                    if g is None or getattr(g, 'node', None) is None or not isinstance(g.node, (ast.FunctionDef, ast.AsyncFunctionDef)) or g.node is fn:
                        continue
                    gargs = g.node.args
                    gpos = [a.arg for a in gargs.args]
                    if gpos and gpos[0] in ('self', 'cls'):
                        gpos = gpos[1:]
                    gdef = {a.arg for a, d in zip(reversed(gargs.args), reversed(gargs.defaults))} | {a.arg for a, d in zip(gargs.kwonlyargs, gargs.kw_defaults) if d is not None}
                    for p in sorted(opts & gdef):
                        supplied = any(k.arg == p for k in c.keywords) or (p in gpos and gpos.index(p) < len(c.args))
                        if supplied:
                            continue
                        n['FW2'] += 1
                        # innermost enclosing arm
                        node, arm, outer_if = c, None, None
                        while getattr(node, '_parent', None) is not None and node is not fn:
                            par = node._parent
                            if isinstance(par, ast.If) and (node in par.body or node in par.orelse):
                                arm = par.body if node in par.body else par.orelse
                                outer_if = par
                                break
                            node = par
                        if arm is None:
                            continue
                        reads = lambda blk: any(isinstance(x, ast.Name) and x.id == p for s in blk for x in ast.walk(s))
                        if reads(arm) or not reads(outer_if.orelse if arm is outer_if.body else outer_if.body):
                            continue
                        # read after the If, on every enclosing level?
                        after, node2 = False, outer_if
                        while node2 is not fn and getattr(node2, '_parent', None) is not None:
                            par = node2._parent
                            for f_ in ('body', 'orelse', 'finalbody'):
                                blk = getattr(par, f_, None)
                                if isinstance(blk, list) and node2 in blk:
                                    if reads(blk[blk.index(node2) + 1:]):
                                        after = True
                            node2 = par
                        if after or any(isinstance(x, ast.Name) and x.id == p for x in ast.walk(outer_if.test)):
                            continue
                        rep.touch(m)
                        rep.violation('FW2', fi.qual, f'`{ast.unparse(c)[:70]}` does not pass `{p}` to {g.qual.split(".")[-1]} (default used) and this branch never reads `{p}`: the '
                                      f'caller\'s `{p}` is honoured on the other branch only', m, c)
        if 'RND1' in which:
            for c in ast.walk(fn):
                if isinstance(c, ast.Call) and ((isinstance(c.func, ast.Name) and c.func.id in ('int', 'round')) or ast.unparse(c.func).split('.')[-1] in ('floor', 'trunc', 'rint', 'round'))\
                        and c.args and any(isinstance(x, ast.Call) and ast.unparse(x.func).split('.')[-1] in ('angle', 'arctan2', 'atan2') for x in ast.walk(c.args[0])) \
                        and not any(isinstance(x, (ast.Compare, ast.BoolOp)) for x in ast.walk(c.args[0])):
                    nm = c.func.id if isinstance(c.func, ast.Name) else ast.unparse(c.func).split('.')[-1]
                    n['RND1'] += 1
                    rep.touch(m)
                    inner_round = any(isinstance(x, ast.Call) and ((isinstance(x.func, ast.Name) and x.func.id == 'round') or ast.unparse(x.func).split('.')[-1] in ('rint', 'round'))
                                      for x in ast.walk(c.args[0]))
                    if nm in ('round', 'rint') or inner_round:
                        rep.ok('RND1', fi.qual, f'`{ast.unparse(c)[:60]}` rounds to the nearest grid point', m, c)
                    else:
                        rep.violation('RND1', fi.qual, f'`{ast.unparse(c)[:70]}` truncates the quantised angle: a phase one ulp below the exact multiple lands on the neighbouring '
                                      f'grid point', m, c)
        if 'ORD1' in which:
            for lp in ast.walk(fn):
                if not (isinstance(lp, ast.For) and 'gate' in ast.unparse(lp.iter)):
                    continue
                tg = {x.id for x in ast.walk(lp.target) if isinstance(x, ast.Name)}
                for b in ast.walk(lp):
                    if isinstance(b, ast.BinOp) and isinstance(b.op, ast.MatMult):
                        cur_r = any(isinstance(x, ast.Name) and x.id in tg for x in ast.walk(b.right))
                        cur_l = any(isinstance(x, ast.Name) and x.id in tg for x in ast.walk(b.left))
                        if cur_r == cur_l:
                            continue
                        n['ORD1'] += 1
                        rep.touch(m)
                        if cur_r and 'array' in ast.unparse(b.right) and ('array' in ast.unparse(b.left) or '[-1]' in ast.unparse(b.left)):
                            rep.violation('ORD1', fi.qual, f'`{ast.unparse(b)[:70]}`: the gate of the current iteration multiplies from the right, so the fused run acts in reversed '
                                          f'order on a column state', m, b)
                        else:
                            rep.ok('ORD1', fi.qual, f'`{ast.unparse(b)[:50]}`', m, b)
    for k in which:
        rep.count(f'{k}.instances', n[k])
    return n


RULE_UV1 = ('UV1: a local name bound to a computed value and never read, next to a sibling binding that occurs twice or more in one later statement, marks a substitution: the '
            'stated intention (the decay amplitude `tmp1 = sqrt(rate)`) is not followed and its neighbour `tmp0` stands in both places. A merely unused name gives no verdict.')
UV1_REVIEWED = {
    ('numqi.entangle._misc.check_reduction_witness', 'N0'): 'size read once for documentation; the reshape uses dim',
    ('numqi.entangle.pureb_quantum.mps_to_dicke', 'num_qudit'): 'left over from an assert that was removed',
    ('numqi.group._internal.group_algebra_product', 'N0'): 'batch size, unused by the einsum formulation',
}


def uv1(proj, rep, modules=None):
    rep.rule('UV1', RULE_UV1)
    n = 0
    for fi in proj.iter_functions():
        m = fi.module
        if not _in_scope(m, modules):
            continue
        fn = fi.node
        loads = {x.id for x in ast.walk(fn) if isinstance(x, ast.Name) and isinstance(x.ctx, (ast.Load, ast.Del))}
        glob = {g_ for g in ast.walk(fn) if isinstance(g, (ast.Global, ast.Nonlocal)) for g_ in g.names}
        for s in ast.walk(fn):
            if isinstance(s, ast.Assign) and len(s.targets) == 1 and isinstance(s.targets[0], ast.Name):
                nm = s.targets[0].id
                n += 1
                if nm in loads or nm in glob or nm.startswith('_') or isinstance(s.value, ast.Constant):
                    continue
                if (fi.qual, nm) in UV1_REVIEWED:
                    rep.ok('UV1', fi.qual, f'`{nm}` unused (reviewed: {UV1_REVIEWED[(fi.qual, nm)]})', m, s, text=f'reviewed unused {nm}')
                    continue
                # an unused binding alone changes nothing; it is reported only with positive evidence of a substitution: a sibling bound next to it (same block, at most two
                # statements away) occurs twice or more in one later statement - the place where the unused name was meant to stand
                blk = next((b for x in ast.walk(fn) for f_ in ('body', 'orelse', 'finalbody') for b in [getattr(x, f_, None)] if isinstance(b, list) and s in b), None)
                sib = None
                if blk is not None:
                    k0 = blk.index(s)
                    for t in blk[max(0, k0 - 2):k0 + 3]:
                        if t is s or not (isinstance(t, ast.Assign) and len(t.targets) == 1 and isinstance(t.targets[0], ast.Name)):
                            continue
                        sn = t.targets[0].id
                        for later in blk[k0 + 1:]:
                            if later is t:
                                continue
                            cnt = sum(1 for x in ast.walk(later) if isinstance(x, ast.Name) and x.id == sn and isinstance(x.ctx, ast.Load))
                            if cnt >= 2:
                                sib = (sn, later)
                                break
                        if sib:
                            break
                if sib is None:
                    rep.ok('UV1', fi.qual, f'`{nm}` is never read; no sibling stands in its place (no verdict on a merely unused name)', m, s, text=f'unused {nm} without substitution')
                    continue
                rep.touch(m)
                rep.violation('UV1', fi.qual, f'`{ast.unparse(s)[:60]}` is computed and named but `{nm}` is never read, while its neighbour `{sib[0]}` occurs more than once in '
                              f'`{ast.unparse(sib[1])[:60]}`: one of those occurrences was meant to be `{nm}`', m, s)
    rep.count('UV1.local_bindings', n)
    if n:
        mm = proj.mod('numqi.utils')
        rep.ok('UV1', 'scope', f'{n} local bindings scanned', mm, mm.tree, text='uv1 sweep')
    return n


RULE_EVH1 = ('EVH1: the eigenvector matrix returned by eigh is transposed only together with a conjugation (V.T.conj(), V.conj().T, V.mH, V.mT.conj()): a plain V.T / V.mT is '
             'the adjoint for real symmetric input only; for a complex Hermitian matrix V^T A V is not the spectral sandwich.')


def evh1(proj, rep, modules=None):
    rep.rule('EVH1', RULE_EVH1)
    n = 0
    for fi in proj.iter_functions():
        m = fi.module
        if not _in_scope(m, modules):
            continue
        fn = fi.node
        ev = set()
        for s in ast.walk(fn):
            if isinstance(s, ast.Assign) and isinstance(s.value, ast.Call) and ast.unparse(s.value.func).split('.')[-1] == 'eigh' and isinstance(s.targets[0], ast.Tuple) \
                    and len(s.targets[0].elts) == 2 and isinstance(s.targets[0].elts[1], ast.Name):
                ev.add(s.targets[0].elts[1].id)
        if not ev:
            continue
        for a in ast.walk(fn):
            if isinstance(a, ast.Attribute) and a.attr in ('T', 'mT') and isinstance(a.ctx, ast.Load):
                base = a.value
                inner_conj = isinstance(base, ast.Call) and isinstance(base.func, ast.Attribute) and base.func.attr in ('conj', 'conjugate') and isinstance(base.func.value, ast.Name) \
                    and base.func.value.id in ev
                if not (inner_conj or (isinstance(base, ast.Name) and base.id in ev)):
                    continue
                n += 1
                par = getattr(a, '_parent', None)
                outer_conj = isinstance(par, ast.Attribute) and par.attr in ('conj', 'conjugate')
                wrapped = isinstance(par, ast.Call) and ast.unparse(par.func).split('.')[-1] in ('conj', 'conjugate')
                rep.touch(m)
                if inner_conj or outer_conj or wrapped:
                    rep.ok('EVH1', fi.qual, f'`{ast.unparse(par if outer_conj else a)[:40]}` is the adjoint of the eigenvector matrix', m, a)
                else:
                    # a real-only function: the decomposed matrix is certainly real (dtype float allocation) - not decidable here, keep certain cases only
                    rep.violation('EVH1', fi.qual, f'`{ast.unparse(a)}` transposes the eigenvectors of eigh without conjugating them: for a complex Hermitian matrix this is not V^dagger',
                                  m, a)
    rep.count('EVH1.eigenvector_transposes', n)
    return n


RULE_PSD1 = ('PSD1: every call of numqi.utils.is_positive_semi_definite passes a `shift` (the Cholesky test with shift=0 accepts strictly positive-definite matrices only: '
             'every rank-deficient state - basis states, pure products, classical mixtures - is rejected).')


def psd1(proj, rep, modules=None):
    rep.rule('PSD1', RULE_PSD1)
    n = 0
    for fi in proj.iter_functions():
        m = fi.module
        if not _in_scope(m, modules) or fi.qual == 'numqi.utils.is_positive_semi_definite':
            continue
        for c in ast.walk(fi.node):
            if isinstance(c, ast.Call) and ast.unparse(c.func).split('.')[-1] == 'is_positive_semi_definite':
                n += 1
                rep.touch(m)
                if any(k.arg == 'shift' for k in c.keywords) or len(c.args) >= 2:
                    rep.ok('PSD1', fi.qual, f'`{ast.unparse(c)[:60]}` passes a shift', m, c)
                else:
                    rep.violation('PSD1', fi.qual, f'`{ast.unparse(c)[:70]}` runs the Cholesky test with shift=0: a positive semi-definite matrix with a zero eigenvalue is reported '
                                  f'as not PSD', m, c)
    rep.count('PSD1.calls', n)
    return n


RULE_CAST1 = ('CAST1: inside a branch whose test admits a complex dtype for an array (`x.dtype in {.., complex64}`, `x.dtype == complex128`, `is_complex`), that array is not '
              'cast to a real floating dtype (.to(float64), .double(), .float(), astype(float64)): the imaginary part is discarded with a warning only.')
_CPLX = ('complex64', 'complex128', 'cfloat', 'cdouble', 'complex')
_REALF = ('float64', 'float32', 'double', 'float', 'float16', 'half')


def cast1(proj, rep, modules=None):
    rep.rule('CAST1', RULE_CAST1)
    n = 0
    for fi in proj.iter_functions():
        m = fi.module
        if not _in_scope(m, modules):
            continue
        for g in ast.walk(fi.node):
            if not isinstance(g, ast.If):
                continue
            arr = None
            for c in ast.walk(g.test):
                if isinstance(c, ast.Compare) and isinstance(c.left, ast.Attribute) and c.left.attr == 'dtype' and isinstance(c.left.value, ast.Name) \
                        and isinstance(c.ops[0], (ast.In, ast.Eq)) and any(ast.unparse(x).split('.')[-1] in _CPLX for x in ast.walk(c.comparators[0]) if isinstance(x, (ast.Attribute, ast.Name))):
                    arr = c.left.value.id
                elif isinstance(c, ast.Call) and ast.unparse(c.func).split('.')[-1] in ('is_complex', 'iscomplexobj') and (
                        (c.args and isinstance(c.args[0], ast.Name)) or (isinstance(c.func, ast.Attribute) and isinstance(c.func.value, ast.Name) and c.func.value.id not in ('torch', 'np'))):
                    arr = c.args[0].id if c.args and isinstance(c.args[0], ast.Name) else c.func.value.id
            if arr is None or any(isinstance(x, ast.Not) for x in ast.walk(g.test)):
                continue
            n += 1
            rep.touch(m)
            bad = None
            for s in g.body:
                for c in ast.walk(s):
                    if isinstance(c, ast.Call) and isinstance(c.func, ast.Attribute) and isinstance(c.func.value, ast.Name) and c.func.value.id == arr:
                        if c.func.attr in ('double', 'float', 'half') and not c.args:
                            bad = c
                        elif c.func.attr in ('to', 'astype', 'type') and c.args and isinstance(c.args[0], (ast.Attribute, ast.Name)) and ast.unparse(c.args[0]).split('.')[-1] in _REALF:
                            bad = c
            if bad is not None:
                rep.violation('CAST1', fi.qual, f'`{ast.unparse(bad)[:60]}` inside `if {ast.unparse(g.test)[:50]}`: the branch is taken for complex `{arr}` too, and the cast keeps '
                              f'the real part only', m, bad)
            else:
                rep.ok('CAST1', fi.qual, f'`if {ast.unparse(g.test)[:50]}`: no real cast of `{arr}` inside', m, g)
    rep.count('CAST1.complex_admitting_branches', n)
    return n


RULE_EVS1 = ('EVS1: where `subset_by_index=(lo, hi)` is chosen per end of the spectrum (smallest / largest), both choices request the same number hi - lo + 1 of eigenvalues '
             '(decided on the linear forms of lo and hi): (0, k-1) against (N-k-1, N-1) asks for k+1 values at the top and `[0]` is then the second largest.')


def _linform(e):
    """linear form {name: coef, 1: const} of an integer expression, or None."""
    if isinstance(e, ast.Constant) and isinstance(e.value, int):
        return {1: e.value}
    if isinstance(e, ast.Name):
        return {e.id: 1}
    if isinstance(e, ast.UnaryOp) and isinstance(e.op, ast.USub):
        a = _linform(e.operand)
        return None if a is None else {k: -v for k, v in a.items()}
    if isinstance(e, ast.BinOp) and isinstance(e.op, (ast.Add, ast.Sub)):
        a, b = _linform(e.left), _linform(e.right)
        if a is None or b is None:
            return None
        out = dict(a)
        for k, v in b.items():
            out[k] = out.get(k, 0) + (v if isinstance(e.op, ast.Add) else -v)
        return {k: v for k, v in out.items() if v != 0}
    return None


def evs1(proj, rep, modules=None):
    rep.rule('EVS1', RULE_EVS1)
    n = 0
    for fi in proj.iter_functions():
        m = fi.module
        if not _in_scope(m, modules):
            continue
        for c in ast.walk(fi.node):
            if not (isinstance(c, ast.Call) and any(k.arg == 'subset_by_index' for k in c.keywords)):
                continue
            v = next(k.value for k in c.keywords if k.arg == 'subset_by_index')
            arms = []
            if isinstance(v, ast.IfExp):
                arms = [v.body, v.orelse]
            elif isinstance(v, ast.Name):
                for val, st, path in reaching_defs(fi.node, v.id, c):
                    if isinstance(val, ast.IfExp):
                        arms = [val.body, val.orelse]
                    elif isinstance(val, ast.AST):
                        arms.append(val)
            arms = [a for a in arms if isinstance(a, (ast.Tuple, ast.List)) and len(a.elts) == 2]
            if len(arms) < 2:
                continue
            n += 1
            rep.touch(m)
            widths = []
            for a in arms:
                lo, hi = _linform(a.elts[0]), _linform(a.elts[1])
                if lo is None or hi is None:
                    widths = None
                    break
                w = dict(hi)
                for k, x in lo.items():
                    w[k] = w.get(k, 0) - x
                widths.append({k: x for k, x in w.items() if x != 0})
            if widths is None:
                rep.undecided('EVS1', fi.qual, f'`{ast.unparse(v)[:60]}` bounds are not linear forms', m, c)
                n -= 1
            elif all(w == widths[0] for w in widths):
                rep.ok('EVS1', fi.qual, f'both ends request hi - lo = {widths[0]}', m, c)
            else:
                rep.violation('EVS1', fi.qual, f'the index windows {[ast.unparse(a) for a in arms]} have different widths {widths}: one end of the spectrum returns a different '
                              f'number of eigenvalues, so a fixed `[0]` / `[-1]` picks the wrong one', m, c)
    rep.count('EVS1.windows', n)
    return n


RULE_SELF1 = ('SELF1: contradictions that need no specification: no `x - x`, `x / x`, `x % x`, `x ^ x` on one call-free operand (the second operand was meant to be a sibling), '
              'no if / conditional expression whose two arms are the same code, no dictionary display with a repeated key.')


def self1(proj, rep, modules=None):
    rep.rule('SELF1', RULE_SELF1)
    n = 0
    pure = lambda e: not isinstance(e, ast.Constant) and not any(isinstance(x, (ast.Call, ast.Lambda, ast.IfExp, ast.ListComp, ast.GeneratorExp)) for x in ast.walk(e))
    for m in proj.modules.values():
        if not _in_scope(m, modules):
            continue
        for c in ast.walk(m.tree):
            if isinstance(c, ast.BinOp) and isinstance(c.op, (ast.Sub, ast.Div, ast.FloorDiv, ast.Mod, ast.BitXor)):
                n += 1
                if pure(c.left) and ast.dump(c.left) == ast.dump(c.right):
                    rep.touch(m)
                    rep.violation('SELF1', m.name, f'`{ast.unparse(c)[:60]}` combines an operand with itself: the result is a constant, one side was meant to be another value', m, c)
            elif isinstance(c, ast.If) and c.orelse:
                n += 1
                if [ast.dump(x) for x in c.body] == [ast.dump(x) for x in c.orelse]:
                    rep.touch(m)
                    rep.violation('SELF1', m.name, f'both arms of `if {ast.unparse(c.test)[:50]}` are the same code: the test has no effect', m, c)
            elif isinstance(c, ast.IfExp):
                n += 1
                if ast.dump(c.body) == ast.dump(c.orelse):
                    rep.touch(m)
                    rep.violation('SELF1', m.name, f'`{ast.unparse(c)[:60]}` has identical arms', m, c)
            elif isinstance(c, ast.Dict):
                n += 1
                ks = [ast.dump(k) for k in c.keys if isinstance(k, ast.Constant)]
                if len(ks) != len(set(ks)):
                    rep.touch(m)
                    rep.violation('SELF1', m.name, 'a dictionary display repeats a key: the earlier entry is silently dropped', m, c)
    rep.count('SELF1.sites', n)
    if n:
        mm = proj.mod('numqi.utils')
        rep.ok('SELF1', 'scope', f'{n} binary operations / conditionals / dictionary displays scanned', mm, mm.tree, text='self1 sweep')
    return n


RULE_CJ1 = ('CJ1: `.real` taken of a bilinear self-product - `np.dot(x, x).real`, `(x @ x).real`, `np.sum(x * x).real`, `np.inner(x, x).real` - states that x may be complex, '
            'and then the product needs a conjugate (`np.vdot(x, x)`, `x.conj() @ x`): without it the value is sum x_k^2, not the squared norm sum |x_k|^2.')


def cj1(proj, rep, modules=None):
    rep.rule('CJ1', RULE_CJ1)
    n = 0
    pure = lambda e: not any(isinstance(x, (ast.Call, ast.Lambda)) for x in ast.walk(e)) and not isinstance(e, ast.Constant)
    for m in proj.modules.values():
        if not _in_scope(m, modules):
            continue
        for a in ast.walk(m.tree):
            if not (isinstance(a, ast.Attribute) and a.attr == 'real'):
                continue
            n += 1
            v = a.value
            pair = None
            if isinstance(v, ast.Call) and ast.unparse(v.func).split('.')[-1] in ('dot', 'inner', 'matmul') and len(v.args) == 2:
                pair = (v.args[0], v.args[1])
            elif isinstance(v, ast.BinOp) and isinstance(v.op, ast.MatMult):
                pair = (v.left, v.right)
            elif isinstance(v, ast.Call) and ast.unparse(v.func).split('.')[-1] == 'sum' and v.args and isinstance(v.args[0], ast.BinOp) and isinstance(v.args[0].op, ast.Mult):
                pair = (v.args[0].left, v.args[0].right)
            if pair and pure(pair[0]) and ast.dump(pair[0]) == ast.dump(pair[1]):
                rep.touch(m)
                rep.violation('CJ1', m.name, f'`{ast.unparse(a)[:60]}`: the self-product has no conjugate although `.real` admits a complex `{ast.unparse(pair[0])[:20]}`; for a complex '
                              f'vector this is sum x^2, not the squared norm', m, a)
    rep.count('CJ1.real_reads', n)
    if n:
        mm = proj.mod('numqi.utils')
        rep.ok('CJ1', 'scope', f'{n} `.real` reads scanned', mm, mm.tree, text='cj1 sweep')
    return n


RULE_MR3 = ('MR3: an index packed as `B*u + v` inside a subscript, with u or v array-valued, takes its base B from a size name (n, dim, len(..)); a literal base >= 3 only separates '
            'digits below that literal, and the labels here range over a size the caller chooses (vertex 10 of an 11-gon collides with (1, 0)).')


def mr3(proj, rep, modules=None):
    rep.rule('MR3', RULE_MR3)
    n = 0
    for m in proj.modules.values():
        if not _in_scope(m, modules):
            continue
        for c in ast.walk(m.tree):
            if not isinstance(c, ast.Subscript):
                continue
            for b in ast.walk(c.slice):
                if not (isinstance(b, ast.BinOp) and isinstance(b.op, ast.Add)):
                    continue
                for side, other in ((b.left, b.right), (b.right, b.left)):
                    if isinstance(side, ast.BinOp) and isinstance(side.op, ast.Mult):
                        lit = next((x for x in (side.left, side.right) if isinstance(x, ast.Constant) and isinstance(x.value, int) and not isinstance(x.value, bool)), None)
                        dig = side.right if lit is side.left else side.left
                        n += 1
                        if lit is not None and lit.value >= 3 and (any(isinstance(x, ast.Subscript) for x in ast.walk(dig)) or any(isinstance(x, ast.Subscript) for x in ast.walk(other))):
                            rep.touch(m)
                            rep.violation('MR3', m.name, f'`{ast.unparse(b)[:60]}` packs two labels with the literal base {lit.value}: labels >= {lit.value} collide (the base must be the '
                                          f'size the labels range over)', m, b)
    rep.count('MR3.packed_indices', n)
    if n:
        mm = proj.mod('numqi.utils')
        rep.ok('MR3', 'scope', f'{n} packed index expressions scanned', mm, mm.tree, text='mr3 sweep')
    return n


RULE_BT1 = ('BT1: `.T` is not applied to an array the function itself treats as batched (it indexes it with an Ellipsis, flattens it with reshape(-1, ..), or reads '
            '`shape[:-1]` / `shape[:-2]`): on more than two axes `.T` reverses ALL axes - batch members are mixed or the broadcast fails; the adjoint of the last two axes is '
            '`swapaxes(-1, -2)` / `.mT`.')
RULE_OUT2 = ('OUT2: `np.outer(x, x)` of one complex-capable vector (x comes from a complex generator of the package or is combined with `1j`) conjugates its second factor: '
             'without it the result is x x^T, not the projector |x><x| (not Hermitian, trace != 1).')
RULE_RK1 = ('RK1: a reduction / scan over a tensor that may be complex (it is derived from the input of a complex-capable conversion) never names a real accumulator dtype '
            '(`cumsum(.., dtype=torch.float64)`, `sum(.., dtype=np.float64)`): the imaginary part is discarded with a warning only.')


def bt1_out2_rk1(proj, rep, which, modules=None):
    n = dict(BT1=0, OUT2=0, RK1=0)
    for k in which:
        rep.rule(k, globals()['RULE_' + k])
    def _own_batched(f2):
        out = set()
        ps = set(f2.all_params)
        for x in ast.walk(f2.node):
            if isinstance(x, ast.Subscript) and isinstance(x.value, ast.Name) and x.value.id in ps:
                idx = x.slice.elts if isinstance(x.slice, ast.Tuple) else [x.slice]
                if any(isinstance(i, ast.Constant) and i.value is Ellipsis for i in idx):
                    out.add(x.value.id)
            if isinstance(x, ast.Subscript) and isinstance(x.value, ast.Attribute) and x.value.attr == 'shape' and isinstance(x.value.value, ast.Name) \
                    and x.value.value.id in ps and isinstance(x.slice, ast.Slice) and x.slice.lower is None and ast.unparse(x.slice.upper) in ('-1', '-2'):
                out.add(x.value.value.id)
        # `shape0 = A.shape` ... `shape0[:-2]`
        snap = {s2.targets[0].id: s2.value.value.id for s2 in ast.walk(f2.node) if isinstance(s2, ast.Assign) and len(s2.targets) == 1 and isinstance(s2.targets[0], ast.Name)
                and isinstance(s2.value, ast.Attribute) and s2.value.attr == 'shape' and isinstance(s2.value.value, ast.Name) and s2.value.value.id in ps}
        for x in ast.walk(f2.node):
            if isinstance(x, ast.Subscript) and isinstance(x.value, ast.Name) and x.value.id in snap and isinstance(x.slice, ast.Slice) and x.slice.lower is None \
                    and x.slice.upper is not None and ast.unparse(x.slice.upper) in ('-1', '-2'):
                out.add(snap[x.value.id])
        return out
    for fi in proj.iter_functions():
        m = fi.module
        if not _in_scope(m, modules):
            continue
        fn = fi.node
        params = set(fi.all_params)
        if 'BT1' in which:
            batched = set()
            # one level through resolved numqi callees: a parameter handed to a callee that treats that argument as a batch
            from ..callgraph import resolve_callee as _rc
            for c in ast.walk(fn):
                if isinstance(c, ast.Call) and c.args and isinstance(c.args[0], ast.Name) and c.args[0].id in params:
                    try:
                        r_ = _rc(proj, m, c)
                    except Exception:
                        continue
                    g = r_.node if r_.kind == 'func' else None
                    if g is not None and getattr(g, 'all_params', None) and g.node is not fn:
                        gp = [a for a in g.all_params if a not in ('self', 'cls')]
                        if gp and gp[0] in _own_batched(g):
                            batched.add(c.args[0].id)
            for x in ast.walk(fn):
                if isinstance(x, ast.Subscript) and isinstance(x.value, ast.Name) and x.value.id in params:
                    idx = x.slice.elts if isinstance(x.slice, ast.Tuple) else [x.slice]
                    if any(isinstance(i, ast.Constant) and i.value is Ellipsis for i in idx):
                        batched.add(x.value.id)
                if isinstance(x, ast.Subscript) and isinstance(x.value, ast.Attribute) and x.value.attr == 'shape' and isinstance(x.value.value, ast.Name) \
                        and x.value.value.id in params and isinstance(x.slice, ast.Slice) and x.slice.lower is None and ast.unparse(x.slice.upper) in ('-1', '-2'):
                    batched.add(x.value.value.id)
            for x in ast.walk(fn):
                if isinstance(x, ast.Attribute) and x.attr == 'T' and isinstance(x.value, ast.Name) and x.value.id in batched:
                    # not after a re-binding of the name to a 2-D view
                    if any(isinstance(s, ast.Assign) and any(isinstance(t, ast.Name) and t.id == x.value.id for t in s.targets) and s.lineno < x.lineno for s in ast.walk(fn)):
                        continue
                    # only when the function is not restricted to ndim == 2 on that path
                    import re as _re
                    guard = any(isinstance(g, (ast.If, ast.Assert, ast.IfExp)) and (any(q in ast.unparse(g.test).replace(' ', '') for q in (
                        f'{x.value.id}.ndim==2', f'{x.value.id}.ndim<=2', f'{x.value.id}.ndim<3', f'len({x.value.id}.shape)==2', f'{x.value.id}.dim()==2'))
                                                                         or _re.search(r'\b%s\.shape==\([^(),]+,[^(),]+\)' % _re.escape(x.value.id), ast.unparse(g.test).replace(' ', '')))
                                for g in ast.walk(fn))
                    n['BT1'] += 1
                    rep.touch(m)
                    if guard:
                        rep.ok('BT1', fi.qual, f'`{ast.unparse(x)}` under an ndim == 2 guard', m, x)
                    else:
                        rep.violation('BT1', fi.qual, f'`{ast.unparse(x)}` reverses all axes of `{x.value.id}`, which this function treats as a batch (Ellipsis index / shape[:-k]): '
                                      f'for a batch the members are mixed or the broadcast fails', m, x)
        if 'OUT2' in which:
            for c in ast.walk(fn):
                if isinstance(c, ast.Call) and ast.unparse(c.func) in ('np.outer', 'numpy.outer') and len(c.args) == 2 and isinstance(c.args[0], ast.Name) \
                        and ast.dump(c.args[0]) == ast.dump(c.args[1]):
                    n['OUT2'] += 1
                    vals = [v for v, st, pth in reaching_defs(fn, c.args[0].id, c) if isinstance(v, ast.AST)]
                    cplx = any(isinstance(y, ast.Constant) and isinstance(y.value, complex) for v in vals for y in ast.walk(v)) or any(
                        isinstance(y, ast.Call) and ast.unparse(y.func).split('.')[-1] in ('rand_haar_state', '_random_complex', 'rand_haar_unitary') and not any(
                            k.arg == 'tag_complex' for k in y.keywords) for v in vals for y in ast.walk(v))
                    rep.touch(m)
                    if cplx:
                        rep.violation('OUT2', fi.qual, f'`{ast.unparse(c)}`: `{c.args[0].id}` is complex, so this is x x^T - the projector needs `np.outer(x, x.conj())`', m, c)
                    else:
                        rep.ok('OUT2', fi.qual, f'`{ast.unparse(c)}`: no evidence that the vector is complex', m, c)
        if 'RK1' in which:
            for c in ast.walk(fn):
                if isinstance(c, ast.Call) and ast.unparse(c.func).split('.')[-1] in ('cumsum', 'sum', 'cumprod', 'prod', 'mean', 'einsum') and any(
                        k.arg == 'dtype' and isinstance(k.value, (ast.Attribute, ast.Name)) and ast.unparse(k.value).split('.')[-1] in _REALF for k in c.keywords):
                    arg = c.args[0] if c.args else (c.func.value if isinstance(c.func, ast.Attribute) else None)
                    if arg is None:
                        continue
                    names = {y.id for y in ast.walk(arg) if isinstance(y, ast.Name)}
                    # derived from a parameter through plumbing / arithmetic
                    derived = set(params)
                    changed = True
                    while changed:
                        changed = False
                        for s in ast.walk(fn):
                            if isinstance(s, ast.Assign) and isinstance(s.targets[0], ast.Name) and s.targets[0].id not in derived and any(
                                    isinstance(y, ast.Name) and y.id in derived for y in ast.walk(s.value)):
                                derived.add(s.targets[0].id)
                                changed = True
                    cap = any(isinstance(y, ast.Call) and ast.unparse(y.func).split('.')[-1] in ('is_complex', 'iscomplexobj') for y in ast.walk(fn)) or any(
                        ast.unparse(y).split('.')[-1] in _CPLX for y in ast.walk(fn) if isinstance(y, ast.Attribute)) or any(
                        isinstance(y, ast.Constant) and isinstance(y.value, complex) for y in ast.walk(fn))
                    if names & derived:
                        n['RK1'] += 1
                        rep.touch(m)
                        if cap:
                            rep.violation('RK1', fi.qual, f'`{ast.unparse(c)[:70]}` accumulates an input-derived tensor in a real dtype, in a function that handles complex input: the '
                                          f'imaginary part of the accumulated entries is discarded', m, c)
                        else:
                            rep.ok('RK1', fi.qual, f'`{ast.unparse(c)[:50]}`: the function has no complex path', m, c)
    for k in which:
        rep.count(f'{k}.instances', n[k])
    return n


RULE_A13 = ('A13: inside a custom autograd `backward`, an array that aliases a saved tensor or an incoming gradient (`ctx.saved_tensors[k]`, `grad_output`, through detach / numpy / '
            'reshape / view) is never written in place (`out=` of a ufunc, item store, augmented assignment, in-place method): the saved tensor is the forward result itself, a second '
            'backward through the same graph (retain_graph, Jacobian rows) starts from the modified state and torch\'s version counter does not see a NumPy write.')
_ALIAS_CALLS = ('detach', 'numpy', 'reshape', 'view', 'ravel', 'squeeze', 'unsqueeze', 'contiguous', 'transpose', 'permute', 'swapaxes', 'cpu')


def a13(proj, rep, modules=None):
    rep.rule('A13', RULE_A13)
    n = 0
    for fi in proj.iter_functions():
        m = fi.module
        if not _in_scope(m, modules) or fi.node.name != 'backward' or not fi.all_params or fi.all_params[0] != 'ctx':
            continue
        fn = fi.node

        def root_alias(e, al):
            while True:
                if isinstance(e, ast.Call) and isinstance(e.func, ast.Attribute) and e.func.attr in _ALIAS_CALLS:
                    e = e.func.value
                elif isinstance(e, ast.Subscript):
                    e = e.value
                elif isinstance(e, ast.Attribute) and e.attr in ('T', 'mT', 'data'):
                    e = e.value
                else:
                    break
            if isinstance(e, ast.Attribute) and ast.unparse(e) == 'ctx.saved_tensors':
                return True
            return isinstance(e, ast.Name) and e.id in al
        alias = set(fi.all_params[1:])
        changed = True
        while changed:
            changed = False
            for s in ast.walk(fn):
                if isinstance(s, ast.Assign) and len(s.targets) == 1:
                    tg = s.targets[0]
                    names = [tg] if isinstance(tg, ast.Name) else ([e for e in tg.elts if isinstance(e, ast.Name)] if isinstance(tg, (ast.Tuple, ast.List)) else [])
                    if names and root_alias(s.value, alias):
                        for t in names:
                            if t.id not in alias:
                                alias.add(t.id)
                                changed = True
        n += 1
        rep.touch(m)
        bad = None
        for x in ast.walk(fn):
            if isinstance(x, ast.Call):
                for k in x.keywords:
                    if k.arg == 'out' and root_alias(k.value, alias):
                        bad = x
                if isinstance(x.func, ast.Attribute) and root_alias(x.func.value, alias) and (x.func.attr.endswith('_') and not x.func.attr.startswith('_') or x.func.attr in ('fill', 'sort', 'itemset')):
                    bad = x
            elif isinstance(x, ast.Assign) and any(isinstance(t, ast.Subscript) and root_alias(t.value, alias) for t in x.targets):
                bad = x
            elif isinstance(x, ast.AugAssign) and (root_alias(x.target, alias) if not isinstance(x.target, ast.Name) else x.target.id in alias):
                bad = x
        if bad is not None:
            rep.violation('A13', fi.qual, f'`{ast.unparse(bad)[:70]}` writes in place into an array that aliases a saved tensor / incoming gradient: a second backward through the same '
                          f'graph starts from the modified state', m, bad)
        else:
            rep.ok('A13', fi.qual, f'no in-place write into the {len(alias)} aliases of saved tensors / incoming gradients', m, fn, text=f'{fi.qual} saved-tensor aliases')
    rep.count('A13.backward_functions', n)
    return n


RULE_M4 = ('M4: in measure_quantum_vector every item store into the collapsed buffer (allocated as zeros_like of the state) reads the pre-measurement state: a constant store '
           '(`q2[sel] = 1`) returns |b> instead of the projection a_b/|a_b| |b> - the phase of the surviving amplitude is lost.')


def m4(proj, rep):
    rep.rule('M4', RULE_M4)
    fi = proj.func('numqi.sim.state.measure_quantum_vector')
    m = fi.module
    rep.touch(m)
    n = 0
    bufs = {s.targets[0].id: s.value.args[0].id for s in ast.walk(fi.node) if isinstance(s, ast.Assign) and isinstance(s.targets[0], ast.Name) and isinstance(s.value, ast.Call)
            and ast.unparse(s.value.func).split('.')[-1] in ('zeros_like', 'empty_like') and s.value.args and isinstance(s.value.args[0], ast.Name)}
    for s in ast.walk(fi.node):
        if isinstance(s, ast.Assign) and isinstance(s.targets[0], ast.Subscript) and isinstance(s.targets[0].value, ast.Name) and s.targets[0].value.id in bufs:
            n += 1
            src = bufs[s.targets[0].value.id]
            if any(isinstance(y, ast.Name) and y.id == src for y in ast.walk(s.value)):
                rep.ok('M4', fi.qual, f'`{ast.unparse(s)[:60]}` reads `{src}`', m, s)
            else:
                rep.violation('M4', fi.qual, f'`{ast.unparse(s)[:60]}` stores a value that does not read the state `{src}`: the collapsed state is not the projection of the input '
                              f'(phase of the surviving amplitude lost)', m, s)
    rep.count('M4.collapse_stores', n)
    return n
