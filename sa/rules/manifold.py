"""W1-W3 — agreement between the manifold nn.Module wrappers and the functional trivialization maps (C01, C02)."""
import ast
import itertools
from fractions import Fraction
from ..project import bind_call, AnalysisError
from ..callgraph import resolve_callee
from ..poly import Poly, SymEval, UNK, Atom

RULES = {
    'W1': 'W1: forward() of every manifold module returns, on every path, the result of a resolved to_* functional (optionally '
          'followed by an enumerated post-op: `[..., :self.rank]`, `* self.weight_inv`) called with self.theta in the theta slot '
          'and every other slot bound to the self attribute that __init__ assigned from the constructor parameter of the same '
          'role (dim<-dim, rank<-rank, is_real<-is_real, order<-cayley_order, with_phase<-euler_with_phase, lower/upper, '
          'is_trace0, is_norm1); binding is by resolved parameter name, so swapped positional arguments are reported.',
    'W2': 'W2: the option set asserted by the constructor (`assert method in {...}`) equals the options dispatched in forward '
          '(explicit comparisons plus exactly one implicit else), and each option reaches the functional whose name carries it.',
    'W3': 'W3: for every (method, real/complex[, with_phase, is_trace0]) the theta length allocated by the constructor equals, as '
          'an exact polynomial in dim and rank, the length the functional accepts for that field; real and complex lengths of '
          'one functional are different polynomials (otherwise the field is chosen arbitrarily).',
    'W4': 'W4 (C02 necessary condition): the allocated parameter count is >= the dimension of the manifold named by the class for '
          'every 2<=dim<=12, 1<=rank<=dim, and equal to it for the charts that the property lists as exact (coordinate sphere, '
          'Stiefel choleskyL/euler real, euler complex with phase, SO/SU exp and cayley).',
}

ROLE = {'cayley_order': 'order', 'euler_with_phase': 'with_phase'}
MODS = ['numqi.manifold._internal', 'numqi.manifold._stiefel']


def manifold_classes(proj):
    out = []
    for mname in MODS:
        m = proj.mod(mname)
        for q, ci in sorted(proj.classes.items()):
            if ci.module is m and 'forward' in ci.methods and '__init__' in ci.methods:
                if any(isinstance(n, ast.Attribute) and n.attr == 'theta' for n in ast.walk(ci.methods['__init__'].node)):
                    out.append(ci)
    return out


def _init_attr_sources(init):
    """self.X -> set of constructor parameter names (or literal markers) that X is assigned from."""
    params = set(init.params[1:])
    out = {}
    for n in ast.walk(init.node):
        if isinstance(n, ast.Assign):
            for t in n.targets:
                if isinstance(t, ast.Attribute) and isinstance(t.value, ast.Name) and t.value.id == 'self':
                    v = n.value
                    src = None
                    names = [x.id for x in ast.walk(v) if isinstance(x, ast.Name)]
                    pn = [x for x in names if x in params]
                    if isinstance(v, ast.Constant):
                        src = f'<const {v.value!r}>'
                    elif len(pn) == 1 and _is_wrapper_of(v, pn[0]):
                        src = pn[0]
                    elif isinstance(v, ast.Name):
                        src = f'<local {v.id}>'
                    else:
                        src = f'<expr {ast.unparse(v)[:40]}>'
                    out.setdefault(t.attr, set()).add(src)
    return out


def _is_wrapper_of(v, name):
    """v is `name`, int(name), bool(name), torch.tensor(name, ...), float(name)."""
    if isinstance(v, ast.Name):
        return v.id == name
    if isinstance(v, ast.Call) and v.args and isinstance(v.args[0], ast.Name) and v.args[0].id == name:
        f = ast.unparse(v.func)
        return f in ('int', 'bool', 'float', 'torch.tensor')
    return False


def _strip_post(e):
    """Peel enumerated post-ops off a returned expression; returns (call, [post descriptions])."""
    post = []
    while True:
        if isinstance(e, ast.Subscript):
            post.append(f'[{ast.unparse(e.slice)}]')
            e = e.value
        elif isinstance(e, ast.BinOp) and isinstance(e.op, ast.Mult) and isinstance(e.right, ast.Attribute):
            post.append(f'* {ast.unparse(e.right)}')
            e = e.left
        else:
            return e, post


def _functional_targets(proj, m, fn, call):
    """to_* functionals a call may reach: direct, or through a local alias `hf = A if c else B` / `hf = A`."""
    r = resolve_callee(proj, m, call)
    if r.kind == 'func' and r.node.name.startswith('to_'):
        return [r.node]
    out = []
    if isinstance(call.func, ast.Name):
        asg = [s for s in ast.walk(fn) if isinstance(s, ast.Assign) and len(s.targets) == 1 and isinstance(s.targets[0], ast.Name)
               and s.targets[0].id == call.func.id]
        for s in asg:
            cands = [s.value.body, s.value.orelse] if isinstance(s.value, ast.IfExp) else [s.value]
            for c in cands:
                if isinstance(c, (ast.Name, ast.Attribute)):
                    rr = proj.resolve_expr(m, c)
                    if rr.kind == 'func' and rr.node.name.startswith('to_'):
                        out.append(rr.node)
    return out


def w1(proj, rep):
    rep.rule('W1', RULES['W1'])
    narms = 0
    ncls = 0
    for ci in manifold_classes(proj):
        m = ci.module
        rep.touch(m)
        init, fwd = ci.methods['__init__'], ci.methods['forward']
        src = _init_attr_sources(init)
        # every `ret = <expr>` whose value contains a functional call, plus direct returns
        calls = []
        for n in ast.walk(fwd.node):
            if isinstance(n, ast.Call):
                for fi2 in _functional_targets(proj, m, fwd.node, n):
                    calls.append((n, fi2))
        if not calls:
            rep.violation('W1', ci.qual, 'forward() calls no to_* functional: the module does not return the functional map', m, fwd.node,
                          text=f'{ci.qual}.forward delegates')
            continue
        ncls += 1
        # assignments `ret = ret * self.weight_inv` style post-ops are accepted (enumerated)
        for call, fi in calls:
            narms += 1
            construct = f'{ci.qual}.forward -> {fi.name}'
            b = bind_call(call, fi, skip_self=False)
            if b.star or b.dstar_unknown:
                rep.undecided('W1', construct, 'star arguments', m, call)
                continue
            bad = None
            for p in fi.params:
                a = b.args.get(p)
                if p == 'theta':
                    if a is None:
                        bad = 'theta slot unbound'
                        break
                    root = a
                    if isinstance(root, ast.Name):
                        # local alias: tmp0 = self.theta[0] if ... else self.theta
                        asg = [s for s in ast.walk(fwd.node) if isinstance(s, ast.Assign) and isinstance(s.targets[0], ast.Name) and s.targets[0].id == root.id]
                        ok = bool(asg) and all('self.theta' in ast.unparse(s.value) and
                                               not [x for x in ast.walk(s.value) if isinstance(x, ast.Attribute) and isinstance(x.value, ast.Name)
                                                    and x.value.id == 'self' and x.attr not in ('theta', 'batch_size')] for s in asg)
                        if not ok:
                            bad = f'theta slot bound to `{ast.unparse(a)}`, not to self.theta'
                            break
                    elif 'self.theta' != ast.unparse(a) and not ast.unparse(a).startswith('self.theta['):
                        bad = f'theta slot bound to `{ast.unparse(a)}`, not to self.theta'
                        break
                    continue
                if a is None:
                    if p in fi.defaults:
                        # leaving an option at the functional's default while the constructor takes that option is a defect
                        ctor_has = [c for c in init.params[1:] if ROLE.get(c, c) == p]
                        if ctor_has:
                            bad = f'constructor option `{ctor_has[0]}` is not forwarded to `{fi.name}({p}=...)` (functional default used)'
                            break
                        continue
                    bad = f'slot `{p}` unbound'
                    break
                if isinstance(a, ast.Constant):
                    continue
                if not (isinstance(a, ast.Attribute) and isinstance(a.value, ast.Name) and a.value.id == 'self'):
                    bad = f'slot `{p}` bound to `{ast.unparse(a)}`, not to a constructor-derived attribute'
                    break
                srcs = src.get(a.attr)
                if not srcs:
                    bad = f'slot `{p}` bound to self.{a.attr}, which __init__ never assigns'
                    break
                roles = set()
                for s in srcs:
                    if s.startswith('<'):
                        roles.add(a.attr)          # computed locally (is_real from dtype): role = attribute name
                    else:
                        roles.add(ROLE.get(s, s))
                if roles != {p}:
                    bad = (f'slot `{p}` of {fi.name} receives self.{a.attr} (constructed from `{", ".join(sorted(srcs))}`): '
                           f'argument-selection defect (wrong or swapped argument)')
                    break
            if bad:
                rep.violation('W1', construct, bad, m, call)
            else:
                rep.ok('W1', construct, f'{fi.name}({", ".join(f"{k}<-{ast.unparse(v)}" for k, v in b.args.items())})', m, call)
        # every return path goes through a functional result
        rets = [r for r in ast.walk(fwd.node) if isinstance(r, ast.Return)]
        for r in rets:
            if r.value is None or not isinstance(r.value, (ast.Name, ast.Call, ast.Subscript, ast.BinOp)):
                rep.violation('W1', ci.qual, f'forward() returns `{ast.unparse(r)}`', m, r)
            elif isinstance(r.value, ast.Name):
                nm = r.value.id
                asg = [s for s in ast.walk(fwd.node) if isinstance(s, ast.Assign) and isinstance(s.targets[0], ast.Name) and s.targets[0].id == nm]
                for s in asg:
                    core, post = _strip_post(s.value)
                    is_func = isinstance(core, ast.Call) and any(core is c for c, _ in calls)
                    is_post = isinstance(core, ast.Name) and core.id == nm and post
                    if not (is_func or is_post):
                        rep.violation('W1', ci.qual, f'forward() result is rebound by `{ast.unparse(s)[:70]}`, which is not a functional '
                                      f'call (+ enumerated post-op)', m, s)
    rep.count('W1.classes', ncls)
    rep.count('W1.arms', narms)
    return ncls, narms


def _norm_opt(o):
    return o.replace('-', '_').lower()


def w2(proj, rep):
    rep.rule('W2', RULES['W2'])
    n = 0
    for ci in manifold_classes(proj):
        m = ci.module
        init, fwd = ci.methods['__init__'], ci.methods['forward']
        opts = None
        for a in ast.walk(init.node):
            if isinstance(a, ast.Assert) and isinstance(a.test, ast.Compare) and isinstance(a.test.ops[0], ast.In) \
                    and isinstance(a.test.left, ast.Name) and a.test.left.id == 'method' and isinstance(a.test.comparators[0], (ast.Set, ast.Tuple, ast.List)):
                opts = {e.value for e in a.test.comparators[0].elts if isinstance(e, ast.Constant)}
                anode = a
        if opts is None:
            continue
        n += 1
        # dispatch chain in forward
        arms = {}
        else_body = None
        top = [s for s in fwd.node.body if isinstance(s, ast.If)]
        if not top:
            rep.undecided('W2', ci.qual, 'no dispatch chain in forward', m, fwd.node, text=f'{ci.qual} dispatch')
            continue
        node = top[0]
        while True:
            t = node.test
            if isinstance(t, ast.Compare) and isinstance(t.ops[0], ast.Eq) and isinstance(t.comparators[0], ast.Constant) \
                    and ast.unparse(t.left) == 'self.method':
                arms[t.comparators[0].value] = node.body
            else:
                rep.undecided('W2', ci.qual, f'dispatch test `{ast.unparse(t)}` not understood', m, node, text=f'{ci.qual} dispatch')
                break
            if len(node.orelse) == 1 and isinstance(node.orelse[0], ast.If):
                node = node.orelse[0]
            else:
                else_body = node.orelse
                break
        explicit = set(arms)
        rest = opts - explicit
        construct = f'{ci.qual}[method]'
        if explicit - opts:
            rep.violation('W2', construct, f'forward dispatches option(s) {sorted(explicit - opts)} that the constructor rejects', m, anode)
            continue
        if else_body:
            if len(rest) != 1:
                rep.violation('W2', construct, f'constructor accepts {sorted(opts)}; forward tests {sorted(explicit)} and sends '
                              f'{sorted(rest) or "nothing"} to one else-branch: option(s) silently share a map', m, anode)
                continue
            arms[next(iter(rest))] = else_body
        elif rest:
            rep.violation('W2', construct, f'option(s) {sorted(rest)} accepted by the constructor have no dispatch arm', m, anode)
            continue
        bad = None
        for opt, body in sorted(arms.items()):
            fn = None
            for s in body:
                for c in ast.walk(s):
                    if isinstance(c, ast.Call):
                        r = resolve_callee(proj, m, c)
                        if r.kind == 'func' and r.node.name.startswith('to_'):
                            fn = r.node.name
            if fn is None:
                bad = f'arm {opt!r} calls no functional'
                break
            tail = _norm_opt(opt)
            tail = tail.replace('so_', 'special_orthogonal_')
            if not fn.lower().endswith('_' + tail):
                bad = f'option {opt!r} is dispatched to `{fn}`, whose name does not carry the option'
                break
        if bad:
            rep.violation('W2', construct, bad, m, top[0])
        else:
            rep.ok('W2', construct, f'options {sorted(opts)} each reach the functional of that name', m, anode)
    rep.count('W2.classes_with_method', n)
    return n


# ------------------------------------------------------------------------------------------------ W3 / W4
F64 = Atom('torch.float64')
C128 = Atom('torch.complex128')


def ctor_length(ci, method, is_real, extra):
    """Symbolic theta length allocated by __init__ for a configuration; UNK if not derivable."""
    init = ci.methods['__init__']
    env = {}
    for p in init.params[1:]:
        if p in init.defaults:
            d = init.defaults[p]
            env[p] = d.value if isinstance(d, ast.Constant) else UNK
        else:
            env[p] = UNK
    env['dim'] = Poly.var('dim')
    if 'rank' in init.params:
        env['rank'] = Poly.var('rank')
    if 'method' in init.params:
        env['method'] = method
    env['dtype'] = F64 if is_real else C128
    env['batch_size'] = None
    env.update(extra)
    found = []

    def on_call(v, se):
        for c in ast.walk(v):
            if isinstance(c, ast.Call) and ast.unparse(c.func).endswith('_hf_para'):
                last = c.args[-1]
                if isinstance(last, ast.Starred):
                    val = se.ev(last.value)
                    if isinstance(val, tuple) and val:
                        found.append(val[-1])
                    else:
                        found.append(UNK)
                else:
                    found.append(se.ev(last))
    se = SymEval(env)
    se.run(init.node.body, on_call)
    return found[-1] if found else UNK


def func_lengths(proj, fi, extra):
    """Accepted theta lengths of a functional: {'real': Poly, 'complex': Poly} from `theta.shape[-1]==E` tests."""
    env = {'dim': Poly.var('dim'), 'rank': Poly.var('rank')}
    for p in fi.params:
        if p in fi.defaults and p not in env:
            d = fi.defaults[p]
            env[p] = d.value if isinstance(d, ast.Constant) else UNK
    env.update(extra)
    se = SymEval(env)
    out = {}
    tests = []

    def is_len(e):
        t = ast.unparse(e)
        return t in ('theta.shape[-1]', 'shape[-1]', 'theta.shape[1]')

    def visit(body):
        for st in body:
            if isinstance(st, ast.Assign) and len(st.targets) == 1 and isinstance(st.targets[0], ast.Name):
                nm = st.targets[0].id
                if nm in ('theta', 'shape'):
                    continue
                if nm == 'rank' and 'rank' in env and isinstance(env['rank'], Poly):
                    continue
                se.env[nm] = se.ev(st.value)
            elif isinstance(st, ast.If):
                t = st.test
                if isinstance(t, ast.Compare) and isinstance(t.ops[0], ast.Eq) and is_len(t.left):
                    kinds = {}
                    for arm, body in (('then', st.body), ('else', st.orelse)):
                        for s in ast.walk(ast.Module(body=body, type_ignores=[])):
                            if isinstance(s, ast.Assign) and isinstance(s.targets[0], ast.Name) and s.targets[0].id == 'is_real' \
                                    and isinstance(s.value, ast.Constant):
                                kinds[arm] = 'real' if s.value.value else 'complex'
                            if isinstance(s, ast.Call) and ast.unparse(s.func).endswith('_real'):
                                kinds.setdefault(arm, 'real')
                            if isinstance(s, ast.Call) and ast.unparse(s.func).endswith('_complex'):
                                kinds.setdefault(arm, 'complex')
                    # comment-only arms (to_stiefel_qr): then-arm of the first length test is the real one
                    k_then = kinds.get('then', 'real')
                    out[k_then] = se.ev(t.comparators[0])
                    other = 'complex' if k_then == 'real' else 'real'
                    for s in st.orelse:
                        if isinstance(s, ast.Assert):
                            a = s.test
                            if isinstance(a, ast.Compare) and isinstance(a.ops[0], ast.Eq) and is_len(a.left):
                                out[other] = se.ev(a.comparators[0])
                    if other not in out:
                        visit(st.orelse)
                    continue
                tv = se.ev(t)
                if tv is True:
                    visit(st.body)
                elif tv is False:
                    visit(st.orelse)
            elif isinstance(st, ast.Assert):
                a = st.test
                # assert (len==N0) or (len==(A if flag else B))
                if isinstance(a, ast.BoolOp) and isinstance(a.op, ast.Or):
                    vals = []
                    for v in a.values:
                        if isinstance(v, ast.Compare) and isinstance(v.ops[0], ast.Eq) and is_len(v.left):
                            vals.append(se.ev(v.comparators[0]))
                    if len(vals) == 2:
                        out.setdefault('real', vals[0])
                        out.setdefault('complex', vals[1])
    visit(fi.node.body)
    return out


MANIFOLD_DIM = {
    # class name -> (real dim, complex dim) of the manifold in terms of dim d, rank r
    'Sphere': (lambda d, r: d - 1, lambda d, r: 2 * d - 1),
    'Trace1PSD': (lambda d, r: d * r - Fraction(r * (r - 1), 2) - 1, lambda d, r: 2 * d * r - r * r - 1),
    'Stiefel': (lambda d, r: d * r - Fraction(r * (r + 1), 2), lambda d, r: 2 * d * r - r * r),
    'SpecialOrthogonal': (lambda d, r: Fraction(d * (d - 1), 2), lambda d, r: d * d - 1),
    'DiscreteProbability': (lambda d, r: d - 1, None),
    'Ball': (lambda d, r: d, lambda d, r: 2 * d),
    'SymmetricMatrix': (lambda d, r: Fraction(d * (d + 1), 2), lambda d, r: d * d),
}
EXACT = {('Sphere', 'coordinate', True), ('Sphere', 'coordinate', False),
         ('Stiefel', 'choleskyL', True), ('Stiefel', 'euler', True), ('Stiefel', 'euler+phase', False),
         ('SpecialOrthogonal', 'exp', True), ('SpecialOrthogonal', 'exp', False),
         ('SpecialOrthogonal', 'cayley', True), ('SpecialOrthogonal', 'cayley', False),
         ('Ball', None, True), ('Ball', None, False), ('SymmetricMatrix', None, True), ('SymmetricMatrix', None, False)}
# charts that parametrise the manifold modulo a documented gauge (column phases): compared with their own documented count
GAUGE = {('Stiefel', 'choleskyL', False): lambda d, r: 2 * d * r - r * (r + 1),
         ('Stiefel', 'euler', False): lambda d, r: 2 * d * r - r * (r + 1)}


def w3(proj, rep):
    rep.rule('W3', RULES['W3'])
    rep.rule('W4', RULES['W4'])
    n3 = n4 = 0
    for ci in manifold_classes(proj):
        m = ci.module
        init, fwd = ci.methods['__init__'], ci.methods['forward']
        cname = ci.node.name
        opts = [None]
        for a in ast.walk(init.node):
            if isinstance(a, ast.Assert) and isinstance(a.test, ast.Compare) and isinstance(a.test.ops[0], ast.In) \
                    and isinstance(a.test.left, ast.Name) and a.test.left.id == 'method':
                opts = sorted(e.value for e in a.test.comparators[0].elts if isinstance(e, ast.Constant))
        # option -> functional
        disp = {}
        for c in ast.walk(fwd.node):
            if isinstance(c, ast.Call):
                r = resolve_callee(proj, m, c)
                if r.kind == 'func' and r.node.name.startswith('to_'):
                    # find the governing option
                    p = getattr(c, '_parent', None)
                    opt = None
                    while p is not None and p is not fwd.node:
                        if isinstance(p, ast.If):
                            t = p.test
                            inbody = any(c in list(ast.walk(s)) for s in p.body)
                            if isinstance(t, ast.Compare) and ast.unparse(t.left) == 'self.method' and isinstance(t.comparators[0], ast.Constant):
                                if inbody:
                                    opt = t.comparators[0].value
                                    break
                        p = getattr(p, '_parent', None)
                    disp[opt] = (r.node, c)
                elif isinstance(c.func, ast.Name):
                    # local alias: hf = A if self.method=='x' else B ; hf(...)
                    for s2 in ast.walk(fwd.node):
                        if isinstance(s2, ast.Assign) and len(s2.targets) == 1 and isinstance(s2.targets[0], ast.Name) \
                                and s2.targets[0].id == c.func.id and isinstance(s2.value, ast.IfExp):
                            t = s2.value.test
                            if isinstance(t, ast.Compare) and ast.unparse(t.left) == 'self.method' and isinstance(t.comparators[0], ast.Constant):
                                ra = proj.resolve_expr(m, s2.value.body)
                                rb = proj.resolve_expr(m, s2.value.orelse)
                                if ra.kind == 'func':
                                    disp[t.comparators[0].value] = (ra.node, c)
                                if rb.kind == 'func':
                                    disp[None] = (rb.node, c)
        if len(opts) > 1:
            rest = [o for o in opts if o not in disp]
            if None in disp and len(rest) == 1:
                disp[rest[0]] = disp.pop(None)
        dtype_real = any('torch.complex' in ast.unparse(a) for a in ast.walk(init.node) if isinstance(a, ast.Assert)) is False
        fields = [True] if cname in ('DiscreteProbability', 'PositiveReal', 'OpenInterval') else [True, False]
        for opt in opts:
            if opt not in disp:
                continue
            fi, call = disp[opt]
            extras = [{}]
            if 'euler_with_phase' in init.params and opt == 'euler':
                extras = [{'euler_with_phase': False, 'with_phase': False}, {'euler_with_phase': True, 'with_phase': True}]
            if 'is_trace0' in init.params:
                extras = [{'is_trace0': False}, {'is_trace0': True}]
            for is_real, extra in itertools.product(fields, extras):
                cl = ctor_length(ci, opt, is_real, extra)
                fl = func_lengths(proj, fi, extra)
                tag = f'{cname}[{opt or "-"},{"real" if is_real else "complex"}' + (''.join(f',{k}={v}' for k, v in extra.items() if k in init.params)) + ']'
                if cl is UNK:
                    rep.undecided('W3', tag, 'constructor length not derivable', m, init.node, text=tag)
                    continue
                if fl:
                    n3 += 1
                    want = fl.get('real' if is_real else 'complex', UNK)
                    if want is UNK:
                        rep.undecided('W3', tag, f'functional {fi.name} length for this field not derivable', m, fi.node, text=tag)
                    elif Poly._coerce(cl) == Poly._coerce(want):
                        rep.ok('W3', tag, f'constructor allocates {cl} = length accepted by {fi.name}', m, init.node, text=tag)
                    else:
                        other = fl.get('complex' if is_real else 'real', UNK)
                        extra_msg = ''
                        if other is not UNK and Poly._coerce(cl) == Poly._coerce(other):
                            extra_msg = ' - it equals the length of the OTHER field, so forward() silently takes the wrong real/complex branch'
                        rep.violation('W3', tag, f'constructor allocates {cl} parameters but {fi.name} accepts {want} for this field{extra_msg}',
                                      m, init.node, text=tag)
                    if 'real' in fl and 'complex' in fl and fl['real'] is not UNK and fl['complex'] is not UNK and is_real:
                        d = Poly._coerce(fl['real']) - Poly._coerce(fl['complex'])
                        if not d.t:
                            rep.violation('W3', f'{fi.name}[field ambiguity]', 'real and complex accepted lengths are the same polynomial', m, fi.node, text=f'{fi.name} ambiguity')
                # W4 against the manifold dimension
                dims = MANIFOLD_DIM.get(cname)
                if dims is None or (not is_real and dims[1] is None):
                    continue
                if cname == 'SymmetricMatrix' and extra.get('is_trace0'):
                    target = (lambda d, r, f=dims[0 if is_real else 1]: f(d, r) - 1)
                else:
                    target = dims[0 if is_real else 1]
                key = (cname, (opt + '+phase') if extra.get('euler_with_phase') else opt, is_real)
                if cname in ('Ball', 'SymmetricMatrix'):
                    key = (cname, None, is_real)
                gauge = GAUGE.get(key)
                exact = key in EXACT
                n4 += 1
                worst = None
                pcl = Poly._coerce(cl)
                for d in range(2, 13):
                    for r in (range(1, d + 1) if 'rank' in pcl.vars() or cname in ('Trace1PSD', 'Stiefel') else [1]):
                        val = pcl.eval({'dim': d, 'rank': r})
                        tgt = Fraction((gauge or target)(d, r))
                        if cname == 'Stiefel' and opt in ('so-exp', 'so-cayley'):
                            # columns of an SO(d)/SU(d) element: at rank==dim the image is SO(d)/SU(d) itself (that is what
                            # the option is called), so the bound is min(dim St(d,r), dim SO/SU(d))
                            so = Fraction(d * (d - 1), 2) if is_real else d * d - 1
                            ok = val >= min(tgt, so)
                        elif exact or gauge:
                            ok = val == tgt
                        else:
                            ok = val >= tgt
                        if not ok and worst is None:
                            worst = (d, r, val, tgt)
                if worst is None:
                    rep.ok('W4', tag, f'{cl} {"==" if (exact or gauge) else ">="} manifold dimension on 2<=dim<=12, 1<=rank<=dim', m, init.node, text=tag + ' W4')
                else:
                    d, r, val, tgt = worst
                    rep.violation('W4', tag, f'parameter count {cl} = {val} at dim={d}, rank={r} but the manifold '
                                  f'{"has dimension" if not gauge else "chart needs"} {tgt}: '
                                  f'{"the map cannot be onto" if val < tgt else "the chart is not minimal as documented"}', m, init.node, text=tag + ' W4')
    rep.count('W3.configurations', n3)
    rep.count('W4.configurations', n4)
    return n3, n4


# ------------------------------------------------------------------------------------------------ RB1
RULES['RB1'] = ('RB1: the ball trivialization is a radial map ret = theta * h(r), r = ||theta||, with h a rational function of r; its image '
                'lies in the open unit ball iff r*h(r) < 1 for all r >= 0, decided exactly on the polynomial den(r) - r*num(r).')


class _Rat:
    """num/den with univariate Poly in 'r'."""
    def __init__(self, num, den=None):
        self.num = Poly._coerce(num)
        self.den = Poly._coerce(den) if den is not None else Poly.const(1)

    def __add__(self, o):
        return _Rat(self.num * o.den + o.num * self.den, self.den * o.den)

    def __sub__(self, o):
        return _Rat(self.num * o.den - o.num * self.den, self.den * o.den)

    def __mul__(self, o):
        return _Rat(self.num * o.num, self.den * o.den)

    def __truediv__(self, o):
        return _Rat(self.num * o.den, self.den * o.num)


def _rat_eval(e, rname):
    if isinstance(e, ast.Name) and e.id == rname:
        return _Rat(Poly.var('r'))
    if isinstance(e, ast.Constant) and isinstance(e.value, (int, float)) and float(e.value) == int(e.value):
        return _Rat(Poly.const(int(e.value)))
    if isinstance(e, ast.BinOp):
        a, b = _rat_eval(e.left, rname), _rat_eval(e.right, rname)
        if a is None or b is None:
            return None
        if isinstance(e.op, ast.Add):
            return a + b
        if isinstance(e.op, ast.Sub):
            return a - b
        if isinstance(e.op, ast.Mult):
            return a * b
        if isinstance(e.op, ast.Div):
            return a / b
        if isinstance(e.op, ast.Pow) and isinstance(e.right, ast.Constant) and isinstance(e.right.value, int) and 0 <= e.right.value <= 4:
            r = _Rat(Poly.const(1))
            for _ in range(e.right.value):
                r = r * a
            return r
    return None


def _coeffs(p):
    """ascending coefficient list of a univariate Poly in r (floats)."""
    deg = max([sum(ex for n, ex in k) for k in p.t] + [0])
    out = [0.0] * (deg + 1)
    for k, v in p.t.items():
        d = sum(ex for n, ex in k)
        out[d] += float(v)
    return out


def rb1(proj, rep):
    import numpy as np
    rep.rule('RB1', RULES['RB1'])
    fi = proj.func('numqi.manifold._internal.to_ball')
    m = fi.module
    rep.touch(m)
    n = 0
    # package functions that divide their first parameter by its bare norm (0/0 at the origin)
    partial = set()
    for g in proj.iter_functions():
        if g.module is not m or not g.all_params:
            continue
        p0 = g.all_params[0]
        for d in ast.walk(g.node):
            if isinstance(d, ast.BinOp) and isinstance(d.op, ast.Div) and isinstance(d.left, ast.Name) and d.left.id == p0 and isinstance(d.right, ast.Call) \
                    and ast.unparse(d.right.func).endswith('linalg.norm') and d.right.args and ast.unparse(d.right.args[0]) == p0:
                partial.add(g.node.name)
    for st in ast.walk(fi.node):
        if not (isinstance(st, ast.Assign) and isinstance(st.targets[0], ast.Name) and st.targets[0].id == 'ret'
                and isinstance(st.value, ast.BinOp) and isinstance(st.value.op, (ast.Mult, ast.Div))):
            continue
        v = st.value
        hit = next((c for c in ast.walk(v) if isinstance(c, ast.Call) and isinstance(c.func, ast.Name) and c.func.id in partial and c.args and ast.unparse(c.args[0]) == 'theta'), None)
        if hit is not None:
            n += 1
            rep.violation('RB1', f'{fi.qual}[line {st.lineno - fi.node.lineno}]', f'`{ast.unparse(st)[:80]}`: {hit.func.id} divides theta by its bare norm, so the ball map is 0/0 (nan) at '
                          f'theta = 0, the centre of the ball; the map must be total on R^n', m, st)
            continue
        if not any(isinstance(x, ast.Name) and x.id == 'theta' for x in ast.walk(v)):
            continue
        # find the norm variable: a name assigned from (torch.)linalg.norm(theta, ...)
        rname = None
        for s2 in ast.walk(fi.node):
            if isinstance(s2, ast.Assign) and isinstance(s2.targets[0], ast.Name) and isinstance(s2.value, ast.Call) \
                    and ast.unparse(s2.value.func).endswith('linalg.norm') and s2.value.args and ast.unparse(s2.value.args[0]) == 'theta' \
                    and s2.lineno < st.lineno and (rname is None or s2.lineno > rline):
                rname, rline = s2.targets[0].id, s2.lineno
        if rname is None:
            continue
        n += 1
        construct = f'{fi.qual}[line {st.lineno - fi.node.lineno}]'
        # ret = theta * H  or theta / H
        if isinstance(v.left, ast.Name) and v.left.id == 'theta':
            h = _rat_eval(v.right, rname)
            if h is not None and isinstance(v.op, ast.Div):
                h = _Rat(Poly.const(1)) / h
        elif isinstance(v.right, ast.Name) and v.right.id == 'theta' and isinstance(v.op, ast.Mult):
            h = _rat_eval(v.left, rname)
        else:
            h = None
        if h is None:
            rep.undecided('RB1', construct, f'`{ast.unparse(v)}` is not theta times a rational function of the norm', m, st)
            continue
        g = _Rat(Poly.var('r')) * h          # norm of the image
        D = g.den - g.num                      # need D(r) > 0 for r >= 0 (den > 0 there)
        cd = _coeffs(g.den)
        cD = _coeffs(D)
        den_pos = all(c >= 0 for c in cd) and cd[0] > 0
        roots = [z.real for z in np.roots(cD[::-1]) if abs(z.imag) < 1e-9 and z.real >= 0] if len(cD) > 1 else []
        lead = next((c for c in reversed(cD) if c != 0), 0.0)
        if not den_pos:
            rep.undecided('RB1', construct, f'denominator {g.den} is not manifestly positive', m, st)
        elif lead > 0 and cD[0] > 0 and not roots:
            rep.ok('RB1', construct, f'||ret|| = ({g.num})/({g.den}) < 1 for every r >= 0 (den - num = {D} > 0)', m, st)
        else:
            w = min(roots) if roots else None
            rep.violation('RB1', construct, f'`{ast.unparse(st)}` has norm ({g.num})/({g.den}) with r = ||theta||; den - num = {D} is not positive on '
                          f'r >= 0' + (f' (first zero at r = {w:.4g})' if w is not None else '') + ': the image leaves the unit ball', m, st)
    return n


# ------------------------------------------------------------------------------------------------ W5
RULE_W5 = ('W5: an orthonormalisation `ret = M @ F` with F computed from a factorisation (matrix square root / eigh / Cholesky) is isometric only when the '
           'factorised matrix is exactly the Gram matrix M^dagger M of the same M: the argument of the factorisation is `M.transpose(..).conj() @ M` '
           'with no additive term (a regularisation eps*I gives X^dagger X = I - eps/(sigma^2+eps), not the identity).')

_FACTOR = ('PSDMatrixSqrtm.apply', 'linalg.eigh', 'linalg.cholesky', 'linalg.cholesky_ex', 'sqrtm', 'linalg.svd')


def w5(proj, rep, funcs):
    rep.rule('W5', RULE_W5)
    n = 0
    for q in funcs:
        fi = proj.func(q)
        m = fi.module
        rep.touch(m)
        for st in ast.walk(fi.node):
            if not (isinstance(st, ast.Assign) and isinstance(st.targets[0], ast.Name) and st.targets[0].id == 'ret'
                    and isinstance(st.value, ast.BinOp) and isinstance(st.value.op, ast.MatMult) and isinstance(st.value.left, ast.Name)
                    and isinstance(st.value.right, ast.Name)):
                continue
            M, F = st.value.left.id, st.value.right.id
            blk = st._parent
            body = blk.body if st in getattr(blk, 'body', []) else getattr(blk, 'orelse', [])
            idx = body.index(st)
            # definitions of the same block before `ret = M @ F`, in order; names are resolved by the LAST definition before the use
            defs = []
            for k2, s2 in enumerate(body[:idx]):
                if isinstance(s2, ast.Assign):
                    for t in (s2.targets[0].elts if isinstance(s2.targets[0], ast.Tuple) else [s2.targets[0]]):
                        if isinstance(t, ast.Name):
                            defs.append((k2, t.id, s2.value))

            def lookup(name, before):
                c2 = [(k2, v) for k2, nm, v in defs if nm == name and k2 < before]
                return c2[-1] if c2 else (None, None)
            local = {nm: v for _, nm, v in defs}
            fact = None
            fact_pos = None
            work = [lookup(F, idx)]
            seen = set()
            while work and fact is None:
                pos, e = work.pop()
                if e is None or id(e) in seen:
                    continue
                seen.add(id(e))
                for c in ast.walk(e):
                    if isinstance(c, ast.Call) and ast.unparse(c.func).endswith(_FACTOR) and c.args:
                        fact, fact_pos = c, pos
                        break
                    if isinstance(c, ast.Name) and c.id != M:
                        work.append(lookup(c.id, pos))
            n += 1
            backend = 'torch' if 'torch' in ast.unparse(local.get(F) or st) else 'numpy'
            construct = f'{q}[{backend}]'
            if fact is None:
                rep.undecided('W5', construct, f'factorisation feeding `{F}` not found', m, st)
                n -= 1
                continue
            arg = fact.args[0]
            if isinstance(arg, ast.Name):
                _, v2 = lookup(arg.id, fact_pos)
                if v2 is not None:
                    arg = v2
            t = ast.unparse(arg).replace(' ', '')
            gram_ok = isinstance(arg, ast.BinOp) and isinstance(arg.op, ast.MatMult) and ast.unparse(arg.right) == M and 'conj' in ast.unparse(arg.left) \
                and 'transpose' in ast.unparse(arg.left) and ast.unparse(arg.left).startswith(M + '.')
            floor = None
            for k2, nm, v in defs:
                if isinstance(v, ast.Call) and ast.unparse(v.func).split('.')[-1] in ('maximum', 'clip', 'clamp', 'fmax') and k2 > (fact_pos or -1) and k2 < idx:
                    consts = [a for a in v.args if isinstance(a, ast.Constant) and isinstance(a.value, (int, float)) and a.value > 0]
                    if consts and any(isinstance(a, ast.Name) and a.id == nm for a in v.args):
                        floor = (nm, v)
            if gram_ok and floor is not None:
                rep.violation('W5', construct, f'`{floor[0]} = {ast.unparse(floor[1])}` puts an absolute floor on the spectrum of the Gram matrix before it is '
                              f'inverted: for small {M} (singular values below the floor) `{M} @ {F}` is no longer an isometry and the map is no longer invariant '
                              f'under rescaling of theta', m, st)
            elif gram_ok:
                rep.ok('W5', construct, f'`{ast.unparse(fact)[:70]}` factorises exactly {M}^dagger {M}', m, st)
            elif isinstance(arg, ast.BinOp) and isinstance(arg.op, (ast.Add, ast.Sub)):
                rep.violation('W5', construct, f'the factorised matrix is `{t[:90]}`: a term is added to the Gram matrix {M}^dagger {M}, so `{M} @ {F}` is no longer an '
                              f'isometry (X^dagger X = I - eps/(sigma^2+eps))', m, st)
            else:
                rep.undecided('W5', construct, f'factorised matrix `{t[:60]}` is not recognisably {M}^dagger {M}', m, st)
                n -= 1
    rep.count('W5.orthonormalisations', n)
    return n


# ------------------------------------------------------------------------------------------------ W6
RULE_W6 = ('W6: a batched einsum with literal leg lists is its unbatched sibling with ONE extra leg: the batch leg is prepended to every operand and to the '
           'output, all other legs are identical (up to renaming). A differing permutation of the remaining output legs returns a different tensor for '
           'the batch than for each sample.')


def _legs(call):
    """[(operand text, legs)...], output legs  for einsum(A, [..], B, [..], [..]) with literal integer leg lists"""
    args = call.args
    ops = []
    i = 0
    while i + 1 < len(args) and isinstance(args[i + 1], ast.List):
        try:
            legs = [e.value for e in args[i + 1].elts]
        except AttributeError:
            return None
        ops.append((ast.unparse(args[i]), legs))
        i += 2
    if i < len(args) and isinstance(args[i], ast.List):
        try:
            out = [e.value for e in args[i].elts]
        except AttributeError:
            return None
        return ops, out
    return None


def w6(proj, rep, funcs):
    rep.rule('W6', RULE_W6)
    n = 0
    for q in funcs:
        fi = proj.func(q)
        m = fi.module
        rep.touch(m)
        eins = [c for c in ast.walk(fi.node) if isinstance(c, ast.Call) and ast.unparse(c.func).endswith('einsum') and _legs(c)]
        by_text = {}
        for c in eins:
            ops, out = _legs(c)
            by_text.setdefault(tuple(o for o, _ in ops), []).append((c, ops, out))
        for key, lst in by_text.items():
            if len(lst) != 2:
                continue
            (c1, o1, out1), (c2, o2, out2) = sorted(lst, key=lambda t: len(t[2]))
            if len(out2) != len(out1) + 1:
                continue
            n += 1
            b = out2[0]
            okb = all(legs and legs[0] == b for _, legs in o2) and b not in [x for _, legs in o1 for x in legs]
            if not okb:
                rep.undecided('W6', q, f'batch leg of `{ast.unparse(c2)[:70]}` not identified', m, c2)
                n -= 1
                continue
            # rename legs of the batched call (without b) onto the unbatched one operand by operand
            ren = {}
            good = True
            for (_, l1), (_, l2) in zip(o1, o2):
                l2 = l2[1:]
                if len(l1) != len(l2):
                    good = False
                    break
                for a, bb in zip(l1, l2):
                    if ren.setdefault(bb, a) != a:
                        good = False
            if not good:
                rep.violation('W6', q, f'`{ast.unparse(c2)[:90]}`: operand legs differ from the unbatched sibling `{ast.unparse(c1)[:70]}` by more than the batch leg', m, c2)
            elif [ren.get(x) for x in out2[1:]] == out1:
                rep.ok('W6', q, 'batched einsum = unbatched einsum + leading batch leg', m, c2)
            else:
                rep.violation('W6', q, f'`{ast.unparse(c2)[:100]}`: after removing the batch leg the output legs are {[ren.get(x) for x in out2[1:]]}, the unbatched '
                              f'sibling returns {out1}: the batched result is a transposed tensor (for the Choi operator: its partial transpose, not PSD)', m, c2)
    rep.count('W6.batched_einsum_pairs', n)
    return n


# ------------------------------------------------------------------------------------------------ W7
RULE_W7 = ('W7: on every branch path of a functional map the column slices taken from the parameter array `theta[:, a:b]` (before theta is re-bound) '
           'partition the parameter vector: no column is read twice and none is skipped. An overlap makes two roles share parameters and leaves '
           'others dead - the map stays on the manifold, but the chart loses rank (not locally onto).')


def _theta_slices(e, pname):
    out = []
    for x in ast.walk(e):
        if isinstance(x, ast.Subscript) and isinstance(x.value, ast.Name) and x.value.id == pname and isinstance(x.slice, ast.Tuple) and len(x.slice.elts) >= 2 \
                and isinstance(x.slice.elts[0], ast.Slice) and x.slice.elts[0].lower is None and x.slice.elts[0].upper is None and isinstance(x.slice.elts[1], ast.Slice):
            s1 = x.slice.elts[1]
            if s1.step is None and (s1.lower is not None or s1.upper is not None):
                out.append((s1.lower, s1.upper, x))
    return out


def _paths(body, pname, acc, alive, out, depth=0, decided=None):
    """enumerate branch paths that are consistent in their branch conditions; acc = slices collected so far on this path"""
    decided = dict(decided or {})
    if depth > 14:
        return
    for i, st in enumerate(body):
        if isinstance(st, ast.If):
            rest = body[i + 1:]
            test = st.test
            neg = False
            while isinstance(test, ast.UnaryOp) and isinstance(test.op, ast.Not):
                neg, test = not neg, test.operand
            key = ast.unparse(test).replace(' ', '')
            for val, arm in ((True, st.body), (False, st.orelse)):
                truth = val != neg            # truth value of `key` on this arm
                if key in decided and decided[key] != truth:
                    continue                  # infeasible: contradicts an earlier decision on the same condition
                d2 = dict(decided)
                d2[key] = truth
                _paths(list(arm) + rest, pname, list(acc), alive, out, depth + 1, d2)
            return
        if isinstance(st, (ast.For, ast.While)):
            continue        # slices taken in loops / comprehensions over cumulative bounds are partitions by construction: not typed here
        if not alive:
            continue
        if isinstance(st, (ast.Assign, ast.AugAssign, ast.Expr, ast.Return)):
            val = st.value
            if val is not None and not any(isinstance(x, (ast.ListComp, ast.GeneratorExp)) for x in ast.walk(val)):
                acc = acc + _theta_slices(val, pname)
            if isinstance(st, ast.Assign) and any(isinstance(t, ast.Name) and t.id == pname for t in st.targets):
                t = ast.unparse(st.value).replace(' ', '')
                if not (t.startswith(pname + '.reshape(') or t.startswith(pname + '.view(')):
                    alive = False
    out.append(acc)


def w7(proj, rep, modules):
    rep.rule('W7', RULE_W7)
    n = 0
    for mq in modules:
        m = proj.mod(mq)
        rep.touch(m)
        for fi in [f for f in proj.funcs.values() if f.module is m and f.cls is None and 'theta' in f.all_params]:
            paths = []
            _paths(fi.node.body, 'theta', [], True, paths)
            seen = set()
            bad_reported = False
            for acc in paths:
                if len(acc) < 2:
                    continue
                key = tuple(sorted((ast.unparse(a) if a is not None else '', ast.unparse(b) if b is not None else '') for a, b, _ in acc))
                if key in seen:
                    continue
                seen.add(key)
                names = sorted({x.id for a, b, _ in acc for e in (a, b) if e is not None for x in ast.walk(e) if isinstance(x, ast.Name)})
                verdicts = []
                for base in (3, 4):
                    env = {nm: base + 2 * k for k, nm in enumerate(names)}
                    L = 10 ** 6
                    try:
                        iv = []
                        for a, b, _ in acc:
                            lo = 0 if a is None else eval(compile(ast.Expression(a), '<w7>', 'eval'), {'__builtins__': {}}, dict(env))
                            hi = L if b is None else eval(compile(ast.Expression(b), '<w7>', 'eval'), {'__builtins__': {}}, dict(env))
                            lo = lo + L if lo < 0 else lo
                            hi = hi + L if hi < 0 else hi
                            iv.append((lo, hi))
                    except Exception:
                        verdicts.append(None)
                        continue
                    iv = sorted(set(iv))
                    # no open-ended slice on this path: the vector ends where the last slice ends (its length is W3's business)
                    end = L if any(h == L or h > L // 2 for _, h in iv) else iv[-1][1]
                    ok = iv[0][0] == 0 and iv[-1][1] == end and all(iv[k][1] == iv[k + 1][0] for k in range(len(iv) - 1))
                    verdicts.append(ok)
                if None in verdicts:
                    continue
                n += 1
                txt = ', '.join(f'[{ast.unparse(a) if a is not None else ""}:{ast.unparse(b) if b is not None else ""}]' for a, b, _ in acc)
                if all(verdicts):
                    rep.ok('W7', fi.qual, f'column slices {txt} partition theta', m, acc[0][2])
                elif not any(verdicts) and not bad_reported:
                    bad_reported = True
                    rep.violation('W7', fi.qual, f'on one branch path theta is read through the column slices {txt}: they do not partition the parameter vector (a block is '
                                  f'read twice and / or a block is never read), so some parameters are dead and the chart is rank-deficient', m, acc[-1][2])
                elif not all(verdicts) and any(verdicts):
                    n -= 1
    rep.count('W7.slice_sets', n)
    return n
