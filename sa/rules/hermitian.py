"""HM1 — dagger discipline of self-adjoint compositions in the random generators (C10 validity clause: rand_hermitian_matrix /
rand_density_matrix / ... return Hermitian objects).

A composition of an array V with its own transpose - `V @ V.T`, `V + V.T`, `(V*lam) @ V.T` - is Hermitian for complex V only when
the transposed factor is also conjugated.  The rule decides, per site, whether V can be complex:
  * the site sits in the false branch of the function's complex flag (`if tag_complex: ... else: HERE`, `a if tag_complex else HERE`)  -> real
  * every reaching definition of V is a call with `tag_complex=False`, or a draw from the generator without a `1j` term            -> real
  * a reaching definition passes the function's own flag on (`tag_complex=tag_complex`), has a non-False literal flag, or adds `1j*` -> complex
Complex-capable and not conjugated: violation.  Anything else: undecided (never reported).
"""
import ast
from ..dataflow import reaching_defs

RULE_HM1 = ('HM1: where an array V that can be complex (its producer receives the function\'s tag_complex flag, or it is built with a 1j term) '
            'is composed with its own transpose (V @ V.T, V + V.T, V - V.T, (V*lam) @ V.T), the transposed factor is conjugated; a bare .T is allowed '
            'only in the real branch of the flag.')

FLAGS = ('tag_complex',)


def _base_of(e):
    """name V of `V`, `V.T`, `V.T.conj()`, `V.conj().T`, `(V*x)`, `V.reshape(..)`; plus (has_T, has_conj)"""
    t = c = False
    cur = e
    for _ in range(6):
        if isinstance(cur, ast.Attribute) and cur.attr in ('T', 'mT'):
            t = True
            cur = cur.value
        elif isinstance(cur, ast.Attribute) and cur.attr in ('H', 'mH'):
            t = c = True
            cur = cur.value
        elif isinstance(cur, ast.Call) and isinstance(cur.func, ast.Attribute) and cur.func.attr in ('conj', 'conjugate') and not cur.args:
            c = True
            cur = cur.func.value
        elif isinstance(cur, ast.Call) and isinstance(cur.func, ast.Attribute) and cur.func.attr == 'transpose':
            t = True
            cur = cur.func.value
        elif isinstance(cur, ast.Call) and isinstance(cur.func, ast.Attribute) and cur.func.attr in ('conj', 'conjugate') and cur.args:
            c = True
            cur = cur.args[0]
        elif isinstance(cur, ast.BinOp) and isinstance(cur.op, ast.Mult):
            cur = cur.left if not isinstance(cur.left, ast.Constant) else cur.right
        else:
            break
    return (cur.id if isinstance(cur, ast.Name) else None), t, c


def _in_real_branch(node, fn):
    cur = node
    while cur is not fn and hasattr(cur, '_parent'):
        par = cur._parent
        if isinstance(par, ast.If) and isinstance(par.test, ast.Name) and par.test.id in FLAGS and cur in par.orelse:
            return True
        if isinstance(par, ast.IfExp) and isinstance(par.test, ast.Name) and par.test.id in FLAGS and cur is par.orelse:
            return True
        if isinstance(par, ast.If) and isinstance(par.test, ast.UnaryOp) and isinstance(par.test.op, ast.Not) \
                and isinstance(par.test.operand, ast.Name) and par.test.operand.id in FLAGS and cur in par.body:
            return True
        cur = par
    return False


def _in_complex_branch(node, fn):
    cur = node
    while cur is not fn and hasattr(cur, '_parent'):
        par = cur._parent
        if isinstance(par, ast.If) and isinstance(par.test, ast.Name) and par.test.id in FLAGS and cur in par.body:
            return True
        cur = par
    return False


def _func_complex(proj, fi, depth=2):
    """the package function always returns complex data: complex marker in its body (1j, .view(complex128)), its flag (if any) defaults
    to True; or it forwards the value of such a function"""
    from ..callgraph import resolve_callee
    flag = next((p for p in fi.all_params if p in FLAGS), None)
    src = ast.unparse(fi.node)
    if flag is not None:
        d = fi.defaults.get(flag)
        if not (isinstance(d, ast.Constant) and d.value is True):
            return False
    if '1j' in src or 'view(np.complex' in src:
        return True
    if depth > 0:
        for c in ast.walk(fi.node):
            if isinstance(c, ast.Call):
                r = resolve_callee(proj, fi.module, c)
                if r.kind == 'func' and r.node is not fi and not any(k.arg in FLAGS for k in c.keywords) and _func_complex(proj, r.node, depth - 1):
                    return True
    return False


def _callee_complexness(proj, m, v):
    """complexness of the value of a call expression through the resolved package callee"""
    from ..callgraph import resolve_callee
    for c in ast.walk(v):
        if isinstance(c, ast.Call):
            r = resolve_callee(proj, m, c)
            if r.kind == 'func' and not any(k.arg in FLAGS for k in c.keywords) and _func_complex(proj, r.node):
                return 'complex'
    return None


def _complexness(fn, name, at, params, proj=None, m=None):
    """'complex' | 'real' | None for the value of `name` at node `at`"""
    verdicts = []
    unknown = False
    for v, st, path in reaching_defs(fn, name, at):
        if v == 'param' or not isinstance(v, ast.AST):
            unknown = True
            continue
        txt = ast.unparse(v).replace(' ', '')
        flag_kw = None
        for c in ast.walk(v):
            if isinstance(c, ast.Call):
                for k in c.keywords:
                    if k.arg in FLAGS:
                        flag_kw = k.value
        if '1j' in txt:
            verdicts.append('complex')
        elif flag_kw is not None:
            if isinstance(flag_kw, ast.Constant) and flag_kw.value is False:
                verdicts.append('real')
            elif isinstance(flag_kw, ast.Constant) and flag_kw.value is True:
                verdicts.append('complex')
            elif isinstance(flag_kw, ast.Name) and flag_kw.id in params:
                verdicts.append('real' if _in_real_branch(st, fn) else 'complex')
            else:
                unknown = True
        elif proj is not None and _callee_complexness(proj, m, v) == 'complex':
            verdicts.append('complex')
        elif isinstance(v, ast.Call) and ast.unparse(v.func).endswith(('linalg.eigh', 'linalg.eig')) and v.args \
                and any(isinstance(x, ast.Name) and x.id in params for x in ast.walk(v.args[0])) \
                and not any(isinstance(a, ast.Assert) and 'iscomplexobj' in ast.unparse(a) for a in ast.walk(fn)):
            verdicts.append('complex')      # eigenvectors of a Hermitian matrix given by the caller (density matrix): complex in general
        else:
            unknown = True
    if 'complex' in verdicts:
        return 'complex'        # complex on at least one reaching path: the bare transpose is wrong on that path
    if not verdicts or unknown:
        return None
    return 'real'


def hm1(proj, rep, modules):
    rep.rule('HM1', RULE_HM1)
    n = 0
    for mq in modules:
        m = proj.mod(mq)
        rep.touch(m)
        for fi in [f for f in proj.funcs.values() if f.module is m]:
            fn = fi.node
            for b in ast.walk(fn):
                if not (isinstance(b, ast.BinOp) and isinstance(b.op, (ast.MatMult, ast.Add, ast.Sub))):
                    continue
                ln, lt, lc = _base_of(b.left)
                rn, rt, rc = _base_of(b.right)
                if ln is None or ln != rn or lt == rt:
                    continue               # not a V-with-its-own-transpose composition
                conj = rc if rt else lc
                other_conj = lc if rt else rc
                st = b
                while not isinstance(st, ast.stmt):
                    st = st._parent
                if conj != other_conj:
                    n += 1
                    rep.ok('HM1', fi.qual, f'`{ast.unparse(b)[:70]}`: the transposed factor is conjugated', m, st)
                    continue
                if _in_real_branch(b, fn):
                    n += 1
                    rep.ok('HM1', fi.qual, f'`{ast.unparse(b)[:70]}`: bare transpose in the real branch of the flag', m, st)
                    continue
                cx = _complexness(fn, ln, st, set(fi.all_params), proj, m)
                if cx is None and _in_complex_branch(b, fn):
                    cx = 'complex'
                if cx == 'complex':
                    n += 1
                    rep.violation('HM1', fi.qual, f'`{ast.unparse(b)[:80]}`: {ln} can be complex here (its producer follows the complex flag / has a 1j term) '
                                  f'but it is composed with its bare transpose: the result is complex-symmetric, not Hermitian', m, st)
                elif cx == 'real':
                    n += 1
                    rep.ok('HM1', fi.qual, f'`{ast.unparse(b)[:70]}`: {ln} is real on every path', m, st)
                # else: undecided, silently skipped (not an obligation)
    rep.count('HM1.sites', n)
    return n


# ------------------------------------------------------------------------------------------------ PJ1
RULE_PJ1 = ('PJ1: a complement projector `eye(n) - A @ B` built from one family of vectors V sums outer products |v><v|: the ket factor A is V '
            'unconjugated (V.T for row vectors, V for column vectors) and the bra factor B carries the conjugate; likewise `v[:, None] * w` needs '
            'w = conj(v). With the conjugate on the ket factor the result is the complex conjugate of the projector: it no longer annihilates '
            'the vectors unless their span is closed under conjugation.')


def pj1(proj, rep, modules):
    rep.rule('PJ1', RULE_PJ1)
    n = 0
    for mq in modules:
        m = proj.mod(mq)
        rep.touch(m)
        for fi in [f for f in proj.funcs.values() if f.module is m]:
            for b in ast.walk(fi.node):
                if not (isinstance(b, ast.BinOp) and isinstance(b.op, ast.Sub) and isinstance(b.left, ast.Call) and ast.unparse(b.left.func).endswith('eye')):
                    continue
                r = b.right
                if isinstance(r, ast.BinOp) and isinstance(r.op, ast.MatMult):
                    ln, lt, lc = _base_of(r.left)
                    rn, rt, rc = _base_of(r.right)
                    if ln is None or ln != rn or lt == rt:
                        continue
                elif isinstance(r, ast.BinOp) and isinstance(r.op, ast.Mult):
                    # v[:, None] * v.conj()
                    def core(e):
                        c = False
                        nb = False
                        cur = e
                        for _ in range(4):
                            if isinstance(cur, ast.Subscript):
                                nb = nb or 'None' in ast.unparse(cur.slice) or 'newaxis' in ast.unparse(cur.slice)
                                cur = cur.value
                            elif isinstance(cur, ast.Call) and isinstance(cur.func, ast.Attribute) and cur.func.attr in ('conj', 'conjugate'):
                                c = True
                                cur = cur.func.value
                            else:
                                break
                        return (cur.id if isinstance(cur, ast.Name) else None), nb, c
                    ln, lnb, lc = core(r.left)
                    rn, rnb, rc = core(r.right)
                    if ln is None or ln != rn or lnb == rnb:
                        continue
                    if rnb:     # (conj?) row first: v.conj() * v[:,None] -> swap roles so that the broadcast COLUMN factor is the ket
                        lc, rc = rc, lc
                else:
                    continue
                st = b
                while not isinstance(st, ast.stmt):
                    st = st._parent
                n += 1
                if rc and not lc:
                    rep.ok('PJ1', fi.qual, f'`{ast.unparse(b)[:70]}`: ket factor plain, bra factor conjugated', m, st)
                elif lc and not rc:
                    rep.violation('PJ1', fi.qual, f'`{ast.unparse(b)[:80]}`: the conjugate sits on the ket factor: this is the complex conjugate of the projector onto '
                                  f'span({ln}); for complex vectors whose span is not closed under conjugation it does not annihilate them', m, st)
                else:
                    cx = _complexness(fi.node, ln, st, set(fi.all_params), proj, m)
                    if cx == 'real' or (not lc and not rc and _in_real_branch(b, fi.node)):
                        rep.ok('PJ1', fi.qual, f'`{ast.unparse(b)[:70]}`: real vectors', m, st)
                    else:
                        rep.undecided('PJ1', fi.qual, f'`{ast.unparse(b)[:70]}`: neither factor conjugated and {ln} not known to be real', m, st)
                        n -= 1
    rep.count('PJ1.sites', n)
    return n


# ------------------------------------------------------------------------------------------------ HM2
RULE_HM2 = ('HM2: a change of basis `L @ A @ R` whose outer factors derive from one matrix V (one of them transposed) is the unitary similarity V^dagger A V '
            '(or V A V^dagger): the conjugate sits on the TRANSPOSED factor. `V.T @ A @ V.conj()` puts it on the other one - identical for real V, but for a '
            'complex V it is conj(V^dagger conj(A) V): the blocks extracted afterwards are not invariant subspaces.')


def hm2(proj, rep, modules):
    rep.rule('HM2', RULE_HM2)
    n = 0
    for mq in modules:
        m = proj.mod(mq)
        rep.touch(m)
        for fi in [f for f in proj.funcs.values() if f.module is m]:
            for b in ast.walk(fi.node):
                # (L @ A) @ R
                if not (isinstance(b, ast.BinOp) and isinstance(b.op, ast.MatMult) and isinstance(b.left, ast.BinOp) and isinstance(b.left.op, ast.MatMult)):
                    continue
                L, A, R = b.left.left, b.left.right, b.right
                ln, lt, lc = _base_of(L)
                rn, rt, rc = _base_of(R)
                if ln is None or ln != rn or lt == rt:
                    continue
                an = _base_of(A)[0]
                if an == ln:
                    continue
                n += 1
                st = b
                while not isinstance(st, ast.stmt):
                    st = st._parent
                dag_c, other_c = (lc, rc) if lt else (rc, lc)
                if dag_c and not other_c:
                    rep.ok('HM2', fi.qual, f'`{ast.unparse(b)[:70]}`: dagger on the transposed factor', m, st)
                elif other_c and not dag_c:
                    rep.violation('HM2', fi.qual, f'`{ast.unparse(b)[:80]}`: the conjugate is on the NON-transposed factor of the change of basis by {ln}: for a complex {ln} this is '
                                  f'not the unitary similarity {ln}^dagger A {ln}, so the transformed matrices are not block diagonal in the eigenbasis', m, st)
                elif not dag_c and not other_c:
                    cx = _complexness(fi.node, ln, st, set(fi.all_params), proj, m)
                    if cx == 'complex':
                        rep.violation('HM2', fi.qual, f'`{ast.unparse(b)[:80]}`: {ln} can be complex but neither factor is conjugated', m, st)
                    else:
                        rep.ok('HM2', fi.qual, f'`{ast.unparse(b)[:70]}`: real orthogonal change of basis (no conjugate on either side)', m, st)
                else:
                    rep.undecided('HM2', fi.qual, f'`{ast.unparse(b)[:70]}`: both factors conjugated', m, st)
                    n -= 1
    rep.count('HM2.similarity_transforms', n)
    return n


# ------------------------------------------------------------------------------------------------ HM3
RULE_HM3 = ('HM3: a full contraction of an array with itself, `einsum(X, L, X, L, [])` with identical leg lists, is sum_ij X_ij^2: for a complex X this is neither the '
            'squared Frobenius norm (needs conj on one factor: vdot) nor Tr(X X) (needs transposed legs). If X is built with a conjugate (a density / Gram '
            'matrix of complex data) the purity computed this way is complex-valued / too large by the imaginary coherences.')


def hm3(proj, rep, modules):
    rep.rule('HM3', RULE_HM3)
    n = 0
    for mq in modules:
        m = proj.mod(mq)
        rep.touch(m)
        for fi in [f for f in proj.funcs.values() if f.module is m]:
            for c in ast.walk(fi.node):
                if not (isinstance(c, ast.Call) and ast.unparse(c.func).split('.')[-1] in ('einsum', 'contract') and len(c.args) >= 5):
                    continue
                a0, l0, a1, l1, out = c.args[:5]
                if not (isinstance(l0, ast.List) and isinstance(l1, ast.List) and isinstance(out, ast.List) and not out.elts):
                    continue
                if ast.unparse(a0) != ast.unparse(a1) or not isinstance(a0, ast.Name):
                    if isinstance(a0, ast.Name) and ast.unparse(a1).replace(' ', '') in (f'{a0.id}.conj()', f'np.conj({a0.id})', f'{a0.id}.conjugate()') \
                            and ast.unparse(l0) == ast.unparse(l1):
                        n += 1
                        rep.ok('HM3', fi.qual, f'`{ast.unparse(c)[:60]}`: squared norm with the conjugate', m, c)
                    continue
                n += 1
                L0, L1 = [ast.unparse(e) for e in l0.elts], [ast.unparse(e) for e in l1.elts]
                if L0 == L1:
                    d = [s.value for s in ast.walk(fi.node) if isinstance(s, ast.Assign) and isinstance(s.targets[0], ast.Name) and s.targets[0].id == a0.id]
                    cx = any('conj' in ast.unparse(v) or '1j' in ast.unparse(v) for v in d)
                    if cx:
                        rep.violation('HM3', fi.qual, f'`{ast.unparse(c)[:90]}` sums the SQUARES of the entries of `{a0.id}`, which is built from complex data (`conj` in its '
                                      f'definition): that is neither ||X||_F^2 (conjugate missing) nor Tr(X X) (legs not transposed)', m, c)
                    else:
                        rep.ok('HM3', fi.qual, f'`{ast.unparse(c)[:60]}`: real array', m, c)
                elif L0 == list(reversed(L1)) or sorted(L0) == sorted(L1):
                    rep.ok('HM3', fi.qual, f'`{ast.unparse(c)[:60]}`: Tr(X X) with transposed legs', m, c)
    rep.count('HM3.self_contractions', n)
    return n
