"""TW — twin-block consistency (sibling agreement inside one function).

Two adjacent statement windows of the same length whose syntax trees have the same shape are "twins" (the X-half and the
Z-half of a loop body, the alpha- and gamma-branch of an angle extraction, ...).  Aligning their leaves gives a renaming
A -> B.  If that renaming is a consistent map everywhere except at ONE leaf occurrence (where a name of block A maps to
two different names of block B, the other one supported by at least two occurrences) the odd occurrence is a copy/paste
slip: one of the twins uses a variable of the other.
"""
import ast

RULE_TW = ('TW: for adjacent statement windows (length >= 2) of identical syntactic shape inside one block, the leaf '
           'renaming block A -> block B is a function: no name/constant of A is sent to two different leaves of B.  A single '
           'deviating occurrence against a renaming supported by >= 2 other occurrences is reported (variable of the sibling '
           'block used by mistake).')


class _Shape(ast.NodeVisitor):
    pass


def _leaves_and_shape(stmts):
    """(shape string, [leaf strings]) - leaves are Name ids, Constant reprs and attribute names, in traversal order."""
    leaves = []

    def simple(n):
        """index-like arithmetic over names/constants: treated as ONE leaf (so `ind0` and `ind0+N0` align)."""
        if isinstance(n, (ast.Name, ast.Constant)):
            return True
        if isinstance(n, ast.BinOp) and isinstance(n.op, (ast.Add, ast.Sub, ast.Mult, ast.FloorDiv)):
            return simple(n.left) and simple(n.right)
        if isinstance(n, ast.UnaryOp) and isinstance(n.op, ast.USub):
            return simple(n.operand)
        return False

    def rec(n):
        if isinstance(n, ast.Name):
            leaves.append(('N', n.id))
            return 'E'
        if isinstance(n, ast.Constant):
            leaves.append(('C', repr(n.value)))
            return 'E' if isinstance(n.value, (int, float)) and not isinstance(n.value, bool) else 'C'
        if isinstance(n, (ast.BinOp, ast.UnaryOp)) and simple(n) and isinstance(getattr(n, 'ctx', ast.Load()), ast.Load):
            leaves.append(('X', ast.unparse(n)))
            return 'E'
        if isinstance(n, ast.Attribute):
            s = rec(n.value)
            leaves.append(('A', n.attr))
            return f'A({s})'
        if isinstance(n, ast.AST):
            parts = [type(n).__name__]
            for f, v in ast.iter_fields(n):
                if f in ('ctx', 'lineno', 'col_offset', 'end_lineno', 'end_col_offset', 'type_comment', 'kind'):
                    continue
                if isinstance(v, list):
                    parts.append('[' + ','.join(rec(x) for x in v) + ']')
                elif isinstance(v, ast.AST):
                    parts.append(rec(v))
                elif v is not None:
                    if f in ('arg', 'name', 'id', 'attr'):
                        leaves.append(('K', str(v)))
                        parts.append('K')
                    else:
                        parts.append(repr(v))
            return '(' + ' '.join(parts) + ')'
        return repr(n)
    shape = ';'.join(rec(s) for s in stmts)
    return shape, leaves


def _blocks(fn):
    """All statement lists inside a function (own scope)."""
    out = []

    def visit(body):
        out.append(body)
        for s in body:
            if isinstance(s, (ast.FunctionDef, ast.AsyncFunctionDef, ast.ClassDef)):
                continue
            for f in ('body', 'orelse', 'finalbody'):
                b = getattr(s, f, None)
                if isinstance(b, list) and b and isinstance(b[0], ast.stmt):
                    visit(b)
            if isinstance(s, ast.Try):
                for h in s.handlers:
                    visit(h.body)
    visit(fn.body)
    return out


def find_twins(fn, min_len=2, min_leaves=8):
    """Yield (blockA, blockB, leavesA, leavesB) for adjacent same-shape windows (maximal, non-overlapping)."""
    res = []
    for body in _blocks(fn):
        n = len(body)
        used = set()
        for k in range(n // 2, min_len - 1, -1):
            i = 0
            while i + 2 * k <= n:
                if any(j in used for j in range(i, i + 2 * k)):
                    i += 1
                    continue
                a, b = body[i:i + k], body[i + k:i + 2 * k]
                sa, la = _leaves_and_shape(a)
                sb, lb = _leaves_and_shape(b)
                if sa == sb and len(la) >= min_leaves and la != lb:
                    res.append((a, b, la, lb))
                    used.update(range(i, i + 2 * k))
                    i += 2 * k
                else:
                    i += 1
    # if/else twins: body vs orelse of the same If with the same shape
    for node in ast.walk(fn):
        if isinstance(node, ast.If) and node.orelse and len(node.body) >= min_len and len(node.body) == len(node.orelse):
            sa, la = _leaves_and_shape(node.body)
            sb, lb = _leaves_and_shape(node.orelse)
            if sa == sb and len(la) >= min_leaves and la != lb:
                res.append((node.body, node.orelse, la, lb))
    return res


def check_twins(a, b, la, lb):
    """None if the renaming is consistent, else (leafA, majority leafB, odd leafB, index)."""
    mp = {}
    for i, (x, y) in enumerate(zip(la, lb)):
        if x[0] != 'N':          # only variable names carry a renaming; constants / attribute names are free to differ
            continue
        mp.setdefault(x, {}).setdefault(y, []).append(i)
    bad = []
    for x, ys in mp.items():
        if len(ys) > 1:
            bad.append((x, ys))
    if not bad:
        return None
    if len(bad) > 1:
        return ('many', bad)
    x, ys = bad[0]
    items = sorted(ys.items(), key=lambda kv: -len(kv[1]))
    if len(items) == 2 and len(items[1][1]) == 1 and len(items[0][1]) >= 2:
        # the odd occurrence must be the identity (block B uses block A's own variable) and that variable must be
        # assigned inside block A - otherwise it is shared context, not a sibling's variable
        odd = items[1][0]
        assigned_in_a = {t.id for st in a for n in ast.walk(st) if isinstance(n, (ast.Assign, ast.AugAssign))
                         for t in ast.walk(n.targets[0] if isinstance(n, ast.Assign) else n.target) if isinstance(t, ast.Name)}
        if odd == x and x[1] in assigned_in_a and items[0][0][1] != x[1]:
            return ('one', x, items[0][0], odd, items[1][1][0])
    return ('many', bad)


def tw(proj, rep, modules=None, only_funcs=None):
    rep.rule('TW', RULE_TW)
    npairs = 0
    for fi in proj.iter_functions(modules):
        if only_funcs is not None and fi.qual not in only_funcs:
            continue
        m = fi.module
        for a, b, la, lb in find_twins(fi.node):
            npairs += 1
            r = check_twins(a, b, la, lb)
            construct = f'{fi.qual}[lines {a[0].lineno}-{b[-1].end_lineno}]'
            ren = sorted({(x[1], y[1]) for x, y in zip(la, lb) if x != y})
            if r is None:
                rep.ok('TW', construct, f'twin blocks related by the consistent renaming {ren[:6]}', m, a[0], text=f'{fi.qual} twins {ren[:6]}')
            elif r[0] == 'one':
                _, x, maj, odd, idx = r
                rep.violation('TW', construct, f'twin blocks at lines {a[0].lineno}-{a[-1].end_lineno} and {b[0].lineno}-{b[-1].end_lineno} are '
                              f'related by `{x[1]}` -> `{maj[1]}` everywhere except one occurrence where the second block uses `{odd[1]}` '
                              f'(a variable of the sibling block): copy/paste slip', m, b[0],
                              text=f'{fi.qual} twins odd {x[1]}->{odd[1]}')
            else:
                rep.ok('TW', construct, 'same shape but several leaves differ irregularly: not twins under one renaming (no claim)', m, a[0],
                       text=f'{fi.qual} not twins')
    rep.count('TW.twin_pairs', npairs)
    return npairs
