"""MS1 — boolean-mask index-space discipline (C15 batch clause, C18 closed forms).

Abstract value of a local array:  Full (one entry per batch element) | Masked(m) (result of Full[m] and of elementwise
operations on it) | Scalar | Unknown.  An elementwise operation between Full and Masked(m), or between Masked(m) and
Masked(m'), and a store `A[m] = v` with v Full or Masked(m' != m), are shape errors for every batch in which the mask is
neither empty nor full (NumPy raises, or silently broadcasts when exactly one element is selected).  Unknown never reports.
"""
import ast
from ..flow import Forward
from ..callgraph import resolve_callee

RULE_MS1 = ('MS1: in functions that update a batch through boolean masks every elementwise operation and every masked store stays '
            'in one index space: Full with Full, Masked(m) with Masked(m) / scalars; `A[m] = v` needs v in Masked(m) or scalar.')

FULL, SCALAR, UNK = ('Full',), ('Scalar',), ('Unknown',)
ELEMENTWISE_FUNCS = {'arccos', 'arcsin', 'arctan', 'arctan2', 'cos', 'sin', 'tan', 'exp', 'log', 'sqrt', 'abs', 'real', 'imag', 'conj',
                     'logical_not', 'logical_and', 'logical_or', 'maximum', 'minimum', 'sign', 'square', 'entr', 'where', 'clip',
                     'asarray', 'array', 'ascontiguousarray'}
SHAPE_LIKE = {'zeros_like', 'ones_like', 'empty_like'}


def masked(m):
    return ('Masked', m)


class MaskFlow(Forward):
    def __init__(self, proj, fi, rep, full_params):
        super().__init__()
        self.proj, self.fi, self.rep = proj, fi, rep
        self.m = fi.module
        self.full_params = full_params
        self.nsites = 0
        self.reported = set()

    def join_value(self, x, y):
        return x if x == y else UNK

    def join(self, a, b):
        if a is None:
            return b
        if b is None:
            return a
        return {k: self.join_value(a.get(k, UNK), b.get(k, UNK)) for k in set(a) | set(b)}

    # ---- abstract evaluation
    def val(self, e, st, report):
        if isinstance(e, ast.Constant):
            return SCALAR
        if isinstance(e, ast.Name):
            return st.get(e.id, UNK)
        if isinstance(e, ast.Attribute):
            if e.attr in ('real', 'imag', 'T'):
                return self.val(e.value, st, report)
            if e.attr in ('pi', 'e', 'inf'):
                return SCALAR
            return UNK
        if isinstance(e, ast.UnaryOp):
            return self.val(e.operand, st, report)
        if isinstance(e, ast.BinOp) or isinstance(e, ast.Compare) or isinstance(e, ast.BoolOp):
            if isinstance(e, ast.BinOp):
                ops = [e.left, e.right]
            elif isinstance(e, ast.Compare):
                ops = [e.left] + list(e.comparators)
            else:
                ops = list(e.values)
            vals = [self.val(o, st, report) for o in ops]
            return self.combine(vals, e, report)
        if isinstance(e, ast.Subscript):
            base = self.val(e.value, st, report)
            sl = e.slice
            if isinstance(sl, ast.Name) and st.get('mask:' + sl.id):
                if base == FULL:
                    return masked(sl.id)
                if base[0] == 'Masked':
                    if report:
                        self.bad(e, f'`{ast.unparse(e)}` indexes an array that is already restricted to mask `{base[1]}` with the full-length mask `{sl.id}`')
                    return UNK
                return UNK
            if base == FULL and isinstance(sl, (ast.Tuple, ast.Slice)):
                return UNK
            return UNK if base != SCALAR else SCALAR
        if isinstance(e, ast.Call):
            r = resolve_callee(self.proj, self.m, e)
            name = r.qual.rsplit('.', 1)[-1] if r.kind == 'external' else None
            if name in SHAPE_LIKE and e.args:
                return self.val(e.args[0], st, report)
            if name in ('zeros', 'ones', 'empty', 'full') and e.args:
                # zeros(X.shape[0]) / zeros(len(X)) : one entry per batch element when X is full-length
                a0 = e.args[0]
                src = None
                if isinstance(a0, ast.Subscript) and isinstance(a0.value, ast.Attribute) and a0.value.attr == 'shape' \
                        and isinstance(a0.slice, ast.Constant) and a0.slice.value == 0:
                    src = a0.value.value
                elif isinstance(a0, ast.Call) and isinstance(a0.func, ast.Name) and a0.func.id == 'len' and a0.args:
                    src = a0.args[0]
                if src is not None and self.val(src, st, False) == FULL:
                    return FULL
                return UNK
            if name in ELEMENTWISE_FUNCS and e.args:
                return self.combine([self.val(a, st, report) for a in e.args], e, report)
            if isinstance(e.func, ast.Attribute) and e.func.attr in ('copy', 'astype', 'conj', 'real', 'reshape', 'ravel', 'flatten'):
                return self.val(e.func.value, st, report)
            if isinstance(e.func, ast.Attribute) and e.func.attr in ('sum', 'max', 'min', 'any', 'all', 'item', 'mean'):
                return SCALAR
            if name in ('any', 'all', 'sum', 'prod'):
                return SCALAR
            return UNK
        if isinstance(e, ast.IfExp):
            return self.join_value(self.val(e.body, st, report), self.val(e.orelse, st, report))
        return UNK

    def combine(self, vals, node, report):
        spaces = [v for v in vals if v in (FULL,) or v[0] == 'Masked']
        if any(v == UNK for v in vals) and not spaces:
            return UNK
        if not spaces:
            return SCALAR
        first = spaces[0]
        for v in spaces[1:]:
            if v != first:
                if report:
                    self.nsites += 1
                    self.bad(node, f'`{ast.unparse(node)[:80]}` combines {self.show(first)} with {self.show(v)}: different index spaces '
                             f'(shape error unless the mask selects all or exactly one element)')
                return UNK
        if report:
            self.nsites += 1
        return first

    def show(self, v):
        return 'a full-length array' if v == FULL else f'an array restricted to mask `{v[1]}`'

    def bad(self, node, msg):
        st = node
        while not isinstance(st, ast.stmt):
            st = getattr(st, '_parent')
        key = (st.lineno, msg[:40])
        if key in self.reported:
            return
        self.reported.add(key)
        self.rep.violation('MS1', self.fi.qual, msg, self.m, st)

    # ---- transfer
    def transfer(self, stmt, state, report):
        st = dict(state)
        if isinstance(stmt, ast.Assign):
            v = self.val(stmt.value, st, report)
            for t in stmt.targets:
                self.assign(t, v, stmt, st, report)
        elif isinstance(stmt, ast.AugAssign):
            v = self.combine([self.val(stmt.target, st, report), self.val(stmt.value, st, report)], stmt, report)
            if isinstance(stmt.target, ast.Name):
                st[stmt.target.id] = v
        elif isinstance(stmt, (ast.Expr, ast.Return)) and stmt.value is not None:
            self.val(stmt.value, st, report)
        return st

    def assign(self, t, v, stmt, st, report):
        if isinstance(t, ast.Name):
            st[t.id] = v
            # masks: comparisons / logical combinations of full arrays
            val = stmt.value
            is_mask = isinstance(val, ast.Compare) or (isinstance(val, ast.Call) and 'logical' in ast.unparse(val.func))
            if v == FULL and is_mask:
                st['mask:' + t.id] = True
            else:
                st.pop('mask:' + t.id, None)
        elif isinstance(t, (ast.Tuple, ast.List)):
            # x00, x02, ... = [x.real for x in (x00, x02, ...)] : keep each name's own value when the rhs is a per-element map
            if isinstance(stmt.value, (ast.ListComp, ast.Tuple, ast.List)):
                for e in t.elts:
                    if isinstance(e, ast.Name) and e.id not in st:
                        st[e.id] = UNK
            else:
                for e in t.elts:
                    if isinstance(e, ast.Name):
                        st[e.id] = UNK
        elif isinstance(t, ast.Subscript):
            base = self.val(t.value, st, report)
            sl = t.slice
            if isinstance(sl, ast.Name) and st.get('mask:' + sl.id) and base == FULL:
                if report:
                    self.nsites += 1
                if v == FULL:
                    if report:
                        self.bad(stmt, f'`{ast.unparse(stmt)[:80]}` stores a full-length array through mask `{sl.id}`: the right-hand side must be '
                                 f'restricted to the mask as well')
                elif v[0] == 'Masked' and v[1] != sl.id:
                    if report:
                        self.bad(stmt, f'`{ast.unparse(stmt)[:80]}` stores values selected by mask `{v[1]}` through mask `{sl.id}`')
                elif report and v != UNK:
                    self.rep.ok('MS1', self.fi.qual, f'`{ast.unparse(stmt)[:70]}`: {self.show(v) if v != SCALAR else "scalar"} stored through `{sl.id}`',
                                self.m, stmt)


def ms1(proj, rep, funcs):
    """funcs: {qualname: [names of parameters that are full-length batch arrays]}"""
    rep.rule('MS1', RULE_MS1)
    total = 0
    for q, full in funcs.items():
        fi = proj.func(q)
        rep.touch(fi.module)
        fl = MaskFlow(proj, fi, rep, full)
        state = {p: FULL for p in full}
        for p in fi.all_params:
            state.setdefault(p, UNK)
        fl.run(fi.node, state)
        total += fl.nsites
        if not fl.reported:
            rep.ok('MS1', q, f'{fl.nsites} elementwise operations / masked stores stay in one index space', fi.module, fi.node, text=f'{q} index spaces')
    rep.count('MS1.functions', len(funcs))
    rep.count('MS1.sites', total)
    return len(funcs), total


# ------------------------------------------------------------------------------------------------ MS2
RULE_MS2 = ('MS2: blocks guarded by `if np.any(mask_k):` that update the mask_k entries of a batch are independent statements: different masks '
            'select different batch elements, so an `elif` / nesting under the else of another mask test skips the second group whenever the '
            'first group is non-empty in the same batch.')


def _any_mask(test):
    """name of the mask in `np.any(mask)` / `mask.any()` / `torch.any(mask)`; None otherwise"""
    if isinstance(test, ast.Call):
        f = test.func
        if isinstance(f, ast.Attribute) and f.attr == 'any':
            if test.args and isinstance(test.args[0], ast.Name):
                return test.args[0].id
            if not test.args and isinstance(f.value, ast.Name):
                return f.value.id
    return None


def ms2(proj, rep, funcs):
    rep.rule('MS2', RULE_MS2)
    n = 0
    for q in funcs:
        fi = proj.func(q)
        m = fi.module
        rep.touch(m)
        for st in ast.walk(fi.node):
            if not isinstance(st, ast.If):
                continue
            mk = _any_mask(st.test)
            if mk is None:
                continue
            # does the body store through this mask?
            stores = any(isinstance(x, ast.Subscript) and isinstance(x.ctx, ast.Store) and isinstance(x.slice, ast.Name) and x.slice.id == mk
                         for b in st.body for x in ast.walk(b))
            if not stores:
                continue
            n += 1
            chained = None
            for o in st.orelse:
                for x in ast.walk(o):
                    if isinstance(x, ast.If):
                        mk2 = _any_mask(x.test)
                        if mk2 is not None and mk2 != mk:
                            chained = (mk2, x)
                            break
                if chained:
                    break
            if chained:
                mk2, x = chained
                rep.violation('MS2', q, f'`if np.any({mk2}):` is reached only when `np.any({mk})` is False (elif / else nesting): in a batch that contains both '
                              f'groups the {mk2} entries are never updated and keep their initial values', m, x)
            else:
                rep.ok('MS2', q, f'`if np.any({mk})` block is an independent statement', m, st)
    rep.count('MS2.mask_blocks', n)
    return n
