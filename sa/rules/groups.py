"""GR1-GR6 — structural clauses of C14 (finite-group tables, hook lengths, partition counts).

That a COMPUTED Cayley table satisfies the group axioms, that the irreducible blocks are unitary homomorphisms and that tableau counts
match the hook-length formula are value-level facts about run-time arrays: NOT decided.  Decided, as necessary conditions:

GR1  cayley_table_to_left_regular_form places the 1 of L(g) at [g*h, h] (row = product index, column = right factor): this orientation is
     a homomorphism L(g) L(g') = L(g g'); the transposed placement [h, g*h] is an anti-homomorphism for every non-abelian table.
GR2  the literal Klein-four table IS a group table: evaluated exhaustively by the checker (closure, Latin square, identity, inverses,
     all 64 associativity triples) - finite evaluation of a literal, nothing is executed.
GR3  tables built from residue arithmetic use the group law of that group: cyclic (i + j) mod n over arange(n); multiplicative (x*y) mod n
     over exactly the units gcd(n,x)==1, mapped back through a dictionary built by enumerate of the SAME element list.
GR4  tables built by composing permutations (symmetric, alternating, dihedral) index `perm[:, perm]` - entry [a, b] is perm_a o perm_b,
     the same orientation for rows and lookup - and look the composite up in a dictionary enumerating the same list that was composed;
     the alternating filter keeps permutations whose cycle type has even sum(len-1) (a subgroup).
GR5  hook lengths are arm + leg + 1 = (reversed cumulative sum of the diagram mask along axis 0) + (along axis 1) - 1, taken on the
     cells of the mask, and the dimension is n! / prod(hooks) through exponents 1 - count(k) for k in 1..n.
GR6  the partition-count recurrence p(n, m) = sum_{r=0}^{n//m} p(n - r m, m - 1) with the boundary rows/columns p(.,<=1) = p(<=1,.) = 1.
"""
import ast

RULES = {
    'GR1': 'GR1: left regular form L(g)[g*h, h] = 1: `ret[g, table[g], arange] = 1` (product index on the row axis).',
    'GR2': 'GR2: the literal Klein-four Cayley table satisfies closure, Latin-square, identity, inverse and associativity - checked exhaustively on the literal.',
    'GR3': 'GR3: residue tables use (i+j) mod n over arange(n) / (x*y) mod n over the units gcd(n,x)==1 with a lookup built from the same element list.',
    'GR4': ('GR4: permutation tables compose as `perm[:, perm]` and look the composite up in a dictionary enumerating the composed list itself; the '
            'alternating filter keeps even cycle type.'),
    'GR5': 'GR5: hook = reversed cumsum of the mask along axis 0 + along axis 1 - 1 on the cells of the mask; dimension exponents 1 - count(k), k = 1..n.',
    'GR6': 'GR6: partition recurrence p(n,m) = sum_r p(n - r*m, m-1), r = 0..n//m, with unit boundary rows / columns.',
}
MI = 'numqi.group._internal'
MS = 'numqi.group._symmetric'


def _t(e):
    return ast.unparse(e).replace(' ', '')


def gr1(proj, rep):
    rep.rule('GR1', RULES['GR1'])
    f = proj.func(f'{MI}.cayley_table_to_left_regular_form')
    m = f.module
    rep.touch(m)
    st = next((s for s in ast.walk(f.node) if isinstance(s, ast.Assign) and isinstance(s.targets[0], ast.Subscript) and isinstance(s.targets[0].slice, ast.Tuple)
               and len(s.targets[0].slice.elts) == 3), None)
    if st is None:
        rep.undecided('GR1', f.qual, 'three-index placement not found', m, f.node, text='placement')
        return 0
    g, a, b = [_t(x) for x in st.targets[0].slice.elts]
    ar = next((s.targets[0].id for s in f.node.body if isinstance(s, ast.Assign) and isinstance(s.targets[0], ast.Name) and _t(s.value).startswith('np.arange(')), None)
    prod = f'np.array(index_tuple[{g}])'
    if a in (prod, f'index_tuple[{g}]') and b == ar:
        rep.ok('GR1', f.qual, f'L(g)[g*h, h] = 1 (`{_t(st)}`)', m, st)
    elif b in (prod, f'index_tuple[{g}]') and a == ar:
        rep.violation('GR1', f.qual, f'`{_t(st)}` places the 1 at [h, g*h]: that is L(g)^T = L(g^-1), an anti-homomorphism - L(g)L(g\') = L(g\' g) - for every '
                      f'non-abelian table (S_3, D_n, Q_8)', m, st)
    else:
        rep.undecided('GR1', f.qual, f'placement `{_t(st)}` not recognised', m, st)
        return 0
    return 1


def gr2(proj, rep):
    rep.rule('GR2', RULES['GR2'])
    f = proj.func(f'{MI}.get_klein_four_group_cayley_table')
    m = f.module
    lit = next((c.args[0] for c in ast.walk(f.node) if isinstance(c, ast.Call) and _t(c.func) == 'np.array' and c.args and isinstance(c.args[0], (ast.Tuple, ast.List))), None)
    if lit is None:
        rep.undecided('GR2', f.qual, 'literal table not found', m, f.node, text='klein literal')
        return 0
    try:
        T = [[e.value for e in row.elts] for row in lit.elts]
    except AttributeError:
        rep.undecided('GR2', f.qual, 'table is not a literal of integers', m, lit)
        return 0
    n = len(T)
    why = None
    if any(len(r) != n for r in T) or any(not (isinstance(x, int) and 0 <= x < n) for r in T for x in r):
        why = 'entries are not indices 0..n-1 of a square table (closure)'
    elif any(sorted(r) != list(range(n)) for r in T) or any(sorted(T[i][j] for i in range(n)) != list(range(n)) for j in range(n)):
        why = 'a row or column is not a permutation of the elements (no unique solutions of a*x = b)'
    elif T[0] != list(range(n)) or [T[i][0] for i in range(n)] != list(range(n)):
        why = 'element 0 is not a two-sided identity'
    else:
        bad = next(((a, b, c) for a in range(n) for b in range(n) for c in range(n) if T[T[a][b]][c] != T[a][T[b][c]]), None)
        if bad:
            why = f'not associative: ({bad[0]}*{bad[1]})*{bad[2]} != {bad[0]}*({bad[1]}*{bad[2]})'
        elif any(T[a][a] != 0 for a in range(n)):
            why = 'an element is not its own inverse: this is not the Klein four-group (it would be Z_4)'
    if why:
        rep.violation('GR2', f.qual, f'the literal table {T} is not the Klein four-group table: {why}', m, lit)
    else:
        rep.ok('GR2', f.qual, 'literal 4x4 table: Latin square, identity 0, every element an involution, 64 associativity triples', m, lit)
    return 1


def gr2b(proj, rep):
    """literal 4x4 seed of the quaternion table + the sign-extension idiom"""
    rep.rule('GR2', RULES['GR2'])
    f = proj.func(f'{MI}.get_quaternion_cayley_table')
    m = f.module
    n = 0
    seed = next((s.value for s in f.node.body if isinstance(s, ast.Assign) and isinstance(s.value, ast.List) and s.value.elts
                 and all(isinstance(e, ast.Constant) and isinstance(e.value, str) for e in s.value.elts)), None)
    n += 1
    if seed is None:
        rep.undecided('GR2', f.qual, 'literal 4x4 seed of strings not found', m, f.node, text='quaternion seed')
        return 0
    T = [e.value.split() for e in seed.elts]
    units = ['1', 'i', 'j', 'k']

    def mul(a, b):
        # quaternion product of signed units, from i^2 = j^2 = k^2 = ijk = -1
        sa, ua = (-1, a[1:]) if a.startswith('-') else (1, a)
        sb, ub = (-1, b[1:]) if b.startswith('-') else (1, b)
        if ua == '1':
            s0, u = 1, ub
        elif ub == '1':
            s0, u = 1, ua
        elif ua == ub:
            s0, u = -1, '1'
        else:
            cyc = {('i', 'j'): 'k', ('j', 'k'): 'i', ('k', 'i'): 'j'}
            if (ua, ub) in cyc:
                s0, u = 1, cyc[(ua, ub)]
            else:
                s0, u = -1, cyc[(ub, ua)]
        sg = sa * sb * s0
        return ('-' if sg < 0 else '') + u
    bad = None
    if len(T) != 4 or any(len(r) != 4 for r in T):
        bad = 'the seed is not 4x4'
    else:
        for a in range(4):
            for b in range(4):
                if T[a][b] != mul(units[a], units[b]) and bad is None:
                    bad = f'entry {units[a]}*{units[b]} is `{T[a][b]}`, the quaternion product is `{mul(units[a], units[b])}`'
    if bad:
        rep.violation('GR2', f.qual, f'the literal seed {[" ".join(r) for r in T]} is not the quaternion multiplication table: {bad} (the extended 8x8 table is then not '
                      f'associative)', m, seed)
    else:
        rep.ok('GR2', f.qual, 'literal 4x4 seed equals the quaternion products of (1, i, j, k)', m, seed)
    # extension by signs: negation map and element order
    n += 1
    src = _t(f.node)
    neg_ok = "hf0=lambdax:'-'+xiflen(x)==1elsex[1]" in src
    ext_ok = 'tmp1=tmp0+[[hf0(y)foryinx]forxintmp0]' in src and 'tmp2=[x+[hf0(y)foryinx]forxintmp1]' in src
    order_ok = "enumerate('1ijk-1-i-j-k'.split(''))" in src
    if neg_ok and ext_ok and order_ok:
        rep.ok('GR2', f'{f.qual}[extension]', 'rows/columns of the negated units are the negated entries; elements ordered 1 i j k -1 -i -j -k', m, f.node, text='quaternion extension')
    else:
        rep.undecided('GR2', f'{f.qual}[extension]', 'sign-extension idiom not recognised', m, f.node, text='quaternion extension')
        n -= 1
    return n


def gr3(proj, rep):
    rep.rule('GR3', RULES['GR3'])
    n = 0
    f = proj.func(f'{MI}.get_cyclic_group_cayley_table')
    m = f.module
    rep.touch(m)
    src = _t(f.node)
    n += 1
    ar = next((s.targets[0].id for s in f.node.body if isinstance(s, ast.Assign) and isinstance(s.targets[0], ast.Name) and _t(s.value).startswith('np.arange(n')), None)
    if ar and (f'np.remainder({ar}[:,np.newaxis]+{ar},n)' in src or f'({ar}[:,np.newaxis]+{ar})%n' in src or f'np.remainder({ar}[:,None]+{ar},n)' in src):
        rep.ok('GR3', f.qual, '(i + j) mod n over arange(n)', m, f.node, text='cyclic law')
    elif 'circulant(' in src:
        rep.violation('GR3', f.qual, 'the table is built as a circulant of arange(n): circulant(c)[i,j] = c[(i-j) mod n], i.e. the SUBTRACTION table (i-j) / (j-i) mod n, '
                      'which is a Latin square but not associative for n >= 3 and has only a one-sided identity', m, f.node, text='cyclic law')
    elif ar and ('np.remainder(' in src or '%n' in src):
        rep.violation('GR3', f.qual, 'the table is not (i + j) mod n over arange(n): not the cyclic group law', m, f.node, text='cyclic law')
    else:
        rep.undecided('GR3', f.qual, 'cyclic construction not recognised', m, f.node, text='cyclic law')
        n -= 1
    f = proj.func(f'{MI}.get_multiplicative_group_cayley_table')
    n += 1
    el = next((s for s in f.node.body if isinstance(s, ast.Assign) and isinstance(s.value, ast.ListComp)), None)
    mp = next((s for s in f.node.body if isinstance(s, ast.Assign) and isinstance(s.value, ast.DictComp)), None)
    src = _t(f.node)
    if el is None or mp is None:
        rep.undecided('GR3', f.qual, 'element list / index map not found', m, f.node, text='multiplicative law')
        n -= 1
    else:
        E, X = el.targets[0].id, mp.targets[0].id
        units = _t(el.value) in ('[xforxinrange(1,n)ifmath.gcd(n,x)==1]', '[xforxinrange(1,n)ifmath.gcd(x,n)==1]')
        lookup = _t(mp.value) == f'{{y:xforx,yinenumerate({E})}}'
        law = False
        for sub in ast.walk(f.node):
            if isinstance(sub, ast.Subscript) and isinstance(sub.value, ast.Name) and sub.value.id == X and isinstance(sub.slice, ast.BinOp) and isinstance(sub.slice.op, ast.Mod) \
                    and _t(sub.slice.right) == 'n' and isinstance(sub.slice.left, ast.BinOp) and isinstance(sub.slice.left.op, ast.Mult):
                a, b = _t(sub.slice.left.left), _t(sub.slice.left.right)
                gens = []
                cur = sub
                while hasattr(cur, '_parent'):
                    cur = cur._parent
                    if isinstance(cur, (ast.GeneratorExp, ast.ListComp)):
                        gens += [(g.target.id if isinstance(g.target, ast.Name) else None, _t(g.iter)) for g in cur.generators]
                if sorted(gens) == sorted([(a, E), (b, E)]) and a != b:
                    law = True
        if units and lookup and law:
            rep.ok('GR3', f.qual, '(x*y) mod n over the units of Z/n, looked up in enumerate(element)', m, el)
        elif not units:
            rep.violation('GR3', f.qual, f'`{_t(el.value)}` is not the set of units gcd(n,x)==1 of Z/n: products leave the set (KeyError) or the set is not a group', m, el)
        elif not lookup:
            rep.violation('GR3', f.qual, f'the index map `{_t(mp.value)}` is not the inverse of enumerate({E})', m, mp)
        else:
            rep.violation('GR3', f.qual, 'the table entries are not index[(x*y) mod n] over element x element', m, f.node, text='multiplicative law')
    return n


def gr4(proj, rep):
    rep.rule('GR4', RULES['GR4'])
    n = 0
    for q in (f'{MS}._get_symmetric_group_cayley_table_hf0', f'{MI}.get_dihedral_group_cayley_table'):
        f = proj.func(q)
        m = f.module
        rep.touch(m)
        n += 1
        mp = next((s for s in f.node.body if isinstance(s, ast.Assign) and isinstance(s.value, ast.DictComp)), None)
        comp = next((x for x in ast.walk(f.node) if isinstance(x, ast.Subscript) and isinstance(x.slice, ast.Tuple) and len(x.slice.elts) == 2
                     and isinstance(x.slice.elts[0], ast.Slice) and isinstance(x.slice.elts[1], ast.Name) and isinstance(x.value, ast.Name)
                     and x.slice.elts[1].id == x.value.id), None)
        if mp is None or comp is None:
            rep.undecided('GR4', q, 'composition `perm[:, perm]` / lookup dictionary not found', m, f.node, text='composition')
            n -= 1
            continue
        P = comp.value.id
        X = mp.targets[0].id
        it = _t(mp.value.generators[0].iter)
        pdef = next((s for s in f.node.body if isinstance(s, ast.Assign) and isinstance(s.targets[0], ast.Name) and s.targets[0].id == P), None)
        src_list = None
        if it.startswith('enumerate('):
            src_list = it[len('enumerate('):-1]
        same = pdef is not None and src_list is not None and (src_list.replace('.tolist()', '') == P or src_list in _t(pdef.value))
        keyok = _t(mp.value.key) in ('y', 'tuple(y)') and _t(mp.value.value) == 'x'
        used = f'{X}[tuple(y)]' in _t(f.node)
        if same and keyok and used:
            rep.ok('GR4', q, f'{P}[:, {P}] composed and looked up in enumerate of the same list', m, comp)
        elif not same:
            rep.violation('GR4', q, f'the composite of `{P}` is looked up in a dictionary enumerating `{src_list}`, a different list: indices do not name the composed elements', m, mp)
        else:
            rep.undecided('GR4', q, 'lookup idiom not recognised', m, mp)
            n -= 1
    # alternating filter
    f = proj.func(f'{MS}._get_symmetric_group_cayley_table_hf0')
    m = f.module
    n += 1
    cond = next((x for x in ast.walk(f.node) if isinstance(x, ast.If) and 'sum(' in _t(x.test) and '%2' in _t(x.test)), None)
    if cond is None:
        rep.undecided('GR4', f'{f.qual}[alternating]', 'parity filter not found', m, f.node, text='parity filter')
        n -= 1
    elif _t(cond.test) in ('sum((len(x)-1forxiny))%2==0', 'sum(len(x)-1forxiny)%2==0'):
        rep.ok('GR4', f'{f.qual}[alternating]', 'even permutations: sum over cycles of (length - 1) is even', m, cond)
    else:
        rep.violation('GR4', f'{f.qual}[alternating]', f'`{_t(cond.test)}` does not select the even permutations (sum of (cycle length - 1) even): the selected set is not '
                      f'closed under composition', m, cond)
    return n


def gr5(proj, rep):
    rep.rule('GR5', RULES['GR5'])
    f = proj.func(f'{MS}._get_hook_length_hf0')
    m = f.module
    rep.touch(m)
    n = 0
    hook = next((s for s in f.node.body if isinstance(s, ast.Assign) and 'cumsum' in _t(s.value)), None)
    n += 1
    if hook is None:
        rep.undecided('GR5', f.qual, 'hook expression not found', m, f.node, text='hook')
        n -= 1
    else:
        t = _t(hook.value).strip('()')
        want = {'mask[::-1].cumsum(axis=0)[::-1]', 'mask[:,::-1].cumsum(axis=1)[:,::-1]'}
        parts = set(t[:-2].split('+')) if t.endswith('-1') else set()
        if parts == want:
            rep.ok('GR5', f.qual, 'hook = cells below (incl.) + cells to the right (incl.) - 1', m, hook)
        elif 'cumsum' in t:
            rep.violation('GR5', f.qual, f'`{t[:90]}` is not (reversed cumsum along axis 0) + (reversed cumsum along axis 1) - 1: not the hook length arm + leg + 1', m, hook)
    cnt = next((s for s in f.node.body if isinstance(s, ast.Assign) and 'Counter' in _t(s.value)), None)
    exp = next((s for s in f.node.body if isinstance(s, ast.Assign) and isinstance(s.value, ast.DictComp)), None)
    n += 1
    if cnt is None or exp is None:
        rep.undecided('GR5', f.qual, 'hook counter / exponent table not found', m, f.node, text='exponents')
        n -= 1
    else:
        C = cnt.targets[0].id
        on_mask = 'mask.astype(np.bool_)]' in _t(cnt.value) or '[mask]' in _t(cnt.value)
        e_ok = _t(exp.value) in (f'{{x:int(1-{C}.get(x,0))forxinrange(1,np0.sum()+1)}}', f'{{x:1-{C}.get(x,0)forxinrange(1,np0.sum()+1)}}')
        if on_mask and e_ok:
            rep.ok('GR5', f.qual, 'n! / prod(hooks) through exponents 1 - count(k), k = 1..n, hooks taken on the cells of the diagram', m, exp)
        elif not on_mask:
            rep.violation('GR5', f.qual, 'hook lengths are not restricted to the cells of the diagram mask', m, cnt)
        else:
            rep.violation('GR5', f.qual, f'`{_t(exp.value)[:80]}` is not the exponent table 1 - count(k) for k in 1..n of n!/prod(hooks)', m, exp)
    return n


def gr6(proj, rep):
    rep.rule('GR6', RULES['GR6'])
    f = proj.func(f'{MS}._get_sym_group_num_irrep_hf0')
    m = f.module
    rep.touch(m)
    src = _t(f.node)
    n = 1
    rec = 'r=np.arange(n//m+1)' in src and 'z0[n,m]=z0[n-r*m,m-1].sum()' in src
    bnd = 'z0[:2]=1' in src and 'z0[:,:2]=1' in src
    if rec and bnd:
        rep.ok('GR6', f.qual, 'p(n,m) = sum_{r<=n//m} p(n-r*m, m-1), unit boundary', m, f.node, text='recurrence')
    elif 'z0[n,m]=' in src and '.sum()' in src:
        rep.violation('GR6', f.qual, 'the recurrence is not p(n,m) = sum over r = 0..n//m of p(n - r*m, m-1) with p(<=1, .) = p(., <=1) = 1', m, f.node, text='recurrence')
    else:
        rep.undecided('GR6', f.qual, 'recurrence not recognised', m, f.node, text='recurrence')
        n = 0
    return n
