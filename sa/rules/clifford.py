"""H2 — vocabulary agreement of the Clifford circuit recorder, tableau table, universal-circuit table and random lists,
and the composition-order parity of the lazy tableau accumulation (C07)."""
import ast
from ..project import dotted_parts, AnalysisError
from ..callgraph import resolve_callee
from ..tables import const_eval, Sym
from ..gateval import GateEval, NotLiteral, CANON, same
import numpy as np

RULE_H2 = ('H2: every gate key a CliffordCircuit recorder stores is (a) the name of the attribute it is bound to, (b) a key of '
           'the tableau table _basic_clifford_dict and (c) of the to_universal_circuit table, and vice versa; each table maps '
           'the key to the operator of that name (single-qubit key K -> numqi.gate.K; two-qubit key CK -> the block matrix '
           'diag(I, numqi.gate.K) / numqi.gate.CNOT, and, in the universal table, the controlled matrix numqi.gate.K with the '
           'first recorded index as control); the random-gate lists only name existing recorders of the right arity.')
RULE_H3 = ('H3: to_symplectic_form composes the per-gate tableaux in an order that equals U^dagger P U: with the dagger table, '
           'the gate list is traversed reversed and accumulated as multiply(acc, gate) or traversed forward and accumulated '
           'as multiply(gate, acc) (clifford_multiply(x, y) = y o x); two-qubit gates scatter into rows/cols '
           '[i0, i1, i0+n, i1+n] in recorded order.')

MOD = 'numqi.sim.clifford'
CLS = 'numqi.sim.clifford.CliffordCircuit'


def _factory_info(proj, fac_fi):
    """(arity, ok) of a recorder factory: inner function appends (key, idx...) to self.gate_index_list."""
    params = fac_fi.params
    if len(params) != 1:
        return None
    keyp = params[0]
    for n in ast.walk(fac_fi.node):
        if isinstance(n, ast.Call) and isinstance(n.func, ast.Attribute) and n.func.attr == 'append' and n.args \
                and isinstance(n.args[0], ast.Tuple):
            t = n.args[0]
            if t.elts and isinstance(t.elts[0], ast.Name) and t.elts[0].id == keyp:
                return len(t.elts) - 1
    return None


def h2(proj, rep):
    rep.rule('H2', RULE_H2)
    m = proj.mod(MOD)
    ci = proj.cls(CLS)
    rep.touch(m)
    # ---- recorders
    recorders = {}     # attr -> (key, arity, node)
    for attr, val in ci.attr_assigns.items():
        if isinstance(val, ast.Call):
            r = resolve_callee(proj, m, val)
            if r.kind == 'func':
                ar = _factory_info(proj, r.node)
                if ar is not None and len(val.args) == 1 and isinstance(val.args[0], ast.Constant) and isinstance(val.args[0].value, str):
                    recorders[attr] = (val.args[0].value, ar, val)
    aliases = {a: v.id for a, v in ci.attr_assigns.items() if isinstance(v, ast.Name) and v.id in recorders}
    n = 0
    for attr, (key, ar, node) in sorted(recorders.items()):
        n += 1
        if attr == key:
            rep.ok('H2', f'{CLS}.{attr}', f'records key {key!r} (arity {ar})', m, node)
        else:
            rep.violation('H2', f'{CLS}.{attr}', f'attribute {attr} records key {key!r}: the gate applied by the tableau is not the '
                          f'one named', m, node)
    keys = {k for k, a, nd in recorders.values()}
    arity = {k: a for k, a, nd in recorders.values()}
    # ---- tableau table
    bd = m.bindings.get('_basic_clifford_dict')
    if bd is None or bd[0] != 'assign' or not isinstance(bd[1], ast.Dict):
        raise AnalysisError('numqi.sim.clifford._basic_clifford_dict is no longer a literal dict')
    tab = {}
    for k, v in zip(bd[1].keys, bd[1].values):
        if isinstance(k, ast.Constant):
            tab[k.value] = v
    _cmp_keys(rep, m, bd[1], 'H2', '_basic_clifford_dict', keys, set(tab))
    ge = GateEval(proj)
    for k, v in sorted(tab.items()):
        n += 1
        _cmp_value(rep, m, ge, v, f'_basic_clifford_dict[{k!r}]', _expected_matrix(k, block=True), k)
    # ---- universal circuit table + dispatch
    fu = proj.func(f'{CLS}.to_universal_circuit')
    utab = None
    for s in ast.walk(fu.node):
        if isinstance(s, ast.Dict) and s.keys and all(isinstance(k, ast.Constant) and isinstance(k.value, str) for k in s.keys):
            utab = s
    if utab is None:
        rep.undecided('H2', f'{CLS}.to_universal_circuit', 'no literal key table found', m, fu.node, text='utab')
    else:
        ut = {k.value: v for k, v in zip(utab.keys, utab.values)}
        _cmp_keys(rep, m, utab, 'H2', 'to_universal_circuit table', keys, set(ut))
        for k, v in sorted(ut.items()):
            n += 1
            _cmp_value(rep, m, ge, v, f'to_universal_circuit[{k!r}]', _expected_matrix(k, block=False), k)
        # dispatch: len(gate)==2 -> single_qubit_gate(tab[gate[0]], gate[1]); else controlled_single_qubit_gate(tab[gate[0]], gate[1], gate[2])
        for c in ast.walk(fu.node):
            if isinstance(c, ast.Call) and isinstance(c.func, ast.Attribute) and c.func.attr in ('single_qubit_gate', 'controlled_single_qubit_gate'):
                n += 1
                idx = [_gate_sub(a) for a in c.args[1:]]
                want = [1] if c.func.attr == 'single_qubit_gate' else [1, 2]
                k0 = c.args[0] if c.args else None
                key_ok = isinstance(k0, ast.Subscript) and _gate_sub(k0.slice) == 0
                if idx == want and key_ok:
                    rep.ok('H2', f'{CLS}.to_universal_circuit', f'{c.func.attr}(table[gate[0]], ' + ', '.join(f'gate[{i}]' for i in idx) + ')', m, c)
                elif None in idx or not key_ok:
                    rep.undecided('H2', f'{CLS}.to_universal_circuit', f'argument form not understood: {ast.unparse(c)}', m, c)
                else:
                    rep.violation('H2', f'{CLS}.to_universal_circuit', f'{c.func.attr} receives gate indices {idx}, expected {want} '
                                  f'(first recorded index is the control)', m, c)
    # ---- random lists
    for lst, want_ar in (('_single_gate_list', 1), ('_two_qubit_gate_list', 2)):
        v = ci.attr_assigns.get(lst)
        if v is None:
            continue
        vals = const_eval(v)
        if not isinstance(vals, list):
            rep.undecided('H2', f'{CLS}.{lst}', 'not a literal list', m, v)
            continue
        for name in vals:
            n += 1
            if name in recorders or name in aliases:
                k = recorders.get(name, recorders.get(aliases.get(name)))
                if k[1] == want_ar:
                    rep.ok('H2', f'{CLS}.{lst}', f'{name!r} is a recorder of arity {want_ar}', m, v, text=f'{lst}:{name}')
                else:
                    rep.violation('H2', f'{CLS}.{lst}', f'{name!r} is a recorder of arity {k[1]}, list expects {want_ar}', m, v, text=f'{lst}:{name}')
            elif name in ci.methods:
                rep.ok('H2', f'{CLS}.{lst}', f'{name!r} is a method', m, v, text=f'{lst}:{name}')
            else:
                rep.violation('H2', f'{CLS}.{lst}', f'{name!r} names no attribute of the class (getattr raises)', m, v, text=f'{lst}:{name}')
    rep.count('H2.entries', n)
    rep.note('H2.recorder_keys', sorted(keys))
    return n, len(recorders)


def _expected_matrix(key, block):
    """Operator a key denotes: single-qubit K -> K; two-qubit CK -> diag(I,K) (tableau table) / K (controlled builder)."""
    if len(key) == 1 and key in CANON:
        return CANON[key], key
    if len(key) == 2 and key[0] == 'C' and key[1] in CANON:
        g = CANON[key[1]]
        if block:
            return np.block([[np.eye(2), np.zeros((2, 2))], [np.zeros((2, 2)), g]]), f'diag(I,{key[1]})'
        return g, key[1]
    return None, None


def _cmp_value(rep, m, ge, v, construct, expected, key):
    exp, name = expected
    if exp is None:
        rep.undecided('H2', construct, f'no canonical operator known for key {key!r}', m, v)
        return
    try:
        got = ge.value(m, v)
    except NotLiteral as e:
        rep.undecided('H2', construct, f'value `{ast.unparse(v)}` is not a literal gate expression ({e})', m, v)
        return
    if same(got, exp):
        rep.ok('H2', construct, f'`{ast.unparse(v)}` evaluates to {name}', m, v)
    else:
        rep.violation('H2', construct, f'`{ast.unparse(v)}` does not evaluate to the operator {name} that key {key!r} denotes', m, v)


def _cmp_keys(rep, m, node, rule, what, want, got):
    if want == got:
        rep.ok(rule, what, f'keys == recorder keys {sorted(want)}', m, node, text=f'{what} keys')
    else:
        miss, extra = sorted(want - got), sorted(got - want)
        if miss:
            rep.violation(rule, what, f'recorded key(s) {miss} have no entry (KeyError at query time)', m, node, text=f'{what} keys')
        else:
            rep.ok(rule, what, f'covers every recorder key; extra entries {extra}', m, node, text=f'{what} keys')


def _gate_sub(e):
    """gate[i] -> i"""
    if isinstance(e, ast.Subscript) and isinstance(e.value, ast.Name) and isinstance(e.slice, ast.Constant):
        return e.slice.value
    return None


def _gate_sym(key, block):
    """Acceptable canonical operator names for a key."""
    if len(key) == 1:
        return {f'numqi.gate.{key}'}
    if len(key) == 2 and key[0] == 'C':
        if block:
            out = {f'block(I,{key[1]})'}
            if key == 'CX':
                out.add('numqi.gate.CNOT')
            if key == 'CZ':
                out.add('numqi.gate.CZ')
            return out
        return {f'numqi.gate.{key[1]}'}
    return set()


GATE_ALIASES = {'numqi.gate._internal.X': 'X', 'numqi.gate._internal.Y': 'Y', 'numqi.gate._internal.Z': 'Z',
                'numqi.gate._internal.H': 'H', 'numqi.gate._internal.S': 'S', 'numqi.gate._internal.I': 'I',
                'numqi.gate._internal.CNOT': 'CNOT', 'numqi.gate._internal.CZ': 'CZ', 'numqi.gate._internal.T': 'T'}


def _canon_gate(proj, r, expr):
    """Canonical `numqi.gate.<NAME>` for an expression that names a gate constant of numqi.gate."""
    parts = dotted_parts(expr)
    if parts and len(parts) >= 2:
        # verify it resolves inside numqi.gate
        root = proj.resolve_parts(proj.mod(MOD), parts[:-1])
        if root.kind == 'module' and root.qual in ('numqi.gate', 'numqi.gate._internal'):
            return f'numqi.gate.{parts[-1]}'
        if root.kind == 'value' or root.kind == 'unknown':
            pass
    return f'?{ast.unparse(expr)}'


def _tableau_value(proj, m, v):
    parts = dotted_parts(v)
    if parts:
        return _canon_gate(proj, None, v)
    # np.block([[I, I*0], [I*0, G]])
    if isinstance(v, ast.Call):
        r = resolve_callee(proj, m, v)
        if r.kind == 'external' and r.qual == 'numpy.block' and v.args and isinstance(v.args[0], ast.List):
            rows = v.args[0].elts
            if len(rows) == 2 and all(isinstance(x, ast.List) and len(x.elts) == 2 for x in rows):
                a, b = rows[0].elts
                c, d = rows[1].elts
                if _canon_gate(proj, None, a) == 'numqi.gate.I' and _is_zero_block(proj, b) and _is_zero_block(proj, c):
                    g = _canon_gate(proj, None, d)
                    if g.startswith('numqi.gate.'):
                        return f'block(I,{g.rsplit(".", 1)[1]})'
                return f'block(?{ast.unparse(v.args[0])})'
    return None


def _is_zero_block(proj, e):
    return isinstance(e, ast.BinOp) and isinstance(e.op, ast.Mult) and \
        ((isinstance(e.right, ast.Constant) and e.right.value == 0) or (isinstance(e.left, ast.Constant) and e.left.value == 0))


def h3(proj, rep):
    rep.rule('H3', RULE_H3)
    m = proj.mod(MOD)
    f = proj.func(f'{CLS}.to_symplectic_form')
    rep.touch(m)
    loops = [n for n in ast.walk(f.node) if isinstance(n, ast.For) and 'gate_index_list' in ast.unparse(n.iter)]
    if len(loops) != 1:
        rep.undecided('H3', f.qual, f'{len(loops)} loops over gate_index_list (expected 1)', m, f.node, text='loops')
        return 0
    lp = loops[0]
    it = lp.iter
    rev = None
    if isinstance(it, ast.Subscript) and isinstance(it.slice, ast.Slice) and it.slice.lower is None and it.slice.upper is None \
            and isinstance(it.slice.step, ast.UnaryOp) and isinstance(it.slice.step.operand, ast.Constant) and it.slice.step.operand.value == 1:
        rev = True
    elif isinstance(it, ast.Call) and isinstance(it.func, ast.Name) and it.func.id == 'reversed':
        rev = True
    elif isinstance(it, ast.Attribute):
        rev = False
    # dagger source
    dag = None
    acc_first = None
    tab_name = None
    for n in ast.walk(lp):
        if isinstance(n, ast.Call):
            r = resolve_callee(proj, m, n)
            if r.kind == 'func' and r.qual == f'{MOD}._basic_clifford_dagger_f2':
                dag = True
            if r.kind == 'func' and r.qual == f'{MOD}.clifford_multiply' and len(n.args) == 4:
                # which pair is the accumulator? the names assigned from the call result
                st = n
                while st is not None and not isinstance(st, ast.Assign):
                    st = getattr(st, '_parent', None)
                if st is not None and isinstance(st.targets[0], ast.Tuple):
                    acc = [e.id for e in st.targets[0].elts if isinstance(e, ast.Name)]
                    a0 = [a.id for a in n.args[:2] if isinstance(a, ast.Name)]
                    a1 = [a.id for a in n.args[2:] if isinstance(a, ast.Name)]
                    if a0 == acc:
                        acc_first = True
                    elif a1 == acc:
                        acc_first = False
    # the dagger getter must apply .T.conj() / .conj().T to the table entry
    g = proj.func(f'{MOD}._basic_clifford_dagger_f2')
    src = ast.unparse(g.node)
    dag_impl = ('.T.conj()' in src) or ('.conj().T' in src)
    if rev is None or dag is None or acc_first is None:
        rep.undecided('H3', f.qual, f'traversal/accumulation idiom not recognised (reversed={rev}, dagger={dag}, acc_first={acc_first})',
                      m, lp, text='order parity')
        return 0
    ok = dag and dag_impl and (rev == acc_first)
    if ok:
        rep.ok('H3', f.qual, f'dagger table, reversed={rev}, accumulate-as-first-argument={acc_first}: composes to U^dagger P U', m, lp, text='order parity')
    else:
        rep.violation('H3', f.qual, f'composition order: reversed traversal={rev}, accumulator passed first={acc_first}, dagger table={dag and dag_impl}: '
                      f'with clifford_multiply(x,y)=y o x this is not U^dagger P U for circuits of two or more non-commuting gates', m, lp, text='order parity')
    # scatter index
    nidx = 0
    for n in ast.walk(lp):
        if isinstance(n, ast.Assign) and isinstance(n.value, ast.Call) and n.value.args and isinstance(n.value.args[0], ast.List):
            els = n.value.args[0].elts
            pat = [_idx_pat(e) for e in els]
            if len(els) == 2:
                nidx += 1
                if pat == [(1, False), (1, True)]:
                    rep.ok('H3', f.qual, 'single-qubit scatter [i, i+n]', m, n)
                elif None not in pat:
                    rep.violation('H3', f.qual, f'single-qubit scatter index {ast.unparse(n.value.args[0])} is not [gate[1], gate[1]+n]', m, n)
            elif len(els) == 4:
                nidx += 1
                if pat == [(1, False), (2, False), (1, True), (2, True)]:
                    rep.ok('H3', f.qual, 'two-qubit scatter [i0, i1, i0+n, i1+n]', m, n)
                elif None not in pat:
                    rep.violation('H3', f.qual, f'two-qubit scatter index {ast.unparse(n.value.args[0])} is not [gate[1], gate[2], gate[1]+n, gate[2]+n]', m, n)
    # index dtype: positions up to 2n-1 are added to num_qubit: a narrow integer dtype wraps silently for large registers
    narrow = [n for n in ast.walk(lp) if isinstance(n, ast.Call) and any(k.arg == 'dtype' and ast.unparse(k.value).split('.')[-1] in ('uint8', 'int8', 'uint16', 'int16')
              for k in n.keywords) and any(isinstance(x, ast.Name) and x.id == 'gate' for x in ast.walk(n))]
    extra = 0
    if narrow:
        rep.violation('H3', f.qual, f'`{ast.unparse(narrow[0])[:70]}`: the qubit positions are held in a narrow integer dtype; `+ num_qubit` wraps modulo 256 without '
                      f'warning for registers of 129 qubits or more, so the gate tableau is scattered into the wrong rows and columns', m, narrow[0])
        extra += 1
    # the embedding is unconditional: every path of the loop body scatters the gate tableau through `index`
    scat = [n for n in ast.walk(lp) if isinstance(n, ast.Assign) and isinstance(n.targets[0], ast.Subscript) and 'index' in ast.unparse(n.targets[0].slice)]
    if scat:
        extra += 1
        cond = None
        for n in scat:
            par = n._parent
            if isinstance(par, ast.If) and par is not lp:
                other = par.orelse if n in par.body else par.body
                if other and not any(isinstance(o, ast.Assign) and isinstance(o.targets[0], ast.Subscript) and 'index' in ast.unparse(o.targets[0].slice) for o in other):
                    cond = par
        if cond is not None:
            rep.violation('H3', f.qual, f'the scatter through `index` is skipped on the path `if {ast.unparse(cond.test)[:50]}`: `index` also encodes the ORDER of the gate\'s '
                          f'qubits, so using the gate tableau unembedded treats CX(1,0) as CX(0,1)', m, cond)
        else:
            rep.ok('H3', f.qual, 'the gate tableau is always embedded through `index`', m, scat[0])
    return 1 + nidx + extra


def _idx_pat(e):
    if isinstance(e, ast.BinOp) and isinstance(e.op, ast.Add):
        a = _gate_sub(e.left)
        if a is not None and isinstance(e.right, ast.Name):
            return (a, True)
        return None
    a = _gate_sub(e)
    if a is not None:
        return (a, False)
    return None


# ------------------------------------------------------------------------------------------------ H4
RULE_H4 = ('H4: a gate recorder records the history exactly: on every call it appends one (key, indices...) entry.  The only other '
           'admissible mutation is the cancellation idiom (pop the last entry when it equals the new one), and then every key the '
           'recorder factory is instantiated with must be an involution (G.G proportional to I, by literal evaluation of the tableau '
           'table) - cancelling two S gates would drop a Z.')


def h4(proj, rep):
    from .typestate import class_functions, MUTATING_METHODS, _self_attr
    rep.rule('H4', RULE_H4)
    m = proj.mod(MOD)
    ci = proj.cls(CLS)
    ge = GateEval(proj)
    bd = m.bindings.get('_basic_clifford_dict')
    tab = {}
    if bd and bd[0] == 'assign' and isinstance(bd[1], ast.Dict):
        tab = {k.value: v for k, v in zip(bd[1].keys, bd[1].values) if isinstance(k, ast.Constant)}
    # keys per factory
    keys_of = {}
    for attr, val in ci.attr_assigns.items():
        if isinstance(val, ast.Call) and val.args and isinstance(val.args[0], ast.Constant):
            r = resolve_callee(proj, m, val)
            if r.kind == 'func':
                keys_of.setdefault(r.qual, []).append(val.args[0].value)
    n = 0
    seen = set()
    for name, fn, selfname, how, mod in class_functions(proj, ci):
        if not how.startswith('factory') or id(fn) in seen:
            continue
        seen.add(id(fn))
        fq = how.split(' ', 1)[1]
        appends, others = [], []
        for c in ast.walk(fn):
            if isinstance(c, ast.Call) and isinstance(c.func, ast.Attribute) and _self_attr(c.func.value, selfname) == 'gate_index_list':
                if c.func.attr == 'append':
                    appends.append(c)
                elif c.func.attr in MUTATING_METHODS:
                    others.append(c)
        n += 1
        construct = f'{fq}'
        if not appends:
            rep.violation('H4', construct, 'recorder never appends to gate_index_list', mod, fn, text=f'{fq} appends')
            continue
        if not others:
            rep.ok('H4', construct, 'recorder only appends', mod, fn, text=f'{fq} appends')
            continue
        pops = [c for c in others if c.func.attr == 'pop' and (not c.args or ast.unparse(c.args[0]) == '-1')]
        if len(pops) != len(others):
            rep.undecided('H4', construct, f'recorder mutates the history with {[c.func.attr for c in others]}', mod, others[0])
            continue
        bad = []
        for k in keys_of.get(fq, []):
            if k not in tab:
                continue
            try:
                g = ge.value(m, tab[k])
            except NotLiteral:
                bad = None
                break
            sq = g @ g
            ph = sq[0, 0]
            if abs(abs(ph) - 1) > 1e-9 or np.abs(sq - ph * np.eye(sq.shape[0])).max() > 1e-9:
                bad.append(k)
        if bad is None:
            rep.undecided('H4', construct, 'cancellation idiom with non-literal gate matrices', mod, pops[0])
        elif bad:
            rep.violation('H4', construct, f'recorder cancels two identical adjacent gates (pop) but gate(s) {bad} recorded through this factory are '
                          f'not involutions (G.G is not proportional to I): the history loses an operator', mod, pops[0])
        else:
            rep.ok('H4', construct, f'cancellation of identical adjacent gates; all keys {keys_of.get(fq)} are involutions', mod, pops[0])
    return n



# ------------------------------------------------------------------------------------------------ H7
RULE_H7 = ('H7: CliffordCircuit.num_qubit is one more than the largest qubit index over ALL index slots of ALL recorded gates (`for y in x[1:]`): looking only at the '
           'last slot misses a control qubit that is the highest qubit of the history (CX(1,0)), so the tableau is sized too small.')


def h7(proj, rep):
    rep.rule('H7', RULE_H7)
    f = proj.func(f'{CLS}.num_qubit')
    m = f.module
    r = next((s for s in ast.walk(f.node) if isinstance(s, ast.Assign) and 'max(' in ast.unparse(s.value)), None)
    if r is None:
        rep.undecided('H7', f.qual, 'max over the recorded indices not found', m, f.node, text='num_qubit')
        return 0
    t = ast.unparse(r.value).replace(' ', '')
    if 'foryinx[1:]' in t and 'forxinself.gate_index_list' in t and t.endswith('+1'):
        rep.ok('H7', f.qual, 'max over every index slot of every gate, plus one', m, r)
    elif 'x[-1]' in t or 'x[1]' in t or 'x[2]' in t:
        rep.violation('H7', f.qual, f'`{t[:70]}` inspects a single index slot per gate: a two-qubit gate whose other qubit is the highest of the history (e.g. CX(1,0)) gives a '
                      f'register that is too small', m, r)
    else:
        rep.undecided('H7', f.qual, f'`{t[:60]}` not recognised', m, r)
        return 0
    return 1


# ------------------------------------------------------------------------------------------------ H8
RULE_H8 = ('H8: clifford_array_to_F2 converts between two phase conventions: PauliOperator.F2 stores i^(2 b0 + b1) X^x Z^z, the tableau phase r stands in front of '
           'i^(x.z) X^x Z^z. For a Hermitian image (b1 = x.z mod 2) this gives r = b0 + ((x.z) mod 4)//2 (mod 2): both phase entries (image of X_k and of Z_k) '
           'must add the Y-pair correction ((x.z) % 4)//2 of the SAME image to its sign bit b0. Taking b0 alone is wrong for images with two or three Y factors.')


def h8(proj, rep):
    rep.rule('H8', RULE_H8)
    f = proj.func(f'{MOD}.clifford_array_to_F2')
    m = f.module
    n = 0
    for s in ast.walk(f.node):
        if not (isinstance(s, ast.Assign) and isinstance(s.targets[0], ast.Subscript) and isinstance(s.targets[0].value, ast.Name) and s.targets[0].value.id == 'cli_r'):
            continue
        n += 1
        t = ast.unparse(s.value).replace(' ', '').replace('(N0+2)', 'N0+2')
        names = {x.id for x in ast.walk(s.value) if isinstance(x, ast.Name) and x.id.endswith('bit')}
        if len(names) != 1:
            rep.undecided('H8', f.qual, f'`{t[:60]}`: image variable not identified', m, s)
            n -= 1
            continue
        b = names.pop()
        want = f'({b}[0]+np.dot({b}[2:N0+2],{b}[N0+2:])%4//2)%2'
        if t == want:
            rep.ok('H8', f.qual, f'r = {b}[0] + ((x.z) % 4)//2 (mod 2) of the same image', m, s)
        elif t == f'{b}[0]':
            rep.violation('H8', f.qual, f'`{ast.unparse(s)[:60]}` takes the F2 sign bit as the tableau phase: the two conventions differ by (-1)^(((x.z) % 4)//2), so every generator '
                          f'image with two or three Y factors (e.g. X1 -> Y1 Y2 under (S x S) CNOT) gets the wrong sign', m, s)
        else:
            rep.undecided('H8', f.qual, f'`{t[:70]}` not the recognised conversion', m, s)
            n -= 1
    rep.count('H8.phase_conversions', n)
    return n


# ------------------------------------------------------------------------------------------------ H9
RULE_H9 = ('H9: the ordering-phase correction of clifford_multiply sums, over pairs j < k of rows of Sx, the product (Z-half of column j of Sy) . (X-half of '
           'column k of Sy): in every formulation of that term (the five-operand einsum, or `triu(A.T @ B, k=1)`) the Z-half `Sy[N0:]` carries the FIRST index '
           'of the strict upper triangle and the X-half `Sy[:N0]` the second. With the halves exchanged the transposed pair matrix is triangularised and the '
           'sign bits of the product are wrong.')


def h9(proj, rep):
    rep.rule('H9', RULE_H9)
    fi = proj.func(f'{MOD}.clifford_multiply')
    m = fi.module
    rep.touch(m)
    n = 0

    def half(e):
        """'Z' for Sy[N0:], 'X' for Sy[:N0], None otherwise"""
        if isinstance(e, ast.Subscript) and isinstance(e.value, ast.Name) and e.value.id == 'Sy' and isinstance(e.slice, ast.Slice):
            if e.slice.lower is not None and e.slice.upper is None and ast.unparse(e.slice.lower) == 'N0':
                return 'Z'
            if e.slice.lower is None and e.slice.upper is not None and ast.unparse(e.slice.upper) == 'N0':
                return 'X'
        return None
    triu_names = {s.targets[0].id for s in ast.walk(fi.node) if isinstance(s, ast.Assign) and isinstance(s.targets[0], ast.Name) and isinstance(s.value, ast.Call)
                  and ast.unparse(s.value.func).endswith('triu') and 'ones' in ast.unparse(s.value)}
    for c in ast.walk(fi.node):
        if not isinstance(c, ast.Call):
            continue
        f = ast.unparse(c.func)
        if f.endswith('einsum') and len(c.args) >= 10:
            ops = [(c.args[i], c.args[i + 1]) for i in range(0, len(c.args) - 1, 2)]
            tri = [(o, l) for o, l in ops if isinstance(o, ast.Name) and o.id in triu_names and isinstance(l, ast.List) and len(l.elts) == 2]
            hz = [(o, l) for o, l in ops if half(o) == 'Z' and isinstance(l, ast.List) and len(l.elts) == 2]
            hx = [(o, l) for o, l in ops if half(o) == 'X' and isinstance(l, ast.List) and len(l.elts) == 2]
            if len(tri) == 1 and len(hz) == 1 and len(hx) == 1:
                n += 1
                j, k = [ast.unparse(x) for x in tri[0][1].elts]
                zj, xk = ast.unparse(hz[0][1].elts[1]), ast.unparse(hx[0][1].elts[1])
                if (zj, xk) == (j, k) and ast.unparse(hz[0][1].elts[0]) == ast.unparse(hx[0][1].elts[0]):
                    rep.ok('H9', fi.qual, f'einsum: Sy[N0:] on the first triangle index {j}, Sy[:N0] on the second {k}', m, c)
                elif (zj, xk) == (k, j):
                    rep.violation('H9', fi.qual, f'`{ast.unparse(c)[:90]}`: the Z-half Sy[N0:] carries the SECOND triangle index and the X-half the first: the transposed pair '
                                  f'matrix is triangularised', m, c)
                else:
                    n -= 1
                    rep.undecided('H9', fi.qual, f'einsum legs of the Sy halves not recognised: {zj},{xk} vs triangle {j},{k}', m, c)
        if f.endswith('triu') and c.args and isinstance(c.args[0], ast.BinOp) and isinstance(c.args[0].op, ast.MatMult):
            mm = c.args[0]
            l, r = mm.left, mm.right
            lt = l.value if isinstance(l, ast.Attribute) and l.attr == 'T' else None
            if lt is not None and half(lt) and half(r):
                n += 1
                if (half(lt), half(r)) == ('Z', 'X'):
                    rep.ok('H9', fi.qual, 'triu(Sy[N0:].T @ Sy[:N0]): Z-half on the first triangle index', m, c)
                else:
                    rep.violation('H9', fi.qual, f'`{ast.unparse(c)[:70]}`: the pair matrix is (X-half).T @ (Z-half), the transpose of the one the ordering correction needs '
                                  f'(Sy[N0:].T @ Sy[:N0]): the strict upper triangle keeps the wrong pairs', m, c)
    if n == 0:
        rep.undecided('H9', fi.qual, 'ordering-phase term not found in a known formulation', m, fi.node, text='ordering phase term')
    rep.count('H9.formulations', n)
    return n
