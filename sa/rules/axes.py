"""X1 — axis-role typing of literal index plumbing in the channel representations (C12).

A tensor type is a list of axes; an axis is a tuple of atomic labels merged in C order, e.g. [('k',), ('in','out')].
Atomic labels: k (Kraus term), in / out (ket side), in' / out' (bra side).  Sizes: in, in' -> din ; out, out' -> dout ; k -> N.
The declared conventions are read from the module's own comments:
    kraus (k, out, in)      choi (in,out | in',out')      super (out,out' | in,in')      rho (in | in')
reshape splits / merges along matching symbolic size products; literal transpose / .T / einsum index lists / @ / kron /
.conj() are interpreted on labels (conj flips ket<->bra).  Obligation per function: the returned tensor has the
declared type - for symbolic, unequal din and dout.
"""
import ast
from ..poly import Poly, SymEval, UNK
from ..callgraph import resolve_callee

RULE_X1 = ('X1: every conversion / application routine of numqi.channel returns a tensor of its declared axis type (kraus (k,out,in); '
           'choi (in,out|in\',out\'); super (out,out\'|in,in\'); rho (in|in\')), interpreting reshape, literal transpose, .T, .conj(), '
           '@, kron and literal einsum lists on axis labels with symbolic sizes din != dout.')

SIZE = {'k': 'N', 'in': 'din', 'out': 'dout', "in'": 'din', "out'": 'dout', 'e': 'E'}
FLIP = {'in': "in'", "in'": 'in', 'out': "out'", "out'": 'out', 'k': 'k', 'e': 'e'}


class TypeErr(Exception):
    pass


def size_of(axis):
    p = Poly.const(1)
    for a in axis:
        p = p * Poly.var(SIZE[a.rstrip('*')] if a.rstrip('*') in SIZE else a)
    return p


def fmt(t):
    return '(' + ', '.join('*'.join(a) for a in t) + ')'


class AxisEval:
    def __init__(self, proj, fi, env_types, size_names):
        self.proj, self.fi, self.m = proj, fi, fi.module
        self.types = dict(env_types)        # name -> type (list of axes)
        self.se = SymEval({k: Poly.var(v) for k, v in size_names.items()})
        self.size_names = size_names

    # ---- sizes
    def size_expr(self, e):
        """Poly for a size expression; op.shape[i] handled via known types; -1 -> None."""
        if isinstance(e, ast.UnaryOp) and isinstance(e.op, ast.USub) and isinstance(e.operand, ast.Constant) and e.operand.value == 1:
            return None
        if isinstance(e, ast.Subscript) and isinstance(e.value, ast.Attribute) and e.value.attr == 'shape' and isinstance(e.value.value, ast.Name) \
                and isinstance(e.slice, ast.Constant):
            t = self.types.get(e.value.value.id)
            if t is not None:
                return size_of(t[e.slice.value])
        v = self.se.ev(e)
        if v is UNK:
            raise TypeErr(f'size `{ast.unparse(e)}` not derivable')
        return Poly._coerce(v)

    def reshape(self, t, size_nodes):
        atoms = [a for ax in t for a in ax]
        want = [self.size_expr(s) for s in size_nodes]
        total = Poly.const(1)
        for a in atoms:
            total = total * size_of((a,))
        out = []
        i = 0
        for j, w in enumerate(want):
            if w is None:
                # -1: everything not consumed by the other requested sizes
                rest = Poly.const(1)
                for w2 in want[j + 1:]:
                    if w2 is None:
                        raise TypeErr('two -1 in reshape')
                    rest = rest * w2
                # consume atoms until the product of the remaining atoms equals `rest`
                grp = []
                while True:
                    rem = Poly.const(1)
                    for a in atoms[i:]:
                        rem = rem * size_of((a,))
                    if rem == rest:
                        break
                    if i >= len(atoms):
                        raise TypeErr('reshape -1 does not divide')
                    grp.append(atoms[i])
                    i += 1
                out.append(tuple(grp))
                continue
            if w.is_const() and w.const_value() == 1:
                out.append(())
                continue
            grp = []
            prod = Poly.const(1)
            while prod != w:
                if i >= len(atoms):
                    raise TypeErr(f'reshape to size {w} does not align with axes {fmt(t)}')
                grp.append(atoms[i])
                prod = prod * size_of((atoms[i],))
                i += 1
                if len(grp) > 6:
                    raise TypeErr(f'reshape to size {w} does not align with axes {fmt(t)}')
            out.append(tuple(grp))
        if i != len(atoms):
            raise TypeErr(f'reshape drops axes of {fmt(t)}')
        return out

    # ---- expressions
    def ev(self, e):
        if isinstance(e, ast.Name):
            if e.id in self.types:
                return self.types[e.id]
            raise TypeErr(f'`{e.id}` has no axis type')
        if isinstance(e, ast.Attribute):
            if e.attr == 'T':
                return list(reversed(self.ev(e.value)))
            if e.attr in ('real',):
                return self.ev(e.value)
            raise TypeErr(f'attribute .{e.attr}')
        if isinstance(e, ast.Call):
            f = e.func
            if isinstance(f, ast.Attribute):
                if f.attr in ('conj', 'conjugate'):
                    return [tuple(FLIP[a] for a in ax) for ax in self.ev(f.value)]
                if f.attr in ('reshape', 'view'):
                    t = self.ev(f.value)
                    args = e.args[0].elts if len(e.args) == 1 and isinstance(e.args[0], (ast.Tuple, ast.List)) else e.args
                    return self.reshape(t, list(args))
                if f.attr == 'transpose':
                    t = self.ev(f.value)
                    vals = [a.value for a in e.args if isinstance(a, ast.Constant)]
                    if len(vals) != len(e.args):
                        raise TypeErr('non-literal transpose')
                    if len(vals) == 2 and len(t) != 2:      # torch two-axis swap
                        t = list(t)
                        t[vals[0]], t[vals[1]] = t[vals[1]], t[vals[0]]
                        return t
                    if sorted(vals) != list(range(len(t))):
                        raise TypeErr(f'transpose{tuple(vals)} on a rank-{len(t)} tensor {fmt(t)}')
                    return [t[i] for i in vals]
                if f.attr in ('copy', 'astype'):
                    return self.ev(f.value)
            r = resolve_callee(self.proj, self.m, e)
            q = r.qual if r.kind == 'external' else None
            if q == 'numpy.kron' and len(e.args) == 2:
                a, b = self.ev(e.args[0]), self.ev(e.args[1])
                if len(a) != len(b):
                    raise TypeErr('kron rank mismatch')
                return [x + y for x, y in zip(a, b)]
            if q in ('numpy.einsum', 'torch.einsum', 'opt_einsum.contract'):
                return self.einsum(e)
            if q in ('numpy.tensordot', 'torch.tensordot') and len(e.args) >= 2:
                return self.tensordot(e)
            if q in ('numpy.sqrt',):
                return self.ev(e.args[0])
            raise TypeErr(f'call `{ast.unparse(e)[:40]}`')
        if isinstance(e, ast.BinOp):
            if isinstance(e.op, ast.MatMult):
                a, b = self.ev(e.left), self.ev(e.right)
                if not a or not b:
                    raise TypeErr('matmul of scalar')
                ca, cb = a[-1], (b[0] if len(b) == 1 else b[-2] if len(b) > 2 else b[0])
                if size_of(ca) != size_of(cb):
                    raise TypeErr(f'matmul contracts {"*".join(ca)} with {"*".join(cb)} (different sizes)')
                self._contract_check(ca, cb, e)
                if len(b) == 1:
                    return a[:-1]
                return a[:-1] + b[1:]
            if isinstance(e.op, (ast.Mult, ast.Add, ast.Sub, ast.Div)):
                # elementwise with broadcasting: type of the array operand
                for side in (e.left, e.right):
                    try:
                        return self.ev(side)
                    except TypeErr:
                        continue
                raise TypeErr('elementwise operands untyped')
        if isinstance(e, ast.Subscript):
            t = self.ev(e.value)
            sl = e.slice
            if isinstance(sl, ast.Tuple):
                out = []
                for ax, s in zip(t, sl.elts):
                    if isinstance(s, ast.Slice):
                        out.append(ax)
                return out + t[len(sl.elts):]
            if isinstance(sl, ast.Slice):
                return t
            return t[1:]
        raise TypeErr(f'expression `{ast.unparse(e)[:40]}`')

    def _contract_check(self, ca, cb, node):
        """Contracted axes must carry the same atomic roles up to ket/bra (in with in', in*out with in'*out' ...)."""
        if tuple(ca) != tuple(cb):
            raise TypeErr(f'contraction pairs axis {"*".join(ca)} with axis {"*".join(cb)}: different roles (ket/bra or in/out mismatch)')

    def einsum(self, e):
        args = list(e.args)
        ops = []
        out_idx = None
        i = 0
        while i < len(args):
            if i + 1 < len(args) and isinstance(args[i + 1], ast.List) and all(isinstance(x, ast.Constant) for x in args[i + 1].elts):
                ops.append((args[i], [x.value for x in args[i + 1].elts]))
                i += 2
            elif isinstance(args[i], ast.List) and all(isinstance(x, ast.Constant) for x in args[i].elts):
                out_idx = [x.value for x in args[i].elts]
                i += 1
            else:
                raise TypeErr('einsum with non-literal index lists')
        if out_idx is None:
            raise TypeErr('einsum without output list')
        label = {}
        for opn, idx in ops:
            t = self.ev(opn)
            if len(t) != len(idx):
                raise TypeErr(f'einsum operand `{ast.unparse(opn)[:30]}` has rank {len(t)} but {len(idx)} indices')
            for ax, ix in zip(t, idx):
                if ix in label:
                    if size_of(label[ix]) != size_of(ax):
                        raise TypeErr(f'einsum index {ix} ties {"*".join(label[ix])} to {"*".join(ax)} (different sizes)')
                    self._contract_check(label[ix], ax, e)
                else:
                    label[ix] = ax
        return [label[ix] for ix in out_idx]


def _tensordot(self, e):
    a, b = self.ev(e.args[0]), self.ev(e.args[1])
    dims = next((k.value for k in e.keywords if k.arg in ('dims', 'axes')), e.args[2] if len(e.args) > 2 else None)
    if not (isinstance(dims, (ast.Tuple, ast.List)) and len(dims.elts) == 2 and all(isinstance(x, (ast.Tuple, ast.List)) for x in dims.elts)):
        raise TypeErr('tensordot with non-literal axes')
    la = [x.value for x in dims.elts[0].elts]
    lb = [x.value for x in dims.elts[1].elts]
    if len(la) != len(lb):
        raise TypeErr('tensordot axes of different length')
    for i, j in zip(la, lb):
        if size_of(a[i]) != size_of(b[j]):
            raise TypeErr(f'tensordot pairs axis {i} ({"*".join(a[i])}) with axis {j} ({"*".join(b[j])}): different sizes')
        self._contract_check(a[i], b[j], e)
    return [ax for k, ax in enumerate(a) if k not in la] + [ax for k, ax in enumerate(b) if k not in lb]


AxisEval.tensordot = _tensordot


def _strip_primes_equal(a, b):
    return a == b


DECL = {
    # function -> (param types, size-name aliases, expected return type)
    'kraus_op_to_choi_op': ({'op': [('k',), ('out',), ('in',)]}, {}, [('in', 'out'), ("in'", "out'")]),
    'kraus_op_to_super_op': ({'x': [('out',), ('in',)]}, {}, [('out', "out'"), ('in', "in'")]),
    'choi_op_to_kraus_op': ({'op': [('in', 'out'), ("in'", "out'")], 'EVC': [('in', 'out'), ('e',)], 'EVL': [('e',)]},
                            {'dim_in': 'din', 'dim_out': 'dout'}, [('e',), ('out',), ('in',)]),
    'choi_op_to_super_op': ({'op': [('in', 'out'), ("in'", "out'")]}, {'dim_in': 'din', 'dim_out': 'dout'}, [('out', "out'"), ('in', "in'")]),
    'super_op_to_choi_op': ({'op': [('out', "out'"), ('in', "in'")]}, {'dim_in': 'din', 'dim_out': 'dout'}, [('in', 'out'), ("in'", "out'")]),
    'apply_choi_op': ({'op': [('in', 'out'), ("in'", "out'")], 'rho': [('in',), ("in'",)]}, {'din': 'din', 'dout': 'dout'}, [('out',), ("out'",)]),
    'apply_super_op': ({'op': [('out', "out'"), ('in', "in'")], 'rho': [('in',), ("in'",)]}, {'dim0': 'din', 'dim1': 'dout'}, [('out',), ("out'",)]),
    'apply_kraus_op': ({'x': [('out',), ('in',)], 'rho': [('in',), ("in'",)]}, {}, [('out',), ("out'",)]),
}


def x1(proj, rep):
    rep.rule('X1', RULE_X1)
    m = proj.mod('numqi.channel._internal')
    rep.touch(m)
    n = 0
    for fname, (ptypes, sizes, expect) in DECL.items():
        fi = proj.func(f'numqi.channel._internal.{fname}')
        # return expressions: `ret` assignments (every arm) or the summand of sum(... for x in op)
        rets = []
        for s in ast.walk(fi.node):
            if isinstance(s, ast.Assign) and isinstance(s.targets[0], ast.Name) and s.targets[0].id == 'ret':
                rets.append((s.value, s))
        for value, st in rets:
            n += 1
            construct = f'{fi.qual}[line {st.lineno - fi.node.lineno}]'
            ae = AxisEval(proj, fi, ptypes, sizes)
            # intermediate names assigned before (tmp0 = ...), per arm
            try:
                for s2 in _preceding_assigns(fi.node, st):
                    if isinstance(s2, tuple):          # (name, [values in the arms of a preceding if/else])
                        nm, vals = s2
                        ts = []
                        for v2 in vals:
                            try:
                                ts.append(ae.ev(v2))
                            except TypeErr:
                                ts.append(None)
                        if ts and all(t is not None for t in ts):
                            if all(t == ts[0] for t in ts):
                                ae.types[nm] = ts[0]
                            else:
                                raise TypeErr(f'backend arms give `{nm}` different axis types: ' + ' vs '.join(fmt(t) for t in ts) + ' (different roles)')
                        continue
                    nm = s2.targets[0].id
                    if nm in ('ret',) or nm in ptypes:
                        continue
                    try:
                        ae.types[nm] = ae.ev(s2.value)
                    except TypeErr:
                        pass
                v = value
                # sum(f(x) for x in op): type of the summand
                if isinstance(v, ast.Call) and isinstance(v.func, ast.Name) and v.func.id == 'sum' and v.args and isinstance(v.args[0], ast.GeneratorExp):
                    v = v.args[0].elt
                got = ae.ev(v)
                got = [ax for ax in got if ax != ()]
                if got == expect:
                    rep.ok('X1', construct, f'`{ast.unparse(value)[:70]}` : {fmt(got)}', m, st, text=f'{fname} returns {fmt(expect)}')
                else:
                    rep.violation('X1', construct, f'`{ast.unparse(value)[:80]}` has axis type {fmt(got)}, declared {fmt(expect)}: the index '
                                  f'convention is broken for dim_in != dim_out (or ket/bra swapped)', m, st, text=f'{fname} returns {fmt(expect)}')
            except TypeErr as ex:
                msg = str(ex)
                if 'different roles' in msg or 'different sizes' in msg or 'does not align' in msg or 'rank' in msg:
                    rep.violation('X1', construct, f'`{ast.unparse(value)[:80]}`: {msg}', m, st, text=f'{fname} returns {fmt(expect)}')
                else:
                    rep.undecided('X1', construct, f'not typable: {msg}', m, st, text=f'{fname} returns {fmt(expect)}')
    rep.count('X1.return_sites', n)
    return n


def _preceding_assigns(fn, stmt):
    """Name assignments that textually precede `stmt` and are on its path (same or enclosing blocks)."""
    out = []
    anc = set()
    p = stmt
    while p is not None:
        anc.add(id(p))
        p = getattr(p, '_parent', None)

    def visit(body):
        for s in body:
            if s is stmt:
                return True
            if isinstance(s, ast.Assign) and len(s.targets) == 1 and isinstance(s.targets[0], ast.Name):
                out.append(s)
            if isinstance(s, ast.If) and id(s) not in anc and s.orelse:
                arms = {}
                for body2 in (s.body, s.orelse):
                    for x in body2:
                        if isinstance(x, ast.Assign) and len(x.targets) == 1 and isinstance(x.targets[0], ast.Name):
                            arms.setdefault(x.targets[0].id, []).append(x.value)
                for nm, vals in arms.items():
                    if len(vals) == 2:
                        out.append((nm, vals))
            if id(s) in anc:
                for f in ('body', 'orelse'):
                    b = getattr(s, f, None)
                    if isinstance(b, list) and any(id(x) in anc for x in b):
                        if visit(b):
                            return True
        return False
    visit(fn.body)
    return out


# ------------------------------------------------------------------------------------------------ N2: built-in noise channels
RULE_TP = ('TP: every built-in noise channel is trace preserving for every rate: either its Kraus list is literally '
           '[sqrt(c_i) * U_i] with U_i a unitary numqi.gate constant / identity and sum_i c_i the constant polynomial 1 in the '
           'rate, or it is a literal matrix list whose entries are 0, 1 or sqrt(polynomial) and sum_i K_i^dagger K_i evaluates '
           'symbolically to the identity.')


def kraus_tp(proj, rep):
    from ..gateval import GateEval, NotLiteral
    import numpy as np
    rep.rule('TP', RULE_TP)
    m = proj.mod('numqi.channel._internal')
    ge = GateEval(proj)
    n = 0
    for q, fi in sorted(proj.funcs.items()):
        if fi.module is not m or not fi.name.endswith('_kraus_op') or not fi.name.startswith('hf_'):
            continue
        if len(fi.params) != 1:
            continue
        n += 1
        rate = fi.params[0]
        se = SymEval({rate: Poly.var('p')})
        ret = None
        for s in ast.walk(fi.node):
            if isinstance(s, ast.Assign) and isinstance(s.targets[0], ast.Name) and s.targets[0].id == 'ret':
                ret = s
        if ret is None:
            rep.undecided('TP', fi.qual, 'no `ret = ...` literal', m, fi.node, text=f'{fi.name} TP')
            continue
        call = ret.value
        lst = call.args[0] if isinstance(call, ast.Call) and call.args and isinstance(call.args[0], ast.List) else None
        if lst is None:
            rep.undecided('TP', fi.qual, 'Kraus list not literal', m, ret)
            continue
        # form A: [sqrt(c)*U, ...]
        total = Poly.const(0)
        formA = True
        for e in lst.elts:
            if isinstance(e, ast.BinOp) and isinstance(e.op, ast.Mult) and isinstance(e.left, ast.Call) and ast.unparse(e.left.func) in ('np.sqrt', 'numpy.sqrt'):
                c = se.ev(e.left.args[0])
                try:
                    U = np.asarray(ge.value(m, e.right))
                except NotLiteral:
                    formA = False
                    break
                if c is UNK or U.ndim != 2 or np.abs(U.conj().T @ U - np.eye(U.shape[0])).max() > 1e-12:
                    formA = False
                    break
                total = total + Poly._coerce(c)
            else:
                formA = False
                break
        if formA:
            if total == Poly.const(1):
                rep.ok('TP', fi.qual, f'sum of the {len(lst.elts)} weights is the constant polynomial 1; every operator is unitary', m, ret)
            else:
                rep.violation('TP', fi.qual, f'Kraus weights sum to {total} (as a polynomial in the rate), not to 1: the channel is not trace '
                              f'preserving', m, ret)
            continue
        # form B: literal matrices with entries 0 / 1 / sqrt(poly)
        try:
            mats = []
            for e in lst.elts:
                rows = []
                for r in e.elts:
                    row = []
                    for x in r.elts:
                        if isinstance(x, ast.Constant):
                            row.append(('c', Poly.const(x.value * x.value)) if x.value in (0, 1) else None)
                        elif isinstance(x, ast.Call) and ast.unparse(x.func) in ('np.sqrt', 'numpy.sqrt'):
                            v = se.ev(x.args[0])
                            row.append(('s', Poly._coerce(v)) if v is not UNK else None)
                        else:
                            row.append(None)
                    rows.append(row)
                mats.append(rows)
            if any(x is None for mm in mats for r in mm for x in r):
                raise ValueError('entry form')
            d_in = len(mats[0][0])
            ok = True
            why = ''
            for a in range(d_in):
                for b in range(d_in):
                    acc = Poly.const(0)
                    cross = False
                    for mm in mats:
                        for r in range(len(mm)):
                            x, y = mm[r][a], mm[r][b]
                            if not x[1].t or not y[1].t:
                                continue            # a zero factor
                            if x[1] == y[1]:
                                acc = acc + x[1]    # sqrt(P)*sqrt(P) = P ; 1*1 = 1
                            else:
                                cross = True
                    want = Poly.const(1 if a == b else 0)
                    if cross:
                        ok = False
                        why = f'entry ({a},{b}) contains a product of different radicals'
                    elif acc != want:
                        ok = False
                        why = f'(sum K^dagger K)[{a},{b}] = {acc}, expected {want}'
            if ok:
                rep.ok('TP', fi.qual, 'sum_i K_i^dagger K_i is the identity symbolically in the rate', m, ret)
            elif 'radicals' in why:
                rep.undecided('TP', fi.qual, why, m, ret)
            else:
                rep.violation('TP', fi.qual, why + ': not trace preserving', m, ret)
        except Exception as ex:
            rep.undecided('TP', fi.qual, f'Kraus literal not in a recognised form ({ex})', m, ret)
    return n
