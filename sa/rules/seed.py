"""S — seed dataflow (C10, C11, C07).

In every function that accepts a seed (parameter `seed`, `rng_or_seed`, `np_rng`, `rng`) every random draw reachable
in numqi's own code draws from a generator that is data-dependent on that parameter.
"""
import ast
from ..project import bind_call, dotted_parts, norm_text
from ..callgraph import resolve_callee, callee_funcinfo, enclosing_classdef
from ..flow import Forward

SEED_PARAMS = ('seed', 'rng_or_seed', 'np_rng', 'rng')
NORMALISERS = {'numqi.random._public.get_numpy_rng', 'numqi.random._public.get_random_rng'}

RULES = {
    'S2': 'S2: at every call site, inside a seed-accepting function, of a resolved numqi callee that itself has a seed '
          'slot, the slot is bound (positionally, by keyword or through a literal dict splat) to a value derived from '
          'the caller\'s seed (or to a constant); leaving it at None / default, or binding the generator to a different '
          'parameter while the seed slot stays default, is a leak of ambient randomness.',
    'S3': 'S3: no call in a seed-accepting function (or, transitively, in resolved seedless numqi helpers it calls) draws '
          'from process-global state: numpy.random.<dist>, numpy.random.default_rng()/RandomState() without argument, '
          'random.<fn>, random.Random() without argument, torch.rand*/randn*/randint/randperm/normal/bernoulli/multinomial '
          'without generator=.  Allowed: the normalisers get_numpy_rng/get_random_rng, and the `if seed is None` arm.',
    'S4': 'S4: the receiver of every generator-method draw (.normal/.uniform/.integers/.choice/.random/.randint/'
          '.permutation/.shuffle/.standard_normal/...) in a seed-accepting function is derived from the seed on every path.',
    'S6': 'S6: a seed parameter is never tested by truthiness (`if seed`, `seed or x`, `x if seed else y`, `not seed`): 0 is a '
          'legitimate seed and must not take the unseeded branch; only `is None` / isinstance tests are admissible.',
    'S5': 'S5: draw-bound convention: random.Random.randint(a,b) is inclusive, numpy Generator.integers(a,b) exclusive; '
          'a draw used to index a container L has bound len(L) (Generator) / len(L)-1 (Random); a mixed-radix digit for '
          'base x has bound x-1 (Random.randint) / x (Generator.integers, Random.randrange).',
}

DRAW_METHODS = {'normal', 'uniform', 'integers', 'choice', 'random', 'randint', 'permutation', 'shuffle',
                'standard_normal', 'exponential', 'randrange', 'sample', 'gauss', 'bytes', 'binomial', 'poisson',
                'beta', 'gamma', 'multinomial', 'dirichlet', 'standard_cauchy', 'laplace', 'permuted', 'getrandbits',
                'randn', 'rand'}
NP_RANDOM_OK = {'default_rng', 'Generator', 'RandomState', 'SeedSequence', 'PCG64', 'MT19937', 'Philox', 'SFC64',
                'BitGenerator', 'get_state', 'set_state', 'seed'}
PY_RANDOM_OK = {'Random', 'SystemRandom', 'seed', 'getstate', 'setstate'}
TORCH_DRAWS = {'rand', 'randn', 'randint', 'randperm', 'normal', 'bernoulli', 'multinomial', 'rand_like', 'randn_like',
               'randint_like', 'poisson'}


def seed_params(fi):
    return [p for p in fi.all_params if p in SEED_PARAMS]


def ambient_call(proj, m, call):
    """If `call` draws from process-global RNG state return a description."""
    r = resolve_callee(proj, m, call)
    if r.kind != 'external':
        return None
    q = r.qual
    parts = q.split('.')
    none_arg = (not call.args and not call.keywords) or \
        (len(call.args) == 1 and isinstance(call.args[0], ast.Constant) and call.args[0].value is None and not call.keywords)
    if q.startswith('numpy.random.') and len(parts) == 3:
        fn = parts[2]
        if fn in ('default_rng', 'RandomState', 'Generator'):
            return f'{q}() without a seed' if none_arg and fn != 'Generator' else None
        if fn in NP_RANDOM_OK:
            return None
        return f'{q} (global numpy RandomState)'
    if q.startswith('random.') and len(parts) == 2:
        fn = parts[1]
        if fn == 'Random':
            return 'random.Random() without a seed' if none_arg else None
        if fn in PY_RANDOM_OK:
            return None
        return f'{q} (global python Random)'
    if parts[0] == 'torch' and len(parts) == 2 and parts[1] in TORCH_DRAWS:
        if any(k.arg == 'generator' for k in call.keywords):
            return None
        return f'{q} without generator= (global torch RNG)'
    return None


class _Ctx:
    def __init__(self, proj, rep, fi, tainted_attrs, kinds=None):
        self.proj, self.rep, self.fi = proj, rep, fi
        self.m = fi.module
        self.tainted_attrs = tainted_attrs
        self.nsites = {'S2': 0, 'S3': 0, 'S4': 0}
        self.attr_writes = []     # (attr, tainted?, stmt)
        self.summary_cache = {}


class TaintFlow(Forward):
    """Must-taint: state[name] is True iff the name is derived from the seed on every path reaching here."""

    def __init__(self, ctx, guard_none=()):
        super().__init__()
        self.c = ctx
        self.none_guard_depth = 0

    def join_value(self, x, y):
        return True if (x and y) else None

    def join(self, a, b):
        r = super().join(a, b)
        if r is None:
            return None
        return {k: v for k, v in r.items() if v}

    # ---- taint of an expression
    def tainted(self, e, state):
        for n in ast.walk(e):
            if isinstance(n, ast.Name) and state.get(n.id):
                return True
            if isinstance(n, ast.Attribute) and isinstance(n.value, ast.Name) and n.value.id == 'self' \
                    and n.attr in self.c.tainted_attrs:
                return True
        return False

    def bind_target(self, target, value, state, stmt, report):
        st = dict(state)
        t = self.tainted(value, state)
        for n in ast.walk(target):
            if isinstance(n, ast.Name):
                if t:
                    st[n.id] = True
                else:
                    st.pop(n.id, None)
        return st

    def test(self, expr, state, report):
        if report:
            self.check_expr(expr, state)

    # ---- `if seed is None:` arms may fall back to ambient randomness
    def stmt(self, st, state, report, loop):
        if isinstance(st, ast.If) and self._is_none_test(st.test, state):
            self.test(st.test, state, report)
            self.none_guard_depth += 1
            a = self.block(st.body, dict(state), report, loop)
            self.none_guard_depth -= 1
            b = self.block(st.orelse, dict(state), report, loop) if st.orelse else dict(state)
            return self.join(a, b)
        return super().stmt(st, state, report, loop)

    def _is_none_test(self, t, state):
        return isinstance(t, ast.Compare) and len(t.ops) == 1 and isinstance(t.ops[0], ast.Is) \
            and isinstance(t.comparators[0], ast.Constant) and t.comparators[0].value is None \
            and isinstance(t.left, ast.Name) and t.left.id in SEED_PARAMS

    def transfer(self, stmt, state, report):
        c = self.c
        if isinstance(stmt, (ast.FunctionDef, ast.AsyncFunctionDef)):
            # closure: analyse its body with the captured state
            inner = dict(state)
            for a in stmt.args.posonlyargs + stmt.args.args + stmt.args.kwonlyargs:
                if a.arg in SEED_PARAMS:
                    inner[a.arg] = True
                else:
                    inner.pop(a.arg, None)
            sub = TaintFlow(c)
            sub.none_guard_depth = self.none_guard_depth
            if report:
                sub.block(stmt.body, inner, True, None)
            return state
        if report:
            for ch in ast.iter_child_nodes(stmt):
                if isinstance(ch, ast.expr):
                    self.check_expr(ch, state)
        st = dict(state)
        if isinstance(stmt, ast.Assign):
            t = self.tainted(stmt.value, state)
            for tg in stmt.targets:
                self._assign(tg, t, st, stmt)
        elif isinstance(stmt, ast.AnnAssign) and stmt.value is not None:
            self._assign(stmt.target, self.tainted(stmt.value, state), st, stmt)
        elif isinstance(stmt, ast.AugAssign):
            if self.tainted(stmt.value, state):
                self._assign(stmt.target, True, st, stmt)
        elif isinstance(stmt, ast.Delete):
            for tg in stmt.targets:
                if isinstance(tg, ast.Name):
                    st.pop(tg.id, None)
        return st

    def _assign(self, tg, t, st, stmt):
        if isinstance(tg, ast.Name):
            if t:
                st[tg.id] = True
            else:
                st.pop(tg.id, None)
        elif isinstance(tg, (ast.Tuple, ast.List)):
            for e in tg.elts:
                self._assign(e.value if isinstance(e, ast.Starred) else e, t, st, stmt)
        elif isinstance(tg, ast.Attribute) and isinstance(tg.value, ast.Name) and tg.value.id == 'self':
            self.c.attr_writes.append((tg.attr, t, stmt))

    # ---- obligations
    def check_expr(self, e, state):
        c = self.c
        for n in self._walk_no_lambda_def(e, state):
            if not isinstance(n, ast.Call):
                continue
            amb = ambient_call(c.proj, c.m, n)
            if amb is not None:
                c.nsites['S3'] += 1
                if self.none_guard_depth > 0 or c.fi.qual in NORMALISERS:
                    c.rep.ok('S3', c.fi.qual, f'{amb}: allowed fallback under `seed is None`', c.m, n)
                else:
                    c.rep.violation('S3', c.fi.qual, f'ambient randomness in a seed-accepting function: {amb}', c.m, n)
                continue
            r = resolve_callee(c.proj, c.m, n)
            # S4: generator-method draws
            if isinstance(n.func, ast.Attribute) and n.func.attr in DRAW_METHODS and r.kind in ('method', 'unknown'):
                recv = n.func.value
                if self._is_generatorish(recv, state):
                    c.nsites['S4'] += 1
                    if self.tainted(recv, state):
                        c.rep.ok('S4', c.fi.qual, f'draw `{ast.unparse(n.func)}` from seed-derived `{ast.unparse(recv)}`', c.m, n)
                    else:
                        c.rep.violation('S4', c.fi.qual, f'draw `{ast.unparse(n.func)}(...)`: receiver `{ast.unparse(recv)}` is '
                                        f'not derived from the seed on every path', c.m, n)
                continue
            # S2: nested seeded callee
            fi2, implicit = callee_funcinfo(c.proj, r)
            if fi2 is None and r.kind == 'localfunc':
                continue
            if fi2 is not None:
                sp = seed_params(fi2)
                if sp:
                    c.nsites['S2'] += 1
                    b = bind_call(n, fi2, skip_self=implicit, scope_func=c.fi.node)
                    self._check_slot(n, fi2, sp, b, state)
                elif r.kind == 'func':
                    leaks = ambient_summary(c.proj, fi2, c.summary_cache)
                    if leaks:
                        c.nsites['S3'] += 1
                        if self.none_guard_depth > 0:
                            continue
                        c.rep.violation('S3', c.fi.qual, f'calls `{fi2.qual}` which draws from ambient randomness: {leaks[0]}', c.m, n)

    def _check_slot(self, n, fi2, sp, b, state):
        c = self.c
        if b.star or b.dstar_unknown:
            c.rep.undecided('S2', c.fi.qual, f'call to {fi2.qual} uses */** that cannot be resolved', c.m, n)
            return
        for p in sp:
            a = b.args.get(p)
            if a is None:
                # is a tainted value bound to some *other* parameter?  (argument-selection defect)
                other = [k for k, v in b.args.items() if self.tainted(v, state)]
                extra = f'; the generator is bound to parameter `{other[0]}` instead' if other else ''
                c.rep.violation('S2', c.fi.qual, f'call to `{fi2.qual}` leaves its seed slot `{p}` at the default{extra}', c.m, n)
            elif self.tainted(a, state):
                c.rep.ok('S2', c.fi.qual, f'{fi2.qual}({p} <- {ast.unparse(a)}) seed-derived', c.m, n)
            elif isinstance(a, ast.Constant) and a.value is not None:
                c.rep.ok('S2', c.fi.qual, f'{fi2.qual}({p} <- constant {a.value!r})', c.m, n)
            elif isinstance(a, ast.Constant) and a.value is None:
                c.rep.violation('S2', c.fi.qual, f'call to `{fi2.qual}` binds its seed slot `{p}` to None', c.m, n)
            else:
                c.rep.violation('S2', c.fi.qual, f'call to `{fi2.qual}` binds its seed slot `{p}` to `{ast.unparse(a)}`, '
                                f'which is not derived from the caller\'s seed', c.m, n)

    def _is_generatorish(self, recv, state):
        """Receiver is a local name / self attribute (not a module): np_rng, rng, self.np_rng ..."""
        if isinstance(recv, ast.Name):
            r = self.c.proj.resolve_expr(self.c.m, recv)
            from ..callgraph import local_names, scope_chain
            for fn in [self.c.fi.node] + scope_chain(self.c.fi.node):
                if not isinstance(fn, ast.Lambda) and recv.id in local_names(fn):
                    return True
            return r.kind not in ('module', 'external', 'func', 'class')
        if isinstance(recv, ast.Attribute) and isinstance(recv.value, ast.Name) and recv.value.id == 'self':
            return 'rng' in recv.attr or recv.attr in self.c.tainted_attrs or 'random' in recv.attr
        return False

    def _walk_no_lambda_def(self, e, state):
        """Walk expression; lambdas are entered (closure semantics: free variables keep the current state)."""
        stack = [e]
        while stack:
            n = stack.pop()
            yield n
            stack.extend(ast.iter_child_nodes(n))


def ambient_summary(proj, fi, cache, depth=0):
    """Ambient draw sites reachable inside a seedless numqi helper (transitively, depth <= 3)."""
    if fi.qual in cache:
        return cache[fi.qual]
    cache[fi.qual] = []
    out = []
    if fi.qual in NORMALISERS:
        return out
    m = fi.module
    for n in ast.walk(fi.node):
        if not isinstance(n, ast.Call):
            continue
        amb = ambient_call(proj, m, n)
        if amb:
            out.append(f'{amb} at {m.relpath}:{n.lineno}')
            continue
        if depth >= 3:
            continue
        r = resolve_callee(proj, m, n)
        if r.kind == 'func':
            f2 = r.node
            sp = seed_params(f2)
            if sp:
                b = bind_call(n, f2)
                if not b.star and not b.dstar_unknown and all(b.args.get(p) is None for p in sp) and not seed_params(fi):
                    out.append(f'{f2.qual} called without seed at {m.relpath}:{n.lineno}')
            elif f2.qual != fi.qual:
                sub = ambient_summary(proj, f2, cache, depth + 1)
                out.extend(sub[:1])
    cache[fi.qual] = out
    return out


def class_tainted_attrs(proj, rep, ci):
    """Attributes of a seeded class that hold a seed-derived generator after __init__."""
    init = ci.methods.get('__init__')
    if init is None or not seed_params(init):
        return set(), None
    ctx = _Ctx(proj, rep, init, set())
    fl = TaintFlow(ctx)
    state = {p: True for p in seed_params(init)}
    fl.run(init.node, state)
    by_attr = {}
    for attr, t, stmt in ctx.attr_writes:
        by_attr.setdefault(attr, []).append(t)
    tainted = {a for a, ts in by_attr.items() if all(ts)}
    # a write elsewhere in the class with an untainted value removes the guarantee
    for name, fi in ci.methods.items():
        if name == '__init__':
            continue
        for n in ast.walk(fi.node):
            if isinstance(n, ast.Assign):
                for tg in n.targets:
                    if isinstance(tg, ast.Attribute) and isinstance(tg.value, ast.Name) and tg.value.id == 'self' \
                            and tg.attr in tainted:
                        tainted.discard(tg.attr)
    return tainted, ctx


def run(proj, rep, modules=None, only_funcs=None):
    """Check S2/S3/S4 over every seed-accepting function in `modules` (None = whole package)."""
    for k, v in RULES.items():
        if k != 'S5':
            rep.rule(k, v)
    nfun = 0
    totals = {'S2': 0, 'S3': 0, 'S4': 0}
    seeded_classes = {}
    for q, ci in sorted(proj.classes.items()):
        init = ci.methods.get('__init__')
        if init is not None and seed_params(init):
            seeded_classes[q] = ci
    analysed = []
    for fi in proj.iter_functions(modules):
        if only_funcs is not None and fi.qual not in only_funcs:
            continue
        sp = seed_params(fi)
        ci = fi.cls if fi.cls is not None and fi.cls.qual in seeded_classes else None
        if not sp and ci is None:
            continue
        tainted_attrs = set()
        if ci is not None:
            tainted_attrs, _ = class_tainted_attrs(proj, rep, ci)
            if not sp and not _uses_rng_attr(fi, ci):
                continue
        nfun += 1
        analysed.append(fi.qual)
        ctx = _Ctx(proj, rep, fi, tainted_attrs)
        fl = TaintFlow(ctx)
        fl.run(fi.node, {p: True for p in sp})
        for k in totals:
            totals[k] += ctx.nsites[k]
        if ci is not None and fi.name == '__init__':
            # the generator must be stored seed-derived
            for attr, t, stmt in ctx.attr_writes:
                if 'rng' in attr:
                    if t:
                        rep.ok('S1', fi.qual, f'self.{attr} holds a seed-derived generator', fi.module, stmt)
                    else:
                        rep.violation('S1', fi.qual, f'self.{attr} is not derived from the constructor seed', fi.module, stmt)
        rep.touch(fi.module)
    rep.rule('S1', 'S1: a class whose constructor accepts a seed stores a generator derived from it (self.<rng>), and '
                   'every draw in its methods uses that attribute.')
    rep.note('S.seed_functions', analysed)
    rep.count('S.seed_function_count', nfun)
    for k, v in totals.items():
        rep.count(f'{k}.sites', v)
    return nfun, totals


def _uses_rng_attr(fi, ci):
    for n in ast.walk(fi.node):
        if isinstance(n, ast.Attribute) and isinstance(n.value, ast.Name) and n.value.id == 'self' and 'rng' in n.attr:
            return True
        if isinstance(n, ast.Call) and isinstance(n.func, ast.Attribute) and n.func.attr in DRAW_METHODS:
            return True
    return False


# ------------------------------------------------------------------------------------------- S5
def _rng_kind(proj, fi, recv):
    """'np' / 'py' / None for the receiver expression of a draw."""
    m = fi.module

    def kind_of_value(v):
        if isinstance(v, ast.Call):
            r = resolve_callee(proj, m, v)
            q = r.qual if r.kind in ('func', 'external') else ''
            if q.endswith('get_numpy_rng') or q in ('numpy.random.default_rng', 'numpy.random.Generator'):
                return 'np'
            if q.endswith('get_random_rng') or q == 'random.Random':
                return 'py'
        return None
    if isinstance(recv, ast.Name):
        from ..dataflow import assignments
        ks = {kind_of_value(v) for v, st, p in assignments(fi.node).get(recv.id, []) if p is None}
        ks.discard(None)
        if len(ks) == 1:
            return ks.pop()
        if recv.id == 'np_rng' and not ks:
            return 'np'
        return None
    if isinstance(recv, ast.Attribute) and isinstance(recv.value, ast.Name) and recv.value.id == 'self' and fi.cls is not None:
        init = fi.cls.methods.get('__init__')
        if init is not None:
            ks = set()
            for n in ast.walk(init.node):
                if isinstance(n, ast.Assign):
                    for t in n.targets:
                        if isinstance(t, ast.Attribute) and isinstance(t.value, ast.Name) and t.value.id == 'self' and t.attr == recv.attr:
                            ks.add(kind_of_value(n.value))
            ks.discard(None)
            if len(ks) == 1:
                return ks.pop()
    return None


def _offset_from(expr, base_dump):
    """expr == base + c  ->  c (int) ; else None."""
    if ast.dump(expr) == base_dump:
        return 0
    if isinstance(expr, ast.BinOp) and isinstance(expr.op, (ast.Add, ast.Sub)) and ast.dump(expr.left) == base_dump \
            and isinstance(expr.right, ast.Constant) and isinstance(expr.right.value, int):
        return expr.right.value if isinstance(expr.op, ast.Add) else -expr.right.value
    return None


def s6(proj, rep, modules=None):
    rep.rule('S6', RULES['S6'])
    n = 0
    for fi in proj.iter_functions(modules):
        sp = set(seed_params(fi)) - {'np_rng', 'rng'}
        if not sp:
            continue
        n += 1
        m = fi.module
        bad = False
        for node in ast.walk(fi.node):
            tests = []
            if isinstance(node, (ast.If, ast.IfExp, ast.While)):
                tests.append(node.test)
            elif isinstance(node, ast.BoolOp):
                tests.extend(node.values[:-1] if isinstance(node.op, (ast.Or, ast.And)) else [])
            elif isinstance(node, ast.UnaryOp) and isinstance(node.op, ast.Not):
                tests.append(node.operand)
            elif isinstance(node, ast.Assert):
                tests.append(node.test)
            for t in tests:
                if isinstance(t, ast.Name) and t.id in sp:
                    bad = True
                    rep.violation('S6', fi.qual, f'seed parameter `{t.id}` is tested by truthiness in `{ast.unparse(node)[:70]}`: seed 0 takes '
                                  f'the same branch as None (unseeded)', m, node)
        if not bad:
            rep.ok('S6', fi.qual, 'seed parameter only tested with `is None` / isinstance', m, fi.node, text=f'{fi.qual} seed tests')
    rep.count('S6.functions', n)
    return n


_BIGINT_CALLEES = ('numqi.group.spf2.get_number', 'numqi.group.spf2._get_number_internal', 'math.factorial', 'math.comb', 'scipy.special.factorial')


def _bigint_source(proj, fi, e, at, depth=0):
    """name of an arbitrary-precision integer source that expression `e` derives from, else None"""
    from ..dataflow import reaching_defs
    if depth > 3:
        return None
    for x in ast.walk(e):
        if isinstance(x, ast.Call):
            r = resolve_callee(proj, fi.module, x)
            q = r.qual if r.kind in ('func', 'external') else ''
            if q in _BIGINT_CALLEES:
                return q
        if isinstance(x, ast.Name):
            for v, st, p in reaching_defs(fi.node, x.id, at):
                if v != 'param' and isinstance(v, ast.AST):
                    b = _bigint_source(proj, fi, v, st, depth + 1)
                    if b:
                        return b
    return None


def s5(proj, rep, modules=None):
    rep.rule('S5', RULES['S5'])
    n = 0
    from ..dataflow import comp_binding
    for fi in proj.iter_functions(modules):
        m = fi.module
        for c in ast.walk(fi.node):
            if not (isinstance(c, ast.Call) and isinstance(c.func, ast.Attribute) and c.func.attr in ('integers', 'randint', 'randrange')):
                continue
            kind = _rng_kind(proj, fi, c.func.value)
            if kind is None:
                continue
            args = list(c.args)
            lo = args[0] if len(args) >= 2 else None
            hi = args[1] if len(args) >= 2 else (args[0] if args else None)
            for k in c.keywords:
                if k.arg == 'high':
                    hi = k.value
                if k.arg == 'low':
                    lo = k.value
            if hi is None or not (lo is None or (isinstance(lo, ast.Constant) and lo.value == 0)):
                continue
            inclusive = (kind == 'py' and c.func.attr == 'randint') or any(k.arg == 'endpoint' and isinstance(k.value, ast.Constant) and k.value.value for k in c.keywords)
            want = -1 if inclusive else 0
            # (iii) a NumPy bounded sampler is limited to int64: a bound that comes from an arbitrary-precision group order overflows
            if kind == 'np':
                big = _bigint_source(proj, fi, hi, c)
                if big is not None:
                    n += 1
                    rep.violation('S5', fi.qual, f'`{ast.unparse(c)[:60]}`: the bound comes from `{big}`, an arbitrary-precision Python integer (group order / coset size, '
                                  f'beyond 2^63 from n = 32 on); the NumPy sampler is limited to int64 and raises (or wraps) there - the pure-Python generator is not', m, c)
                    continue
            # (i) index into container
            p = getattr(c, '_parent', None)
            if isinstance(p, ast.Subscript) and p.slice is c:
                base = ast.Call(func=ast.Name(id='len', ctx=ast.Load()), args=[p.value], keywords=[])
                off = _offset_from(hi, ast.dump(base))
                if off is not None:
                    n += 1
                    what = f'{ast.unparse(c)} indexes {ast.unparse(p.value)}'
                    if off == want:
                        rep.ok('S5', fi.qual, f'{what}: bound matches the {"inclusive" if inclusive else "exclusive"} convention', m, c)
                    elif off > want:
                        rep.violation('S5', fi.qual, f'{what}: upper bound len+({off}) with an {"inclusive" if inclusive else "exclusive"} '
                                      f'draw can return len(...) -> IndexError', m, c)
                    else:
                        rep.violation('S5', fi.qual, f'{what}: upper bound len+({off}) with an {"inclusive" if inclusive else "exclusive"} '
                                      f'draw never selects the last element(s)', m, c)
                continue
            # (ii) mixed-radix digit: bound is the comprehension variable (+c)
            for nm in [x for x in ast.walk(hi) if isinstance(x, ast.Name)]:
                g = comp_binding(nm)
                if g is not None and isinstance(g.target, ast.Name):
                    off = _offset_from(hi, ast.dump(ast.Name(id=g.target.id, ctx=ast.Load())))
                    if off is not None:
                        n += 1
                        what = f'{ast.unparse(c)} for {g.target.id} in {ast.unparse(g.iter)}'
                        if off == want:
                            rep.ok('S5', fi.qual, f'{what}: digit range [0,{g.target.id}-1]', m, c)
                        else:
                            rep.violation('S5', fi.qual, f'{what}: with an {"inclusive" if inclusive else "exclusive"} draw the digit '
                                          f'ranges over [0,{g.target.id}{off - want - 1:+d}] instead of [0,{g.target.id}-1]', m, c)
                    break
    rep.count('S5.sites', n)
    return n


# ------------------------------------------------------------------------------------------------ S7
RULES['S7'] = ('S7: the generator of a seed-accepting function is built ONCE per call: `get_numpy_rng(seed)` / `get_random_rng(seed)` / `default_rng(seed)` / '
               '`Random(seed)` on the seed parameter never sits inside a loop or a comprehension. Re-creating it per draw gives every draw the same '
               'first random words for an integer seed: the draws are fully correlated and most of the sample space is unreachable.')


def s7(proj, rep, modules=None):
    rep.rule('S7', RULES['S7'])
    n = 0
    makers = {'get_numpy_rng', 'get_random_rng', 'default_rng', 'Random', 'RandomState'}
    for fi in proj.iter_functions(modules):
        sp = set(seed_params(fi))
        if not sp:
            continue
        m = fi.module
        for c in ast.walk(fi.node):
            if not (isinstance(c, ast.Call) and ast.unparse(c.func).split('.')[-1] in makers and c.args and isinstance(c.args[0], ast.Name) and c.args[0].id in sp):
                continue
            n += 1
            cur = c
            inside = None
            while hasattr(cur, '_parent') and cur is not fi.node:
                cur = cur._parent
                if isinstance(cur, (ast.For, ast.While, ast.ListComp, ast.GeneratorExp, ast.SetComp, ast.DictComp)):
                    # the iterable of a comprehension / for is evaluated once: only the body / element counts
                    it = cur.iter if isinstance(cur, (ast.For,)) else None
                    if it is not None and any(x is c for x in ast.walk(it)):
                        continue
                    if not isinstance(cur, (ast.For, ast.While)) and any(any(x is c for x in ast.walk(g.iter)) for g in cur.generators[:1]):
                        continue
                    inside = cur
                    break
            if inside is not None:
                rep.violation('S7', fi.qual, f'`{ast.unparse(c)}` is evaluated inside `{ast.unparse(inside)[:60]}`: a new generator is seeded for every draw, so with an integer '
                              f'seed all draws repeat the same random words (correlated digits; most outcomes unreachable)', m, c)
            else:
                rep.ok('S7', fi.qual, f'`{ast.unparse(c)}` built once per call', m, c)
    rep.count('S7.generator_constructions', n)
    return n
