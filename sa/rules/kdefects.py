"""K1/K2/K3/N1 — constructs whose meaning does not depend on any input.

A report from these rules cannot be a false alarm: the construct named is, by the semantics of
Python/NumPy alone, sufficient for the function to raise or to return a wrong constant on (part of)
its documented domain.
"""
import ast
from ..project import dotted_parts
from ..callgraph import resolve_callee, scope_chain
from ..dataflow import origins, _Opaque, own_nodes

RULE_K1 = ('K1: int(x)/float(x) is never applied to a name that the same straight-line block has already '
           'established to be a sequence of length >= 2 (assert len(x)==k with k>=2, unpacking of x into >= 2 targets) '
           'without an intervening rebinding of x; such a call raises TypeError for every input.')
RULE_K2 = ('K2: no expression `a / b * b` (true division followed by multiplication by the same operand): by '
           'left-to-right precedence it equals `a`, so an intended `a / (b*b)` normalisation is lost.')
RULE_K3 = ('K3: a name used as a dtype is never compared by ==/!= against a list/tuple display of dtypes; such a '
           'comparison is constantly False/True (membership needs `in`).')
RULE_N1 = ('N1: numpy.linalg.norm(x, axis=t): t is an int, a pair, or a name whose definitions are those; a tuple '
           'whose length is computed from the data (comprehension/filter) makes the call raise whenever that '
           'length exceeds 2 (NumPy accepts only an int or a 2-tuple).')


def _len_fact(test):
    """names proven to have len == k >= 2 by an assert test (conjunctions allowed)."""
    out = {}
    parts = [test]
    while parts:
        t = parts.pop()
        if isinstance(t, ast.BoolOp) and isinstance(t.op, ast.And):
            parts.extend(t.values)
            continue
        if isinstance(t, ast.Compare) and len(t.ops) == 1 and isinstance(t.ops[0], ast.Eq):
            l, r = t.left, t.comparators[0]
            for a, b in ((l, r), (r, l)):
                if isinstance(a, ast.Call) and isinstance(a.func, ast.Name) and a.func.id == 'len' \
                        and len(a.args) == 1 and isinstance(a.args[0], ast.Name) \
                        and isinstance(b, ast.Constant) and isinstance(b.value, int) and b.value >= 2:
                    out[a.args[0].id] = b.value
    return out


def _stores(stmt):
    names = set()
    for n in ast.walk(stmt):
        if isinstance(n, ast.Name) and isinstance(n.ctx, (ast.Store, ast.Del)):
            names.add(n.id)
    return names


def k1(proj, rep, modules):
    rep.rule('K1', RULE_K1)
    nfun = 0
    ncast = 0
    for fi in proj.iter_functions(modules):
        nfun += 1
        rep.touch(fi.module)

        def scan(body, facts):
            facts = dict(facts)
            for st in body:
                # casts inside this statement (not nested function scopes)
                for n in ast.walk(st):
                    if isinstance(n, ast.Call) and isinstance(n.func, ast.Name) and n.func.id in ('int', 'float') \
                            and len(n.args) == 1 and isinstance(n.args[0], ast.Name):
                        nonlocal_count[0] += 1
                        nm = n.args[0].id
                        if nm in facts and not _rebinds_before(st, n, nm):
                            rep.violation('K1', fi.qual,
                                          f'{n.func.id}({nm}) although `{facts[nm][1]}` established that {nm} has length '
                                          f'{facts[nm][0]}: TypeError for every input', fi.module, st)
                        else:
                            pass
                if isinstance(st, ast.Assert):
                    for nm, k in _len_fact(st.test).items():
                        facts[nm] = (k, ' '.join(ast.unparse(st).split()))
                elif isinstance(st, ast.Assign) and len(st.targets) == 1 and isinstance(st.targets[0], (ast.Tuple, ast.List)) \
                        and isinstance(st.value, ast.Name) and len(st.targets[0].elts) >= 2 \
                        and not any(isinstance(e, ast.Starred) for e in st.targets[0].elts):
                    facts[st.value.id] = (len(st.targets[0].elts), ' '.join(ast.unparse(st).split()))
                for nm in _stores(st):
                    if not (isinstance(st, ast.Assign) and isinstance(st.value, ast.Name) and st.value.id == nm):
                        facts.pop(nm, None)
                for sub in ('body', 'orelse', 'finalbody'):
                    b = getattr(st, sub, None)
                    if isinstance(b, list) and b and isinstance(b[0], ast.stmt) and not isinstance(st, (ast.FunctionDef, ast.ClassDef)):
                        scan(b, facts)
                if isinstance(st, ast.Try):
                    for h in st.handlers:
                        scan(h.body, facts)
        nonlocal_count = [0]
        scan(fi.node.body, {})
        ncast += nonlocal_count[0]
    rep.count('K1.functions', nfun)
    rep.count('K1.int_float_casts_of_names', ncast)
    rep.ok('K1', 'scope', f'{ncast} int()/float() casts of plain names in {nfun} functions examined')
    return ncast


def _rebinds_before(stmt, call, name):
    """`x = int(x)`-style statement: the cast happens before the store, so no."""
    return False


def k2(proj, rep, modules):
    rep.rule('K2', RULE_K2)
    ndiv = 0
    for mname, m in sorted(proj.modules.items()):
        if modules is not None and mname not in modules:
            continue
        rep.touch(m)
        for n in ast.walk(m.tree):
            if isinstance(n, ast.BinOp) and isinstance(n.op, ast.Div):
                ndiv += 1
            if isinstance(n, ast.BinOp) and isinstance(n.op, ast.Mult) and isinstance(n.left, ast.BinOp) \
                    and isinstance(n.left.op, ast.Div):
                b, b2 = n.left.right, n.right
                if isinstance(b, (ast.Name, ast.Attribute, ast.Subscript)) and ast.dump(b) == ast.dump(b2):
                    fn = _enclosing_qual(proj, m, n)
                    rep.violation('K2', fn, f'`{ast.unparse(n)}` parses as ({ast.unparse(n.left)})*{ast.unparse(b2)} '
                                  f'== {ast.unparse(n.left.left)}: the division is cancelled', m, n)
    rep.count('K2.true_divisions', ndiv)
    rep.ok('K2', 'scope', f'{ndiv} true divisions examined')
    return ndiv


def _enclosing_qual(proj, m, node):
    names = []
    p = node
    while p is not None:
        if isinstance(p, (ast.FunctionDef, ast.AsyncFunctionDef, ast.ClassDef)):
            names.append(p.name)
        p = getattr(p, '_parent', None)
    return '.'.join([m.name] + names[::-1])


DTYPE_NAMES = {'float16', 'float32', 'float64', 'complex64', 'complex128', 'int8', 'int16', 'int32', 'int64',
               'uint8', 'bool', 'bool_', 'double', 'float', 'cfloat', 'cdouble', 'half'}


def _is_dtype_attr(proj, m, e):
    parts = dotted_parts(e)
    if not parts or len(parts) < 2 or parts[-1] not in DTYPE_NAMES:
        return False
    r = proj.resolve_expr(m, e)
    return r.kind == 'external' and r.qual.split('.')[0] in ('torch', 'numpy')


def k3(proj, rep, modules):
    rep.rule('K3', RULE_K3)
    ncmp = 0
    for fi in proj.iter_functions(modules):
        m = fi.module
        for n in own_nodes(fi.node):
            if not (isinstance(n, ast.Compare) and len(n.ops) == 1):
                continue
            l, r = n.left, n.comparators[0]
            sides = [(l, r), (r, l)]
            for a, b in sides:
                if isinstance(b, (ast.List, ast.Tuple, ast.Set)) and len(b.elts) >= 1 \
                        and all(_is_dtype_attr(proj, m, e) for e in b.elts) and isinstance(a, (ast.Name, ast.Attribute)):
                    ncmp += 1
                    if isinstance(n.ops[0], (ast.Eq, ast.NotEq)):
                        rep.violation('K3', fi.qual,
                                      f'`{ast.unparse(n)}` compares a dtype with a {type(b).__name__.lower()} display: '
                                      f'constantly {"False" if isinstance(n.ops[0], ast.Eq) else "True"}', m, n)
                    elif isinstance(n.ops[0], (ast.In, ast.NotIn)) and a is l:
                        rep.ok('K3', fi.qual, f'membership test `{ast.unparse(n)}`', m, n)
    rep.count('K3.dtype_display_comparisons', ncmp)
    return ncmp


def n1(proj, rep, modules):
    rep.rule('N1', RULE_N1)
    nsite = 0
    for fi in proj.iter_functions(modules):
        m = fi.module
        for n in own_nodes(fi.node):
            if not isinstance(n, ast.Call):
                continue
            r = resolve_callee(proj, m, n)
            if not (r.kind == 'external' and r.qual == 'numpy.linalg.norm'):
                continue
            ax = None
            for k in n.keywords:
                if k.arg == 'axis':
                    ax = k.value
            if ax is None and len(n.args) >= 3:
                ax = n.args[2]
            if ax is None:
                continue
            nsite += 1
            verdicts = []
            for o, m2, f2 in origins(proj, m, fi.node, ax):
                verdicts.append((_axis_kind(o), o, m2, f2))
            bad = [v for v in verdicts if v[0] == 'varlen']
            unk = [v for v in verdicts if v[0] == 'unknown']
            if bad:
                o = bad[0][1]
                where = f'{bad[0][2].relpath}:{getattr(o, "lineno", "?")}'
                rep.violation('N1', fi.qual,
                              f'axis={ast.unparse(ax)} is defined as `{ast.unparse(o)}` ({where}), a tuple whose length '
                              f'depends on the data; numpy.linalg.norm raises for length > 2', m, n)
            elif unk:
                rep.undecided('N1', fi.qual, f'axis={ast.unparse(ax)}: origin not classified', m, n)
            else:
                rep.ok('N1', fi.qual, f'axis={ast.unparse(ax)}', m, n)
    rep.count('N1.norm_axis_sites', nsite)
    return nsite


def _axis_kind(o):
    if isinstance(o, _Opaque):
        return 'unknown'
    if isinstance(o, ast.Constant) and (isinstance(o.value, int) or o.value is None):
        return 'ok'
    if isinstance(o, ast.UnaryOp) and isinstance(o.op, ast.USub) and isinstance(o.operand, ast.Constant):
        return 'ok'
    if isinstance(o, ast.Tuple):
        return 'ok' if len(o.elts) <= 2 else 'varlen'
    if isinstance(o, ast.Name):          # a parameter: caller's contract
        return 'ok'
    if isinstance(o, (ast.ListComp, ast.GeneratorExp)):
        return 'varlen'
    if isinstance(o, ast.Call) and isinstance(o.func, ast.Name) and o.func.id in ('tuple', 'list') and len(o.args) == 1:
        a = o.args[0]
        if isinstance(a, (ast.GeneratorExp, ast.ListComp)):
            return 'varlen'
        if isinstance(a, ast.Call) and isinstance(a.func, ast.Name) and a.func.id == 'range':
            if all(isinstance(x, ast.Constant) for x in a.args):
                return 'unknown'
            return 'varlen'
    if isinstance(o, ast.BinOp) or isinstance(o, ast.IfExp) or isinstance(o, ast.Attribute) or isinstance(o, ast.Subscript):
        return 'ok' if isinstance(o, (ast.BinOp,)) else 'unknown'
    return 'unknown'


RULE_RD1 = ('RD1: in a constructor with a `return_dm` option the density-matrix arm is the projector of the ket arm: it is computed from the '
            'ket by the outer-product idiom (x[:,None]*x.conj(), np.outer(x, x.conj()), x.reshape(-1,1)*x.conj()).  A density-matrix arm '
            'that is a multiple of the identity (np.eye(d)/d) is certainly not the projector of a ket for d >= 2.')


def rd1(proj, rep, modules=None):
    rep.rule('RD1', RULE_RD1)
    n = 0
    for fi in proj.iter_functions(modules):
        if 'return_dm' not in fi.all_params:
            continue
        m = fi.module
        rep.touch(m)
        for node in ast.walk(fi.node):
            if not (isinstance(node, ast.If) and isinstance(node.test, ast.Name) and node.test.id == 'return_dm'):
                continue
            n += 1
            dm_vals = [s.value for s in node.body if isinstance(s, ast.Assign)]
            if not dm_vals:
                rep.undecided('RD1', fi.qual, 'dm arm has no assignment', m, node)
                continue
            v = dm_vals[-1]
            t = ast.unparse(v).replace(' ', '')
            names = {x.id for x in ast.walk(v) if isinstance(x, ast.Name)}
            outer = ('.conj()' in t and ('[:,np.newaxis]' in t or '[:,None]' in t or '.reshape(-1,1)' in t)) or 'np.outer(' in t or 'einsum' in t \
                or ('[:,np.newaxis]*' in t)
            target = node.body[-1].targets[0].id if isinstance(node.body[-1], ast.Assign) and isinstance(node.body[-1].targets[0], ast.Name) else None
            if outer and target in names:
                rep.ok('RD1', fi.qual, f'dm arm `{ast.unparse(v)[:60]}` is the outer product of the ket', m, node)
            elif t.startswith('np.eye(') or t.startswith('numpy.eye('):
                rep.violation('RD1', fi.qual, f'with return_dm=True the function returns `{ast.unparse(v)}`, a multiple of the identity (the maximally '
                              f'mixed state), not the projector of the ket returned with return_dm=False', m, node.body[-1])
            else:
                rep.undecided('RD1', fi.qual, f'dm arm `{ast.unparse(v)[:60]}` is not the outer-product idiom', m, node)
    rep.count('RD1.return_dm_sites', n)
    return n


# ------------------------------------------------------------------------------------------------ DT1
RULE_DT1 = ('DT1: a result buffer allocated with `dtype=<p>.dtype` of an array parameter p that has not been converted to floating point keeps an '
            'integer dtype for integer input; storing a true-division / norm-normalised value into it truncates towards zero (Wtype([1,1,1]) '
            'would return the zero vector). Either p is normalised (p = p / norm) or cast before the buffer is allocated, or the buffer dtype is '
            'floating.')


def dt1(proj, rep, modules):
    rep.rule('DT1', RULE_DT1)
    n = 0
    for mq in modules:
        m = proj.mod(mq)
        rep.touch(m)
        for fi in [f for f in proj.funcs.values() if f.module is m]:
            params = set(fi.all_params)
            for st in ast.walk(fi.node):
                if not (isinstance(st, ast.Assign) and isinstance(st.targets[0], ast.Name) and isinstance(st.value, ast.Call)):
                    continue
                fname = ast.unparse(st.value.func)
                if fname.split('.')[-1] not in ('zeros', 'empty', 'ones', 'full'):
                    continue
                dk = next((k.value for k in st.value.keywords if k.arg == 'dtype'), None)
                if isinstance(dk, ast.Name):
                    # dtype chosen through a local name: `tmp2 = theta.dtype if is_real else ...`
                    defs = [s2.value for s2 in ast.walk(fi.node) if isinstance(s2, ast.Assign) and len(s2.targets) == 1 and isinstance(s2.targets[0], ast.Name)
                            and s2.targets[0].id == dk.id and s2.lineno < st.lineno]
                    # the definition in the same block (same backend arm) as the allocation
                    blk_of = lambda node: next((b for x in ast.walk(fi.node) for f_ in ('body', 'orelse') for b in [getattr(x, f_, None)] if isinstance(b, list) and node in b), None)
                    same = [s2 for s2 in ast.walk(fi.node) if isinstance(s2, ast.Assign) and len(s2.targets) == 1 and isinstance(s2.targets[0], ast.Name)
                            and s2.targets[0].id == dk.id and s2.lineno < st.lineno and blk_of(s2) is blk_of(st)]
                    cand = same[-1].value if same else (defs[-1] if len(defs) == 1 else None)
                    arm = cand.body if isinstance(cand, ast.IfExp) else cand
                    dk = arm if isinstance(arm, ast.Attribute) else dk
                if not (isinstance(dk, ast.Attribute) and dk.attr == 'dtype' and isinstance(dk.value, ast.Name) and dk.value.id in params):
                    continue
                p = dk.value.id
                buf = st.targets[0].id
                n += 1
                # was p made floating before? (p = p / x, p = p * <float>, p = p.astype(float..), p = np.asarray(p, dtype=float..))
                floated = False
                for s2 in ast.walk(fi.node):
                    if isinstance(s2, ast.Assign) and any(isinstance(t, ast.Name) and t.id == p for t in s2.targets) and s2.lineno < st.lineno:
                        t = ast.unparse(s2.value).replace(' ', '')
                        if (isinstance(s2.value, ast.BinOp) and isinstance(s2.value.op, ast.Div)) or 'astype(' in t or 'dtype=np.float' in t or 'dtype=np.complex' in t \
                                or 'dtype=float' in t or 'dtype=complex' in t:
                            floated = True
                    if isinstance(s2, ast.AugAssign) and isinstance(s2.target, ast.Name) and s2.target.id == p and isinstance(s2.op, ast.Div) and s2.lineno < st.lineno:
                        floated = True
                # an assert / raise guard that admits floating dtypes only
                for s2 in ast.walk(fi.node):
                    if isinstance(s2, ast.Assert) and s2.lineno < st.lineno and f'{p}.dtype' in ast.unparse(s2.test) and ('float' in ast.unparse(s2.test) or 'is_floating_point' in ast.unparse(s2.test)):
                        blk2 = next((b for x in ast.walk(fi.node) for f_ in ('body', 'orelse') for b in [getattr(x, f_, None)] if isinstance(b, list) and s2 in b), None)
                        # the guard protects the allocation only when it is on its path: same block, or the function body itself
                        if blk2 is fi.node.body or (blk2 is not None and any(x is st for b in blk2 for x in ast.walk(b))):
                            floated = True
                # stores of a divided value into the buffer
                bad = None
                for s2 in ast.walk(fi.node):
                    if isinstance(s2, ast.Assign) and isinstance(s2.targets[0], ast.Subscript) and isinstance(s2.targets[0].value, ast.Name) \
                            and s2.targets[0].value.id == buf and s2.lineno > st.lineno:
                        if any(isinstance(x, ast.BinOp) and isinstance(x.op, ast.Div) for x in ast.walk(s2.value)):
                            bad = s2
                if floated:
                    rep.ok('DT1', fi.qual, f'`{buf}` takes the dtype of `{p}` after `{p}` was made floating point', m, st)
                elif bad is not None:
                    rep.violation('DT1', fi.qual, f'`{ast.unparse(bad)[:80]}` stores a true-division result into `{buf}`, allocated with dtype={p}.dtype of the '
                                  f'unconverted parameter: for integer input the values are truncated (a normalised ket becomes the zero vector)', m, bad)
                else:
                    rep.ok('DT1', fi.qual, f'`{buf}` (dtype of `{p}`) only receives values of that dtype', m, st)
    rep.count('DT1.buffers', n)
    return n


# ------------------------------------------------------------------------------------------------ ST1
RULE_ST1 = ('ST1: a value derived from a list (np.concatenate / np.stack / np.array / len of it) is computed after the last in-place growth of that list '
            '(append / extend / insert / +=) in the same function whenever both the derived value and the list reach the return value: otherwise '
            'the returned pair is inconsistent (the array misses the elements appended later).')


def st1(proj, rep, modules):
    rep.rule('ST1', RULE_ST1)
    n = 0
    for mq in modules:
        m = proj.mod(mq)
        rep.touch(m)
        for fi in [f for f in proj.funcs.values() if f.module is m]:
            lists = {s.targets[0].id for s in ast.walk(fi.node) if isinstance(s, ast.Assign) and isinstance(s.targets[0], ast.Name)
                     and isinstance(s.value, (ast.List, ast.ListComp))}
            if not lists:
                continue
            for L in sorted(lists):
                grows = [c for c in ast.walk(fi.node) if isinstance(c, ast.Call) and isinstance(c.func, ast.Attribute) and c.func.attr in ('append', 'extend', 'insert')
                         and isinstance(c.func.value, ast.Name) and c.func.value.id == L]
                derives = [s for s in ast.walk(fi.node) if isinstance(s, ast.Assign) and isinstance(s.value, ast.Call)
                           and ast.unparse(s.value.func).split('.')[-1] in ('concatenate', 'stack', 'array', 'vstack', 'hstack')
                           and s.value.args and isinstance(s.value.args[0], ast.Name) and s.value.args[0].id == L]
                if not grows or not derives:
                    continue
                # loops: a derive inside the same loop body as the grow is a different pattern (accumulate-and-use); only straight-line order is decided
                def in_loop(x):
                    cur = x
                    while hasattr(cur, '_parent') and cur is not fi.node:
                        cur = cur._parent
                        if isinstance(cur, (ast.For, ast.While, ast.ListComp)):
                            return True
                    return False
                for d in derives:
                    if in_loop(d):
                        continue
                    n += 1
                    late = [g for g in grows if g.lineno > d.lineno and not in_loop(g)]
                    if late:
                        rep.violation('ST1', fi.qual, f'`{ast.unparse(d)[:70]}` is computed from `{L}` before `{ast.unparse(late[0])[:50]}` grows it: the derived '
                                      f'array misses the elements appended later (under the option that guards the append)', m, d)
                    else:
                        rep.ok('ST1', fi.qual, f'`{ast.unparse(d)[:60]}` is computed after the last growth of `{L}`', m, d)
    rep.count('ST1.derived_values', n)
    return n


# ------------------------------------------------------------------------------------------------ N2
RULE_N2 = ('N2: a norm taken of an array that was explicitly flattened into a batch of vectors, `linalg.norm(X.reshape(-1, n), ...)`, or drawn as a (count, dim) sample, names the vector '
           'axis (`axis=1` / `dim=1`): without it NumPy returns ONE matrix norm of the whole stack (Frobenius, or the largest singular value for '
           'ord=2), which equals the per-item norm only for a batch of one.')


def _count_like(fi, e, at):
    """the first entry of a sample's size tuple is a number of items: it is (derived from) a parameter named size / batch / num ..."""
    from ..dataflow import reaching_defs
    COUNT = ('size', 'batch', 'batch_size', 'num', 'num_sample', 'N', 'n_sample', 'shape')
    names = {y.id for y in ast.walk(e) if isinstance(y, ast.Name)}
    if names & set(COUNT) & set(fi.all_params):
        return True
    for nm in names:
        for v, st, p in reaching_defs(fi.node, nm, at):
            if v != 'param' and isinstance(v, ast.AST) and {y.id for y in ast.walk(v) if isinstance(y, ast.Name)} & set(COUNT) & set(fi.all_params):
                return True
    return False


def n2(proj, rep, modules):
    rep.rule('N2', RULE_N2)
    n = 0
    for mq in modules:
        m = proj.mod(mq)
        rep.touch(m)
        for fi in [f for f in proj.funcs.values() if f.module is m]:
            for c in ast.walk(fi.node):
                if not (isinstance(c, ast.Call) and ast.unparse(c.func).endswith('linalg.norm') and c.args):
                    continue
                a = c.args[0]
                if isinstance(a, ast.Name):
                    asg = [s.value for s in ast.walk(fi.node) if isinstance(s, ast.Assign) and isinstance(s.targets[0], ast.Name) and s.targets[0].id == a.id]
                    if len(asg) == 1:
                        a = asg[0]
                    else:
                        from ..dataflow import reaching_defs
                        rd = [v for v, st, p in reaching_defs(fi.node, a.id, c) if v != 'param' and p is None]
                        if len(rd) == 1:
                            a = rd[0]
                flat = isinstance(a, ast.Call) and isinstance(a.func, ast.Attribute) and a.func.attr == 'reshape' and len(a.args) == 2 \
                    and ast.unparse(a.args[0]).replace(' ', '') == '-1'
                # a random sample drawn as a (count, dim) table is a batch of vectors as well
                size = next((k.value for k in a.keywords if k.arg == 'size'), None) if isinstance(a, ast.Call) else None
                sample = isinstance(a, ast.Call) and isinstance(a.func, ast.Attribute) and a.func.attr in ('normal', 'standard_normal', 'uniform', 'random', 'randn') \
                    and isinstance(size, ast.Tuple) and len(size.elts) == 2 and _count_like(fi, size.elts[0], c)
                if not (flat or sample):
                    continue
                n += 1
                has_axis = any(k.arg in ('axis', 'dim') for k in c.keywords) or len(c.args) >= 3
                if has_axis:
                    rep.ok('N2', fi.qual, f'`{ast.unparse(c)[:70]}` names the vector axis', m, c)
                else:
                    rep.violation('N2', fi.qual, f'`{ast.unparse(c)[:90]}`: the argument is a batch of vectors (reshape(-1, n)) but no axis is given: one matrix norm '
                                  f'of the whole stack is returned, so every item of a batch of two or more is scaled by the wrong number', m, c)
    rep.count('N2.batch_norms', n)
    return n


# ------------------------------------------------------------------------------------------------ AR1
RULE_AR1 = ('AR1: subsystem roles keep their order through a call: when a numqi function / constructor has parameters named by ordered roles '
            '(dimA,dimB | dim0,dim1 | dim_in,dim_out ...) and the caller passes names that carry ordered roles themselves, the order is preserved '
            '(dim0 -> dimA, dim1 -> dimB). Swapped slots build the object for the transposed factorisation: invisible when both dimensions are '
            'equal, wrong (e.g. not even PPT) for dimA != dimB.')

import re as _re
_ROLE = _re.compile(r'^(dim|N|n|num|d)(_?)(A|B|C|0|1|2|in|out)$')
_RANK = {'A': 0, 'B': 1, 'C': 2, '0': 0, '1': 1, '2': 2, 'in': 0, 'out': 1}


def _role(name):
    mm = _ROLE.match(name.split('.')[-1])
    return (mm.group(1), _RANK[mm.group(3)]) if mm else None


def ar1(proj, rep, modules=None):
    from ..project import bind_call
    from ..callgraph import resolve_callee
    rep.rule('AR1', RULE_AR1)
    n = 0
    for fi in proj.iter_functions():
        m = fi.module
        if modules is not None and not any(m.name == q or m.name.startswith(q + '.') for q in modules):
            continue
        for c in ast.walk(fi.node):
            if not isinstance(c, ast.Call):
                continue
            r = resolve_callee(proj, m, c)
            callee = r.node if r.kind == 'func' else (r.node.methods.get('__init__') if r.kind == 'class' else None)
            if callee is None:
                continue
            try:
                b = bind_call(c, callee)
            except Exception:
                continue
            pairs = []
            for p, a in b.args.items():
                rp = _role(p)
                if rp is None or a is None:
                    continue
                t = ast.unparse(a)
                ra = _role(t) if _re.match(r'^[\w\.]+$', t) else None
                if ra is not None:
                    pairs.append((p, rp[1], t, ra[1]))
            if len(pairs) < 2:
                continue
            n += 1
            rep.touch(m)
            bad = [(x, y) for i, x in enumerate(pairs) for y in pairs[i + 1:] if x[1] != y[1] and x[3] != y[3] and (x[1] < y[1]) != (x[3] < y[3])]
            if bad:
                x, y = bad[0]
                rep.violation('AR1', fi.qual, f'`{ast.unparse(c)[:90]}` passes `{x[2]}` as {x[0]} and `{y[2]}` as {y[0]}: the subsystem roles are swapped '
                              f'(callee {callee.qual})', m, c)
            else:
                rep.ok('AR1', fi.qual, f'`{ast.unparse(c)[:60]}`: roles {[(p[2], p[0]) for p in pairs]} in order', m, c)
    rep.count('AR1.call_sites', n)
    return n


# ------------------------------------------------------------------------------------------------ AL1
RULE_AL1 = ('AL1: a list (or array) that is modified in place inside a loop body (`t[i] = v`, append, +=) is created inside that loop body; binding it '
            'by plain assignment to an object built OUTSIDE the loop (`t = template`) shares one object across iterations, so the modifications of '
            'earlier iterations leak into later ones.')


def al1(proj, rep, modules):
    rep.rule('AL1', RULE_AL1)
    n = 0
    for mq in modules:
        m = proj.mod(mq)
        rep.touch(m)
        for fi in [f for f in proj.funcs.values() if f.module is m]:
            for lp in [x for x in ast.walk(fi.node) if isinstance(x, (ast.For, ast.While))]:
                body_nodes = [y for s in lp.body for y in ast.walk(s)]
                inner = {}
                for s in lp.body:
                    if isinstance(s, ast.Assign) and isinstance(s.targets[0], ast.Name):
                        inner.setdefault(s.targets[0].id, []).append(s)
                for name, defs in inner.items():
                    # mutated in place in this loop body?
                    mut = None
                    for y in body_nodes:
                        if isinstance(y, ast.Assign) and isinstance(y.targets[0], ast.Subscript) and isinstance(y.targets[0].value, ast.Name) and y.targets[0].value.id == name:
                            mut = y
                        elif isinstance(y, ast.Call) and isinstance(y.func, ast.Attribute) and y.func.attr in ('append', 'extend', 'insert') \
                                and isinstance(y.func.value, ast.Name) and y.func.value.id == name:
                            mut = y
                    if mut is None:
                        continue
                    d = defs[0]
                    if d.lineno > getattr(mut, 'lineno', 0):
                        continue
                    v = d.value
                    if isinstance(v, (ast.List, ast.ListComp, ast.Dict, ast.Set)) or (isinstance(v, ast.BinOp) and isinstance(v.op, ast.Mult) and isinstance(v.left, ast.List)) \
                            or (isinstance(v, ast.Call) and not (isinstance(v.func, ast.Name) and False)):
                        if isinstance(v, ast.Call) and not ast.unparse(v.func).split('.')[-1] in ('list', 'zeros', 'zeros_like', 'ones', 'empty', 'copy', 'array', 'eye', 'tile', 'deepcopy', 'dict'):
                            continue
                        n += 1
                        rep.ok('AL1', fi.qual, f'`{name}` is rebuilt in every iteration before it is modified', m, d)
                    elif isinstance(v, ast.Name):
                        # alias of an object created outside the loop?
                        outside = [s for s in ast.walk(fi.node) if isinstance(s, ast.Assign) and isinstance(s.targets[0], ast.Name) and s.targets[0].id == v.id
                                   and not any(s is y for y in body_nodes)]
                        built = [s for s in outside if isinstance(s.value, (ast.List, ast.ListComp)) or (isinstance(s.value, ast.BinOp) and isinstance(s.value.op, ast.Mult)
                                 and isinstance(s.value.left, ast.List)) or (isinstance(s.value, ast.Call) and ast.unparse(s.value.func).split('.')[-1] in ('zeros', 'ones', 'eye', 'list'))]
                        if built and v.id not in inner:
                            n += 1
                            rep.violation('AL1', fi.qual, f'`{ast.unparse(d)}` aliases `{v.id}`, built once outside the loop (`{ast.unparse(built[0])[:50]}`), and '
                                          f'`{ast.unparse(mut)[:50]}` then modifies it in place: entries written in earlier iterations are still there in later ones', m, d)
    rep.count('AL1.loop_local_containers', n)
    return n


# ------------------------------------------------------------------------------------------------ K5
RULE_K5 = ('K5: every scipy.sparse.linalg.eigsh / eigs call names `which` ("LA" / "SA" ...): the default is the eigenvalue of largest MAGNITUDE, which for '
           'an indefinite matrix is not the algebraic extreme the surrounding code (stabilising shift, numerical range, bounds) takes it for.')


def k5(proj, rep, modules):
    rep.rule('K5', RULE_K5)
    n = 0
    for mq in modules:
        m = proj.mod(mq)
        for c in ast.walk(m.tree):
            if isinstance(c, ast.Call) and ast.unparse(c.func).split('.')[-1] in ('eigsh', 'eigs') and 'linalg' in ast.unparse(c.func):
                rep.touch(m)
                n += 1
                w = next((k.value for k in c.keywords if k.arg == 'which'), None)
                if w is None:
                    rep.violation('K5', mq, f'`{ast.unparse(c)[:90]}` has no `which=`: ARPACK returns the largest-magnitude eigenvalue; with a dominant negative '
                                  f'eigenvalue the value is not the largest algebraic one', m, c)
                else:
                    rep.ok('K5', mq, f'`{ast.unparse(c)[:50]}...` which={ast.unparse(w)}', m, c)
    rep.count('K5.eigsh_calls', n)
    return n


# ------------------------------------------------------------------------------------------------ AL2
RULE_AL2 = ('AL2: an array that is handed to a callable received as a parameter (a user function) inside a loop, whose results are collected, is created '
            'inside the loop body: the callable may return its argument or a view of it (identity channel, slicing permutation, `if rate==0: return '
            'rho`), so a buffer that is re-used and modified in later iterations silently changes every result collected so far.')


def al2(proj, rep, modules):
    rep.rule('AL2', RULE_AL2)
    n = 0
    for mq in modules:
        m = proj.mod(mq)
        rep.touch(m)
        for fi in [f for f in proj.funcs.values() if f.module is m]:
            params = set(fi.all_params)
            for lp in [x for x in ast.walk(fi.node) if isinstance(x, ast.For)]:
                # innermost loops only
                if any(isinstance(y, ast.For) and y is not lp for y in ast.walk(lp)):
                    continue
                calls = [c for s in lp.body for c in ast.walk(s) if isinstance(c, ast.Call) and isinstance(c.func, ast.Name) and c.func.id in params
                         and c.args and isinstance(c.args[0], ast.Name)]
                for c in calls:
                    # result collected?
                    st = c
                    while not isinstance(st, ast.stmt):
                        st = st._parent
                    collected = 'append(' in ast.unparse(st) or (isinstance(st, ast.Assign) and isinstance(st.targets[0], ast.Subscript))
                    if not collected:
                        continue
                    buf = c.args[0].id
                    # the buffer is mutated in the loop?
                    mut = any(isinstance(y, ast.Assign) and isinstance(y.targets[0], ast.Subscript) and isinstance(y.targets[0].value, ast.Name) and y.targets[0].value.id == buf
                              for s in lp.body for y in ast.walk(s))
                    if not mut:
                        continue
                    n += 1
                    created_inside = any(isinstance(s, ast.Assign) and isinstance(s.targets[0], ast.Name) and s.targets[0].id == buf for s in lp.body)
                    if created_inside:
                        rep.ok('AL2', fi.qual, f'`{buf}` is allocated for every call of `{c.func.id}`', m, c)
                    else:
                        rep.violation('AL2', fi.qual, f'`{ast.unparse(c)}`: the probe `{buf}` is allocated once outside the loop and modified between calls; if the user '
                                      f'callable `{c.func.id}` returns its argument (identity channel) or a view of it, every collected result aliases the buffer', m, c)
    rep.count('AL2.probe_calls', n)
    return n


# ------------------------------------------------------------------------------------------------ MD1
RULE_MD1 = ('MD1: no function or method has a mutable default argument (list / dict / set literal or constructor call) that is stored in an attribute, '
            'returned, or modified in place: the default object is created once, so every call (every instance built with the default) shares it - '
            'a gate history appended to one circuit shows up in the next.')


def md1(proj, rep, modules):
    rep.rule('MD1', RULE_MD1)
    n = 0
    for mq in modules:
        m = proj.mod(mq)
        rep.touch(m)
        for fn in [x for x in ast.walk(m.tree) if isinstance(x, (ast.FunctionDef, ast.AsyncFunctionDef))]:
            a = fn.args
            pos = a.posonlyargs + a.args
            pairs = list(zip(pos[len(pos) - len(a.defaults):], a.defaults)) + [(p, d) for p, d in zip(a.kwonlyargs, a.kw_defaults) if d is not None]
            if not pairs:
                continue
            n += 1
            bad = None
            for p, d in pairs:
                mutable = isinstance(d, (ast.List, ast.Dict, ast.Set)) or (isinstance(d, ast.Call) and isinstance(d.func, ast.Name) and d.func.id in ('list', 'dict', 'set'))
                if not mutable:
                    continue
                name = p.arg
                escapes = False
                for x in ast.walk(fn):
                    if isinstance(x, ast.Assign) and isinstance(x.value, ast.Name) and x.value.id == name and any(isinstance(t, ast.Attribute) for t in x.targets):
                        escapes = True
                    if isinstance(x, ast.Return) and isinstance(x.value, ast.Name) and x.value.id == name:
                        escapes = True
                    if isinstance(x, ast.Call) and isinstance(x.func, ast.Attribute) and x.func.attr in ('append', 'extend', 'update', 'add', 'insert', 'pop') \
                            and isinstance(x.func.value, ast.Name) and x.func.value.id == name:
                        escapes = True
                    if isinstance(x, ast.Assign) and isinstance(x.targets[0], ast.Subscript) and isinstance(x.targets[0].value, ast.Name) and x.targets[0].value.id == name:
                        escapes = True
                if escapes:
                    bad = (name, d)
            if bad:
                rep.violation('MD1', f'{mq}.{fn.name}', f'parameter `{bad[0]}={ast.unparse(bad[1])}` is a mutable default that is stored / returned / modified: all calls that '
                              f'use the default share one object', m, fn)
            else:
                rep.ok('MD1', f'{mq}.{fn.name}', 'no shared mutable default', m, fn, text=f'{mq}.{fn.name} defaults')
    rep.count('MD1.functions_with_defaults', n)
    return n


# ------------------------------------------------------------------------------------------------ AR2
RULE_AR2 = ('AR2: a multipartite operator stored as a (prod dims) x (prod dims) matrix is split with the FIRST subsystem as the major index: '
            '`rho.reshape(dimA, dimB, dimA, dimB)` (role order ascending on the row side and again on the column side). `reshape(dimB, dimA, dimB, dimA)` '
            'is accepted by NumPy (same product) but is the tensor structure of the swapped factorisation: partial transposes / traces act on the '
            'wrong factor whenever dimA != dimB.')


def ar2(proj, rep, modules=None):
    rep.rule('AR2', RULE_AR2)
    n = 0
    for fi in proj.iter_functions():
        m = fi.module
        if modules is not None and not any(m.name == q or m.name.startswith(q + '.') for q in modules):
            continue
        for c in ast.walk(fi.node):
            if not (isinstance(c, ast.Call) and isinstance(c.func, ast.Attribute) and c.func.attr == 'reshape'):
                continue
            args = c.args[0].elts if len(c.args) == 1 and isinstance(c.args[0], (ast.Tuple, ast.List)) else c.args
            roles = []
            for a in args:
                t = ast.unparse(a)
                r = _role(t) if _re.match(r'^[\w\.]+$', t) else None
                roles.append(r)
            named = [r for r in roles if r is not None]
            if len(named) < 4 or len(named) != len([r for r in roles[-len(named):] if r is not None]) or len(named) % 2:
                continue
            tail = roles[-len(named):]
            if None in tail:
                continue
            k = len(named) // 2
            ranks = [r[1] for r in tail]
            if sorted(ranks[:k]) != sorted(ranks[k:]) or len(set(ranks[:k])) != k:
                continue
            n += 1
            rep.touch(m)
            if ranks[:k] == sorted(ranks[:k]) and ranks[k:] == sorted(ranks[k:]):
                rep.ok('AR2', fi.qual, f'`{ast.unparse(c)[-60:]}`: subsystems in ascending order on both sides', m, c)
            elif ranks[:k] == ranks[k:]:
                rep.violation('AR2', fi.qual, f'`{ast.unparse(c)[:90]}` splits the composite index with the LATER subsystem as the major index: this is the tensor '
                              f'structure of the swapped factorisation; a following partial transpose / trace acts on the wrong factor for unequal dimensions', m, c)
            else:
                rep.violation('AR2', fi.qual, f'`{ast.unparse(c)[:90]}` uses different subsystem orders for rows and columns', m, c)
    rep.count('AR2.multipartite_reshapes', n)
    return n


# ------------------------------------------------------------------------------------------------ MC1
RULE_MC1 = ('MC1: a hand-rolled memo in a module-level dict (`if key not in CACHE: CACHE[key] = value`) is keyed on every input the stored value is computed '
            'from: all parameters / closure variables in the provenance of `value` also occur in the provenance of `key`. A coarser key (e.g. the total '
            'dimension instead of the dimension tuple) makes a later call with different inputs but the same key reuse a value computed for the earlier ones: '
            'the verdict depends on the call history.')


def mc1(proj, rep, modules):
    rep.rule('MC1', RULE_MC1)
    n = 0
    nfun = 0
    for mq in modules:
        m = proj.mod(mq)
        rep.touch(m)
        glob = {t.id for s in m.tree.body if isinstance(s, ast.Assign) for t in s.targets if isinstance(t, ast.Name)
                and (isinstance(s.value, (ast.Dict,)) or (isinstance(s.value, ast.Call) and isinstance(s.value.func, ast.Name) and s.value.func.id in ('dict', 'OrderedDict', 'defaultdict')))}
        for fi in [f for f in proj.funcs.values() if f.module is m]:
            nfun += 1
            if not glob:
                continue
            for st in ast.walk(fi.node):
                if not (isinstance(st, ast.Assign) and isinstance(st.targets[0], ast.Subscript) and isinstance(st.targets[0].value, ast.Name)
                        and st.targets[0].value.id in glob):
                    continue
                n += 1
                # provenance roots: parameters of the enclosing functions (closure included)
                scopes = [fi.node] + [s for s in scope_chain(fi.node) if isinstance(s, (ast.FunctionDef, ast.Lambda))]
                enclosing = []
                cur = st
                while hasattr(cur, '_parent'):
                    cur = cur._parent
                    if isinstance(cur, (ast.FunctionDef, ast.Lambda)):
                        enclosing.append(cur)
                params = set()
                for sc in enclosing:
                    a = sc.args
                    params |= {x.arg for x in a.posonlyargs + a.args + a.kwonlyargs}

                def roots(e, seen=None, depth=0):
                    seen = seen if seen is not None else set()
                    out = set()
                    for x in ast.walk(e):
                        if isinstance(x, ast.Name) and isinstance(x.ctx, ast.Load) and x.id not in seen:
                            seen.add(x.id)
                            if x.id in params:
                                out.add(x.id)
                            if depth < 6:
                                for sc in enclosing:
                                    for s2 in ast.walk(sc):
                                        if isinstance(s2, ast.Assign) and any(isinstance(t2, ast.Name) and t2.id == x.id for t2 in s2.targets):
                                            out |= roots(s2.value, seen, depth + 1)
                                            # control dependence: a definition that only happens under `if <test>` depends on the test as well
                                            # (the guard `key not in CACHE` itself is not an input of the value)
                                            cur2 = s2
                                            while hasattr(cur2, '_parent') and cur2._parent is not sc:
                                                cur2 = cur2._parent
                                                if isinstance(cur2, ast.If) and not any(isinstance(y, ast.Name) and y.id in glob for y in ast.walk(cur2.test)) \
                                                        and not any(isinstance(y, ast.Constant) and y.value is None for y in ast.walk(cur2.test)):
                                                    out |= roots(cur2.test, seen, depth + 1)
                    return out
                kr = roots(st.targets[0].slice)
                vr = roots(st.value)
                missing = sorted(vr - kr)
                cname = st.targets[0].value.id
                if missing:
                    rep.violation('MC1', fi.qual, f'`{cname}[{ast.unparse(st.targets[0].slice)}] = ...` stores a value computed from {sorted(vr)} under a key that only '
                                  f'depends on {sorted(kr)}: a later call that differs in {missing} but has the same key silently reuses it (history-dependent result)', m, st)
                else:
                    rep.ok('MC1', fi.qual, f'module-level memo `{cname}` is keyed on every input of the stored value', m, st)
    rep.count('MC1.functions_scanned', nfun)
    rep.count('MC1.module_level_memos', n)
    return nfun, n


# ------------------------------------------------------------------------------------------------ NZ1 / RO1 / DT2 / KR1
RULE_NZ1 = ('NZ1: a slice `x[-(a-b):]` selects the last a-b entries only while a-b > 0; for a == b Python reads `-0:` as `0:` and returns EVERYTHING instead of '
            'nothing. Such a slice needs a guard for the empty case (`if a==b: ...`) in the same function, or the positive form `x[b:]`.')
RULE_RO1 = ('RO1: no reshape / ravel uses `order=\'A\'` or `order=\'K\'`: those make the unfolding depend on the memory layout of the argument '
            '(an F-contiguous input - a .T view, a LAPACK / cvxpy result - is unfolded with the subsystem order reversed).')
RULE_DT2 = ('DT2: index / occupation arithmetic is never done in a narrow integer dtype (int8, uint8, int16, uint16): products with place values wrap silently '
            '(int8 from 128), so amplitudes land on wrong basis states.')
RULE_KR1 = ('KR1: a batched Kronecker product written as `einsum(X, [i,r1,c1], Y, [j,r2,c2], [i,j,ra,rb,ca,cb]).reshape(-1, R, C)` lists the row legs and the column '
            'legs in the SAME factor order as the batch legs: (ra,rb) = (r1,r2) and (ca,cb) = (c1,c2). Any other order is kron of the factors in a different '
            'order than the element index says, or a row/column mix (non-Hermitian elements).')


def nz1(proj, rep, modules):
    rep.rule('NZ1', RULE_NZ1)
    n = 0
    for mq in modules:
        m = proj.mod(mq)
        for fi in [f for f in proj.funcs.values() if f.module is m]:
            for c in ast.walk(fi.node):
                if not isinstance(c, ast.Subscript):
                    continue
                sl = c.slice.elts if isinstance(c.slice, ast.Tuple) else [c.slice]
                for s in sl:
                    if isinstance(s, ast.Slice) and s.upper is None and isinstance(s.lower, ast.UnaryOp) and isinstance(s.lower.op, ast.USub) \
                            and not isinstance(s.lower.operand, ast.Constant):
                        n += 1
                        rep.touch(m)
                        op = s.lower.operand
                        if isinstance(op, ast.BinOp) and isinstance(op.op, ast.Sub):
                            a, b = ast.unparse(op.left).replace(' ', ''), ast.unparse(op.right).replace(' ', '')
                            guarded = any(isinstance(x, ast.Compare) and len(x.ops) == 1 and isinstance(x.ops[0], (ast.Eq, ast.NotEq, ast.Gt, ast.Lt))
                                          and {ast.unparse(x.left).replace(' ', ''), ast.unparse(x.comparators[0]).replace(' ', '')} == {a, b}
                                          for x in ast.walk(fi.node) if not any(x is y for y in ast.walk(ast.Module(body=[s2 for s2 in fi.node.body if isinstance(s2, ast.Assert)], type_ignores=[]))))
                            if guarded:
                                rep.ok('NZ1', fi.qual, f'`{ast.unparse(c)[:50]}`: the empty case {a}=={b} is handled separately', m, c)
                            else:
                                rep.violation('NZ1', fi.qual, f'`{ast.unparse(c)[:60]}`: for {a} == {b} the bound is -0 and the slice returns the WHOLE array instead of an empty '
                                              f'one (no guard for that case in the function)', m, c)
                        else:
                            rep.ok('NZ1', fi.qual, f'`{ast.unparse(c)[:50]}`: bound is a single (positive) quantity', m, c)
    rep.count('NZ1.negative_lower_slices', n)
    return n


def ro1(proj, rep, modules):
    rep.rule('RO1', RULE_RO1)
    n = 0
    for mq in modules:
        m = proj.mod(mq)
        for c in ast.walk(m.tree):
            if isinstance(c, ast.Call) and ast.unparse(c.func).split('.')[-1] in ('reshape', 'ravel', 'flatten'):
                n += 1
                o = next((k.value for k in c.keywords if k.arg == 'order'), None)
                if o is not None and not (isinstance(o, ast.Constant) and o.value in ('C', 'F')):
                    rep.touch(m)
                    rep.violation('RO1', mq, f'`{ast.unparse(c)[:80]}` unfolds in order={ast.unparse(o)}: the result depends on the memory layout of the argument', m, c)
        rep.touch(m)
    rep.count('RO1.reshape_calls', n)
    if n:
        rep.ok('RO1', ','.join(modules)[:60], f'{n} reshape / ravel calls, none with a layout-dependent order', proj.mod(modules[0]), proj.mod(modules[0]).tree, text='reshape order')
    return n


def dt2(proj, rep, modules):
    rep.rule('DT2', RULE_DT2)
    n = 0
    for mq in modules:
        m = proj.mod(mq)
        rep.touch(m)
        for fi in [f for f in proj.funcs.values() if f.module is m]:
            n += 1
            bad = None
            for c in ast.walk(fi.node):
                if isinstance(c, ast.Attribute) and c.attr in ('int8', 'uint8', 'int16', 'uint16') and isinstance(c.value, ast.Name) and c.value.id in ('np', 'numpy', 'torch'):
                    bad = c
                    break
            if bad is not None:
                st = bad
                while not isinstance(st, ast.stmt):
                    st = st._parent
                rep.violation('DT2', fi.qual, f'`{ast.unparse(st)[:90]}` uses the narrow integer dtype {ast.unparse(bad)} in index / occupation arithmetic: values beyond its range '
                              f'wrap silently', m, st)
            else:
                rep.ok('DT2', fi.qual, 'no narrow integer dtype', m, fi.node, text=f'{fi.qual} dtypes')
    rep.count('DT2.functions', n)
    return n


def kr1(proj, rep, modules):
    rep.rule('KR1', RULE_KR1)
    n = 0
    for mq in modules:
        m = proj.mod(mq)
        for fi in [f for f in proj.funcs.values() if f.module is m]:
            for c in ast.walk(fi.node):
                if not (isinstance(c, ast.Call) and ast.unparse(c.func).split('.')[-1] in ('einsum', 'contract') and len(c.args) == 5):
                    continue
                try:
                    l1, l2, out = [[e.value for e in c.args[k].elts] for k in (1, 3, 4)]
                except AttributeError:
                    continue
                if not (len(l1) == 3 and len(l2) == 3 and len(out) == 6 and len(set(l1 + l2)) == 6 and sorted(out) == sorted(l1 + l2)):
                    continue
                par = getattr(c, '_parent', None)
                if not (isinstance(par, ast.Attribute) and par.attr == 'reshape'):
                    continue
                n += 1
                rep.touch(m)
                want = [l1[0], l2[0], l1[1], l2[1], l1[2], l2[2]]
                if out == want:
                    rep.ok('KR1', fi.qual, f'batched kron: output {out} = (i, j, r1, r2, c1, c2)', m, c)
                elif out[:2] == [l1[0], l2[0]] and out[2:4] == [l2[1], l1[1]] and out[4:] == [l2[2], l1[2]]:
                    rep.violation('KR1', fi.qual, f'`{ast.unparse(c)[:100]}`: the batch legs are ordered (first, second) but rows and columns are merged (second, first): element '
                                  f'(a,b) of the result is kron(Y_b, X_a), not kron(X_a, Y_b) - the documented tensor-product order is reversed', m, c)
                else:
                    rep.violation('KR1', fi.qual, f'`{ast.unparse(c)[:100]}`: output legs {out} are not (i, j, r1, r2, c1, c2) = {want}: rows and columns of the product are '
                                  f'merged in different factor orders (the elements are not Kronecker products; not Hermitian for Hermitian factors)', m, c)
    rep.count('KR1.batched_kron', n)
    return n


# ------------------------------------------------------------------------------------------------ AR3 / CS1 / ER1 / IT1 / EO1 / NZ2
RULE_AR3 = ('AR3: at a resolved call of a numqi function / constructor no two arguments are CROSSED by name: if the bare name `x` is passed to the parameter called '
            '`y` while the bare name `y` is passed to the parameter called `x`, the two slots are swapped (e.g. Trace1PSD(dim, batch_size, rank) for a '
            'signature (dim, rank, batch_size)).')
RULE_CS1 = ('CS1: all call sites of one function that pass the same two bare names as positional arguments pass them in the same order; a site with the opposite '
            'order (get_dicke_number(dimB, kext) next to get_dicke_number(kext, dimB)) binds them to swapped parameters.')
RULE_ER1 = ('ER1: in the index-relabelling primitives every value that is returned depends on the target-qubit parameter `index` (through the leg lists / '
            'reshapes built from it): a shortcut path whose result does not read `index` applies the operator in register order, whatever order the '
            'targets were given in.')
RULE_IT1 = ('IT1: an iterator object (itertools.*, zip, map, a generator expression) bound to a name is consumed by at most one loop / list() / generator on any '
            'straight-line path: a second consumer sees it empty (e.g. counting it with len(list(it)) before the loop that was built on it runs).')
RULE_EO1 = ('EO1: a single-operand einsum that traces out subsystems of an operator reshaped to (row dims..., column dims...) lists the kept ROW legs before the '
            'kept COLUMN legs in its output; the reverse order returns the transpose (= complex conjugate for a Hermitian reduced state).')
RULE_NZ2 = ('NZ2: a slice `x[..., :-k]` with a non-literal k drops the last k entries only for k > 0; for k == 0 it is `[:0]`, the EMPTY array, not everything. '
            'A k that can be 0 (an `0 if flag else 1` expression) needs the positive form `x[..., :n-k]` or a guard.')


def ar3(proj, rep, modules=None):
    from ..project import bind_call
    rep.rule('AR3', RULE_AR3)
    n = 0
    for fi in proj.iter_functions():
        m = fi.module
        if modules is not None and not any(m.name == q or m.name.startswith(q + '.') for q in modules):
            continue
        for c in ast.walk(fi.node):
            if not isinstance(c, ast.Call) or len(c.args) + len(c.keywords) < 2:
                continue
            r = resolve_callee(proj, m, c)
            callee = r.node if r.kind == 'func' else (r.node.methods.get('__init__') if r.kind == 'class' else None)
            if callee is None:
                continue
            try:
                b = bind_call(c, callee)
            except Exception:
                continue
            named = {p: a.id for p, a in b.args.items() if isinstance(a, ast.Name) and len(a.id) >= 3 and len(p) >= 3}    # loop letters (i, j, x) carry no role
            if len(named) < 2:
                continue
            n += 1
            crossed = [(p, a) for p, a in named.items() if a != p and a in named and named[a] == p]
            if crossed:
                p, a = crossed[0]
                rep.touch(m)
                rep.violation('AR3', fi.qual, f'`{ast.unparse(c)[:90]}` passes `{a}` as parameter `{p}` and `{p}` as parameter `{a}` of {callee.qual}: the two slots are swapped', m, c)
    rep.count('AR3.call_sites_with_named_arguments', n)
    if n:
        rep.ok('AR3', 'package', f'{n} resolved call sites with two or more bare-name arguments: no crossed pair', proj.mod('numqi.utils'), proj.mod('numqi.utils').tree, text='crossed names')
    return n


def cs1(proj, rep, modules=None):
    rep.rule('CS1', RULE_CS1)
    sites = {}
    for fi in proj.iter_functions():
        m = fi.module
        for c in ast.walk(fi.node):
            if isinstance(c, ast.Call) and len(c.args) >= 2 and all(isinstance(a, (ast.Name, ast.Attribute)) for a in c.args[:2]):
                r = resolve_callee(proj, m, c)
                if r.kind != 'func':
                    continue
                a0, a1 = ast.unparse(c.args[0]), ast.unparse(c.args[1])
                if a0 == a1 or len(a0) < 3 or len(a1) < 3:
                    continue
                sites.setdefault((r.qual, frozenset((a0, a1))), []).append(((a0, a1), fi, c))
    n = 0
    for (q, pair), lst in sites.items():
        if len(lst) < 2:
            continue
        n += 1
        orders = {}
        for o, fi, c in lst:
            orders.setdefault(o, []).append((fi, c))
        if len(orders) > 1:
            major = max(orders.items(), key=lambda kv: len(kv[1]))[0]
            for o, ss in orders.items():
                if o != major:
                    fi, c = ss[0]
                    rep.touch(fi.module)
                    rep.violation('CS1', fi.qual, f'`{ast.unparse(c)[:80]}` passes ({o[0]}, {o[1]}) while {len(orders[major])} other call site(s) of {q} pass '
                                  f'({major[0]}, {major[1]}): the two arguments reach swapped parameters at one of the sites', fi.module, c)
    rep.count('CS1.function_argument_pairs_with_several_sites', n)
    if n:
        rep.ok('CS1', 'package', f'{n} (function, argument pair) groups with two or more call sites use one order', proj.mod('numqi.utils'), proj.mod('numqi.utils').tree, text='call-site order')
    return n


def er1(proj, rep, func_quals, pname='index'):
    rep.rule('ER1', RULE_ER1)
    n = 0
    for q in func_quals:
        fi = proj.func(q)
        m = fi.module
        rep.touch(m)
        if pname not in fi.all_params:
            continue
        # names that depend on `index` (transitively, flow-insensitively)
        dep = {pname}
        changed = True
        while changed:
            changed = False
            for s in ast.walk(fi.node):
                tg = []
                val = None
                if isinstance(s, ast.Assign):
                    val = s.value
                    for t in s.targets:
                        tg += [e for e in (t.elts if isinstance(t, ast.Tuple) else [t])]
                elif isinstance(s, ast.For):
                    val = s.iter
                    tg = [s.target] if not isinstance(s.target, ast.Tuple) else list(s.target.elts)
                elif isinstance(s, ast.AugAssign):
                    val = s.value
                    tg = [s.target]
                if val is None:
                    continue
                if any(isinstance(x, ast.Name) and x.id in dep for x in ast.walk(val)):
                    for t in tg:
                        base = t
                        while isinstance(base, ast.Subscript):
                            base = base.value
                        if isinstance(base, ast.Name) and base.id not in dep:
                            dep.add(base.id)
                            changed = True
        for r in [x for x in ast.walk(fi.node) if isinstance(x, ast.Return) and x.value is not None]:
            n += 1
            if any(isinstance(x, ast.Name) and x.id in dep for x in ast.walk(r.value)):
                rep.ok('ER1', q, f'`{ast.unparse(r)[:60]}` depends on `{pname}`', m, r)
            else:
                rep.violation('ER1', q, f'`{ast.unparse(r)[:80]}` does not depend on `{pname}`: this path applies / contracts the operator in register order whatever order (or '
                              f'set) of target qubits was requested', m, r)
    rep.count('ER1.returns', n)
    return n


_ITER_MAKERS = {'combinations', 'permutations', 'product', 'combinations_with_replacement', 'zip', 'map', 'filter', 'chain', 'groupby', 'islice', 'iter'}
_CONSUMERS = {'list', 'tuple', 'sum', 'max', 'min', 'sorted', 'set', 'dict', 'any', 'all', 'len'}


def it1(proj, rep, modules):
    rep.rule('IT1', RULE_IT1)
    n = 0
    for mq in modules:
        m = proj.mod(mq)
        for fi in [f for f in proj.funcs.values() if f.module is m]:
            for blk in [x for x in ast.walk(fi.node) if hasattr(x, 'body') and isinstance(getattr(x, 'body'), list)]:
                body = blk.body
                for i, st in enumerate(body):
                    if not (isinstance(st, ast.Assign) and isinstance(st.targets[0], ast.Name)):
                        continue
                    v = st.value
                    is_iter = isinstance(v, ast.GeneratorExp) or (isinstance(v, ast.Call) and ast.unparse(v.func).split('.')[-1] in _ITER_MAKERS
                                                                   and not ast.unparse(v.func).startswith(('np.', 'torch.')))
                    if not is_iter:
                        continue
                    name = st.targets[0].id
                    n += 1
                    rep.touch(m)
                    uses = []
                    for s2 in body[i + 1:]:
                        if isinstance(s2, ast.Assign) and any(isinstance(t, ast.Name) and t.id == name for t in s2.targets) and not any(
                                isinstance(x, ast.Name) and x.id == name for x in ast.walk(s2.value)):
                            break       # rebound to something else
                        for x in ast.walk(s2):
                            if isinstance(x, ast.Name) and x.id == name and isinstance(x.ctx, ast.Load):
                                # `name = wrapper(name)` hands the single consumption over to the new object bound to the same name
                                own = x
                                rewrap = False
                                while hasattr(own, '_parent') and own is not s2:
                                    own = own._parent
                                    if isinstance(own, ast.Assign) and any(isinstance(t, ast.Name) and t.id == name for t in own.targets):
                                        rewrap = True
                                if rewrap:
                                    continue
                                par = x._parent
                                how = None
                                if isinstance(par, ast.comprehension) and par.iter is x:
                                    how = 'comprehension'
                                elif isinstance(par, ast.For) and par.iter is x:
                                    how = 'for loop'
                                elif isinstance(par, ast.Call) and x in par.args and ast.unparse(par.func).split('.')[-1] in (_CONSUMERS | _ITER_MAKERS | {'array', 'stack', 'tqdm'}):
                                    how = ast.unparse(par.func).split('.')[-1] + '()'
                                elif isinstance(par, ast.Starred):
                                    how = 'star-unpacking'
                                if how:
                                    uses.append((how, x, s2))
                    # wrappers that just re-wrap the iterator (tqdm(it), map(f, it), (.. for x in it)) transfer the single consumption to the new name: count consumers of distinct statements
                    stmts = []
                    for how, x, s2 in uses:
                        if s2 not in stmts:
                            stmts.append(s2)
                    if len(stmts) >= 2:
                        rep.violation('IT1', fi.qual, f'the iterator `{name} = {ast.unparse(v)[:50]}` is consumed in two places (`{ast.unparse(stmts[0])[:50]}` and '
                                      f'`{ast.unparse(stmts[1])[:50]}`): whichever runs second sees it exhausted', m, stmts[1])
                    else:
                        rep.ok('IT1', fi.qual, f'iterator `{name}` has a single consumer', m, st)
    rep.count('IT1.named_iterators', n)
    return n


def eo1(proj, rep, modules):
    rep.rule('EO1', RULE_EO1)
    n = 0
    for mq in modules:
        m = proj.mod(mq)
        for fi in [f for f in proj.funcs.values() if f.module is m]:
            for c in ast.walk(fi.node):
                if not (isinstance(c, ast.Call) and ast.unparse(c.func).split('.')[-1] == 'einsum' and len(c.args) == 3):
                    continue
                try:
                    legs = [e.value for e in c.args[1].elts]
                    out = [e.value for e in c.args[2].elts]
                except AttributeError:
                    continue
                if len(legs) % 2 or len(legs) < 4 or not out or len(out) % 2:
                    continue
                k = len(legs) // 2
                rows, cols = legs[:k], legs[k:]
                # traced subsystems share a leg between the two halves
                traced = [a for a, b in zip(rows, cols) if a == b]
                if not traced:
                    continue
                kept_r = [a for a, b in zip(rows, cols) if a != b]
                kept_c = [b for a, b in zip(rows, cols) if a != b]
                if sorted(out) != sorted(kept_r + kept_c):
                    continue
                n += 1
                rep.touch(m)
                if out == kept_r + kept_c:
                    rep.ok('EO1', fi.qual, f'`{ast.unparse(c)[-50:]}`: kept row legs {kept_r} before kept column legs {kept_c}', m, c)
                elif out == kept_c + kept_r:
                    rep.violation('EO1', fi.qual, f'`{ast.unparse(c)[:100]}`: the output lists the kept COLUMN legs {kept_c} before the kept row legs {kept_r}: the reduced operator is '
                                  f'returned transposed (for a Hermitian state: complex conjugated), so states with complex marginals are judged wrongly', m, c)
                else:
                    rep.undecided('EO1', fi.qual, f'`{ast.unparse(c)[:80]}`: output order {out} not recognised', m, c)
                    n -= 1
    rep.count('EO1.partial_trace_einsums', n)
    return n


def nz2(proj, rep, modules):
    rep.rule('NZ2', RULE_NZ2)
    n = 0
    for mq in modules:
        m = proj.mod(mq)
        for fi in [f for f in proj.funcs.values() if f.module is m]:
            for c in ast.walk(fi.node):
                if not isinstance(c, ast.Subscript):
                    continue
                sl = c.slice.elts if isinstance(c.slice, ast.Tuple) else [c.slice]
                for s in sl:
                    if isinstance(s, ast.Slice) and s.lower is None and isinstance(s.upper, ast.UnaryOp) and isinstance(s.upper.op, ast.USub) and isinstance(s.upper.operand, ast.Name):
                        k = s.upper.operand.id
                        n += 1
                        rep.touch(m)
                        defs = [x.value for x in ast.walk(fi.node) if isinstance(x, ast.Assign) and isinstance(x.targets[0], ast.Name) and x.targets[0].id == k]
                        zero = any(isinstance(d, ast.IfExp) and any(isinstance(z, ast.Constant) and z.value == 0 for z in (d.body, d.orelse)) for d in defs) or \
                            any(isinstance(d, ast.Constant) and d.value == 0 for d in defs) or any(isinstance(d, ast.Call) and ast.unparse(d.func) == 'int' and d.args
                                                                                                  and isinstance(d.args[0], (ast.Compare, ast.UnaryOp, ast.Name)) for d in defs)
                        if zero:
                            rep.violation('NZ2', fi.qual, f'`{ast.unparse(c)[:60]}`: `{k}` can be 0 (`{ast.unparse(defs[0])[:40]}`); `[:-0]` is `[:0]`, the EMPTY array, so on that path '
                                          f'everything is dropped instead of nothing', m, c)
                        else:
                            rep.ok('NZ2', fi.qual, f'`{ast.unparse(c)[:50]}`: `{k}` is not a zero-capable flag expression', m, c)
    rep.count('NZ2.negative_upper_slices', n)
    return n


# ------------------------------------------------------------------------------------------------ DT3
RULE_DT3 = ('DT3: in a torch branch that must follow the precision of its input, a normalising factor is not built from integer-only tensors: '
            '`torch.sqrt(<product of torch.arange(...) without dtype>)` is evaluated in float32 whatever the input precision, so float64 / complex128 '
            'input loses half of its digits (about 1e-8 relative).')


def dt3(proj, rep, modules):
    rep.rule('DT3', RULE_DT3)
    n = 0
    for mq in modules:
        m = proj.mod(mq)
        for fi in [f for f in proj.funcs.values() if f.module is m]:
            for c in ast.walk(fi.node):
                if not (isinstance(c, ast.Call) and ast.unparse(c.func) in ('torch.sqrt', 'torch.rsqrt') and c.args):
                    continue
                ar = [x for x in ast.walk(c.args[0]) if isinstance(x, ast.Call) and ast.unparse(x.func) == 'torch.arange']
                if not ar:
                    continue
                n += 1
                rep.touch(m)
                typed = any(any(k.arg == 'dtype' for k in x.keywords) for x in ar) or any(isinstance(x, ast.Call) and ast.unparse(x.func) == 'torch.tensor'
                                                                                          and any(k.arg == 'dtype' for k in x.keywords) for x in ast.walk(c.args[0]))
                if typed:
                    rep.ok('DT3', fi.qual, f'`{ast.unparse(c)[:70]}`: a factor carries an explicit floating dtype', m, c)
                else:
                    rep.violation('DT3', fi.qual, f'`{ast.unparse(c)[:90]}`: every factor is an integer tensor (torch.arange without dtype); torch.sqrt of an int64 tensor is float32, '
                                  f'so the normalisation carries float32 rounding (~1e-8) even for float64 / complex128 input', m, c)
    rep.count('DT3.torch_sqrt_of_arange', n)
    return n


# ------------------------------------------------------------------------------------------------ UP1 / FW1 / FZ1 / SO1 / ID1 / EV1 / ST2 / PU2
RULE_UP1 = ('UP1: a parameter that the function normalises (`flag = bool(flag)`, `n = int(n)`) is used afterwards: a parameter whose only reads are its own '
            'normalisation is silently ignored (the documented option has no effect).')
RULE_FW1 = ('FW1: a parameter that a function accepts but never reads is forwarded to the numqi callee that has a parameter of the same name: calling '
            '`g(x)` where g also takes `zero_eps` while the caller\'s own `zero_eps` is unused drops the caller\'s value and g runs with its default.')
RULE_FZ1 = ('FZ1: `param or default` is not used on a numeric parameter inside int() / float() / arithmetic: 0 is a legitimate value (spin 0, seed 0, index 0) '
            'and is silently replaced by the default.')
RULE_SO1 = ('SO1: a list built from a set (`list(a - b)`, `list(set(..))`) is not used as an index / ordered sequence: the iteration order of a set of ints is '
            'increasing only while all values are smaller than the hash-table size; beyond that the order is arbitrary. Use sorted(...).')
RULE_ID1 = ('ID1: a flag parameter is not tested with `is True` / `is False`: numpy booleans (the result of any array comparison) and 0/1 are equal to but not '
            'identical with True/False, so neither branch runs and the flag is silently ignored.')
RULE_EV1 = ('EV1: eigenvectors are the COLUMNS of the matrix returned by eigh / eig / eigsh: the k-th eigenvector is `V[:, k]`. `eigh(A)[1][k]` (or `V[k]`) is '
            'the k-th ROW: a unit vector, but not an eigenvector.')
RULE_ST2 = ('ST2: the shape that is used to restore a batch layout at the end (`ret.reshape(shape + ...)`) is recorded BEFORE the array is flattened: '
            '`shape = x.shape` after `x = ....reshape(-1)` records the flat shape, so non-1-D batches come back flat.')
RULE_PU2 = ('PU2: a builder method that stores a gate object it was given never assigns attributes of that object: the object may be shared with other '
            'circuits, so re-targeting it silently changes every earlier placement.')


def _reads(fn, p):
    out = []
    for x in ast.walk(fn):
        if isinstance(x, ast.Name) and x.id == p and isinstance(x.ctx, ast.Load):
            st = x
            while not isinstance(st, ast.stmt):
                st = st._parent
            selfnorm = isinstance(st, ast.Assign) and len(st.targets) == 1 and isinstance(st.targets[0], ast.Name) and st.targets[0].id == p
            out.append((x, st, selfnorm))
    return out


def up1_fw1(proj, rep, modules=None):
    from ..project import bind_call
    rep.rule('UP1', RULE_UP1)
    rep.rule('FW1', RULE_FW1)
    n1 = n2 = 0
    for fi in proj.iter_functions():
        m = fi.module
        if modules is not None and not any(m.name == q or m.name.startswith(q + '.') for q in modules):
            continue
        fn = fi.node
        if not isinstance(fn, ast.FunctionDef) or (fn.name.startswith('__') and fn.name != '__init__'):
            continue
        params = [a.arg for a in fn.args.posonlyargs + fn.args.args + fn.args.kwonlyargs if a.arg not in ('self', 'cls', 'ctx')]
        for p in params:
            rd = _reads(fn, p)
            if rd and all(s for _, _, s in rd):
                n1 += 1
                rep.touch(m)
                rep.violation('UP1', fi.qual, f'parameter `{p}` is only read by its own normalisation `{ast.unparse(rd[0][1])[:50]}`: the option is ignored', m, rd[0][1])
            elif rd:
                n1 += 1
            if not rd:
                # FW1: same-named parameter of a callee left at its default
                for c in ast.walk(fn):
                    if not isinstance(c, ast.Call):
                        continue
                    r = resolve_callee(proj, m, c)
                    callee = r.node if r.kind == 'func' else (r.node.methods.get('__init__') if r.kind == 'class' else None)
                    if callee is None or p not in callee.all_params or callee is fi:
                        continue
                    try:
                        b = bind_call(c, callee)
                    except Exception:
                        continue
                    n2 += 1
                    if p not in b.args or b.args.get(p) is None:
                        rep.touch(m)
                        rep.violation('FW1', fi.qual, f'`{ast.unparse(c)[:70]}`: {r.qual} also takes `{p}`, but the caller\'s own `{p}` is never read, so the callee runs with its '
                                      f'default and the value given to {fi.qual.rsplit(".", 1)[1]} is ignored', m, c)
    rep.count('UP1.parameters_read', n1)
    rep.count('FW1.unread_parameters_checked', n2)
    if n1:
        rep.ok('UP1', 'package', f'{n1} parameters are read beyond their own normalisation', proj.mod('numqi.utils'), proj.mod('numqi.utils').tree, text='parameter use')
    return n1


def fz1_so1_id1_ev1(proj, rep, modules=None):
    for k, v in (('FZ1', RULE_FZ1), ('SO1', RULE_SO1), ('ID1', RULE_ID1), ('EV1', RULE_EV1)):
        rep.rule(k, v)
    nfun = 0
    nev = 0
    for fi in proj.iter_functions():
        m = fi.module
        if modules is not None and not any(m.name == q or m.name.startswith(q + '.') for q in modules):
            continue
        fn = fi.node
        nfun += 1
        params = set(fi.all_params)
        eig_names = set()
        for s in ast.walk(fn):
            if isinstance(s, ast.Assign) and isinstance(s.value, ast.Call) and ast.unparse(s.value.func).split('.')[-1] in ('eigh', 'eig', 'eigsh', 'eigs'):
                t = s.targets[0]
                if isinstance(t, ast.Tuple) and len(t.elts) == 2 and isinstance(t.elts[1], ast.Name):
                    eig_names.add(t.elts[1].id)
        for x in ast.walk(fn):
            # FZ1
            if isinstance(x, ast.BoolOp) and isinstance(x.op, ast.Or) and isinstance(x.values[0], ast.Name) and x.values[0].id in params:
                par = x._parent
                zero_default = isinstance(x.values[-1], ast.Constant) and x.values[-1].value in (0, 0.0, False) and not isinstance(x.values[-1].value, str)
                if zero_default:
                    continue        # `n or 0` maps 0 to 0
                if (isinstance(par, ast.Call) and isinstance(par.func, ast.Name) and par.func.id in ('int', 'float')) or isinstance(par, ast.BinOp):
                    rep.touch(m)
                    rep.violation('FZ1', fi.qual, f'`{ast.unparse(par)[:60]}`: `{x.values[0].id} or ...` treats the legitimate value 0 like a missing argument', m, x)
            # SO1
            if isinstance(x, ast.Subscript) and isinstance(x.slice, ast.Call) and isinstance(x.slice.func, ast.Name) and x.slice.func.id == 'list' and x.slice.args:
                a = x.slice.args[0]
                setty = (isinstance(a, ast.BinOp) and isinstance(a.op, (ast.Sub, ast.BitAnd, ast.BitOr, ast.BitXor))
                         and any(isinstance(y, ast.Call) and getattr(y.func, 'id', '') in ('set', 'frozenset') for y in ast.walk(a))) \
                    or (isinstance(a, ast.Call) and getattr(a.func, 'id', '') in ('set', 'frozenset')) or isinstance(a, (ast.Set, ast.SetComp))
                if setty:
                    rep.touch(m)
                    rep.violation('SO1', fi.qual, f'`{ast.unparse(x)[:70]}` indexes with a list taken from a set: its order is arbitrary once a value exceeds the set\'s table size '
                                  f'(from about 8 on), so the selected entries come out unsorted', m, x)
            # ID1
            if isinstance(x, ast.Compare) and len(x.ops) == 1 and isinstance(x.ops[0], (ast.Is, ast.IsNot)) and isinstance(x.comparators[0], ast.Constant) \
                    and isinstance(x.comparators[0].value, bool) and isinstance(x.left, ast.Name) and x.left.id in params:
                rep.touch(m)
                rep.violation('ID1', fi.qual, f'`{ast.unparse(x)}`: identity test on a flag parameter; np.bool_ / 0 / 1 pass the `in {{None,True,False}}` style checks but match '
                              f'neither `is True` nor `is False`, so the flag is ignored', m, x)
            # EV1
            if isinstance(x, ast.Subscript):
                base = x.value
                # eigh(...)[1][k]
                if isinstance(base, ast.Subscript) and isinstance(base.slice, ast.Constant) and base.slice.value == 1 and isinstance(base.value, ast.Call) \
                        and ast.unparse(base.value.func).split('.')[-1] in ('eigh', 'eig', 'eigsh', 'eigs'):
                    nev += 1
                    if not isinstance(x.slice, ast.Tuple):
                        rep.touch(m)
                        rep.violation('EV1', fi.qual, f'`{ast.unparse(x)[:70]}` takes a ROW of the eigenvector matrix; the eigenvectors are its columns (`[:, k]`)', m, x)
                elif isinstance(base, ast.Name) and base.id in eig_names and isinstance(x.ctx, ast.Load):
                    nev += 1
                    if isinstance(x.slice, (ast.Constant, ast.UnaryOp)) and not isinstance(x.slice, ast.Tuple):
                        rep.touch(m)
                        rep.violation('EV1', fi.qual, f'`{ast.unparse(x)[:50]}` takes a ROW of the eigenvector matrix `{base.id}`; the eigenvectors are its columns', m, x)
    rep.count('LINT.functions_scanned', nfun)
    rep.count('EV1.eigenvector_selections', nev)
    if nfun:
        rep.ok('FZ1', 'package', f'{nfun} functions scanned: no falsy-zero default, set-ordered index, identity test on a flag or eigenvector row ({nev} eigenvector selections)',
               proj.mod('numqi.utils'), proj.mod('numqi.utils').tree, text='lint sweep')
    return nfun


def st2(proj, rep, modules=None):
    rep.rule('ST2', RULE_ST2)
    n = 0
    for fi in proj.iter_functions():
        m = fi.module
        if modules is not None and not any(m.name == q or m.name.startswith(q + '.') for q in modules):
            continue
        bodies = [getattr(x, f) for x in ast.walk(fi.node) for f in ('body', 'orelse', 'finalbody') if isinstance(getattr(x, f, None), list)]
        for body in bodies:
            for i, st in enumerate(body):
                if not (isinstance(st, ast.Assign) and isinstance(st.targets[0], ast.Name) and isinstance(st.value, ast.Attribute) and st.value.attr == 'shape'
                        and isinstance(st.value.value, ast.Name)):
                    continue
                arr, sh = st.value.value.id, st.targets[0].id
                # is the snapshot used to restore a layout later?
                restored = any(isinstance(c, ast.Call) and isinstance(c.func, ast.Attribute) and c.func.attr in ('reshape', 'view') and any(
                    isinstance(y, ast.Name) and y.id == sh for a in c.args for y in ast.walk(a)) for s2 in body[i + 1:] for c in ast.walk(s2))
                if not restored:
                    continue
                n += 1
                rep.touch(m)
                flat_before = [s2 for s2 in body[:i] if isinstance(s2, ast.Assign) and any(isinstance(t, ast.Name) and t.id == arr for t in s2.targets)
                               and any(isinstance(c, ast.Call) and isinstance(c.func, ast.Attribute) and c.func.attr in ('reshape', 'view') and len(c.args) == 1
                                       and ast.unparse(c.args[0]).replace(' ', '') == '-1' for c in ast.walk(s2.value))]
                if flat_before:
                    rep.violation('ST2', fi.qual, f'`{ast.unparse(st)}` records the shape after `{ast.unparse(flat_before[-1])[:60]}` already flattened `{arr}`: the later '
                                  f'reshape with `{sh}` restores a flat layout, so 2-D / scalar batches come back with the wrong shape', m, st)
                else:
                    rep.ok('ST2', fi.qual, f'`{ast.unparse(st)}` taken before `{arr}` is flattened', m, st)
    rep.count('ST2.shape_snapshots', n)
    return n


def pu2(proj, rep, class_quals):
    rep.rule('PU2', RULE_PU2)
    n = 0
    for cq in class_quals:
        ci = proj.cls(cq)
        m = ci.module
        rep.touch(m)
        for name, fi in ci.methods.items():
            if name.endswith('_') and not name.startswith('__'):
                continue
            params = [p for p in fi.all_params if p not in ('self',)]
            if not params:
                continue
            n += 1
            bad = None
            for s in ast.walk(fi.node):
                if isinstance(s, (ast.Assign, ast.AugAssign)):
                    tg = s.targets if isinstance(s, ast.Assign) else [s.target]
                    for t in tg:
                        if isinstance(t, ast.Attribute) and isinstance(t.value, ast.Name) and t.value.id in params:
                            # a parameter re-bound to a fresh object first is not the caller's object
                            rebound = any(isinstance(s2, ast.Assign) and any(isinstance(t2, ast.Name) and t2.id == t.value.id for t2 in s2.targets) and s2.lineno < s.lineno
                                          for s2 in ast.walk(fi.node))
                            if not rebound:
                                bad = (s, t.value.id)
            if bad:
                s, p = bad
                rep.violation('PU2', f'{cq}.{name}', f'`{ast.unparse(s)[:70]}` assigns an attribute of the object passed as `{p}`: a gate object shared with another circuit is '
                              f're-targeted there as well', m, s)
            else:
                rep.ok('PU2', f'{cq}.{name}', 'does not assign attributes of its arguments', m, fi.node, text=f'{cq}.{name} argument purity')
    rep.count('PU2.methods', n)
    return n
