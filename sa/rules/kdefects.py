"""K1/K2/K3/N1 — constructs whose meaning does not depend on any input.

A report from these rules cannot be a false alarm: the construct named is, by the semantics of
Python/NumPy alone, sufficient for the function to raise or to return a wrong constant on (part of)
its documented domain.
"""
import ast
from ..project import dotted_parts
from ..callgraph import resolve_callee
from ..dataflow import origins, _Opaque, own_nodes

RULE_K1 = ('K1: int(x)/float(x) is never applied to a name that the same straight-line block has already '
           'established to be a sequence of length >= 2 (assert len(x)==k with k>=2, unpacking of x into >= 2 targets) '
           'without an intervening rebinding of x; such a call raises TypeError for every input.')
RULE_K2 = ('K2: no expression `a / b * b` (true division followed by multiplication by the same operand): by '
           'left-to-right precedence it equals `a`, so an intended `a / (b*b)` normalisation is lost.')
RULE_K3 = ('K3: a name used as a dtype is never compared by ==/!= against a list/tuple display of dtypes; such a '
           'comparison is constantly False/True (membership needs `in`).')
RULE_N1 = ('N1: numpy.linalg.norm(x, axis=t): t is an int, a pair, or a name whose definitions are those; a tuple '
           'whose length is computed from the data (comprehension/filter) makes the call raise whenever that '
           'length exceeds 2 (NumPy accepts only an int or a 2-tuple).')


def _len_fact(test):
    """names proven to have len == k >= 2 by an assert test (conjunctions allowed)."""
    out = {}
    parts = [test]
    while parts:
        t = parts.pop()
        if isinstance(t, ast.BoolOp) and isinstance(t.op, ast.And):
            parts.extend(t.values)
            continue
        if isinstance(t, ast.Compare) and len(t.ops) == 1 and isinstance(t.ops[0], ast.Eq):
            l, r = t.left, t.comparators[0]
            for a, b in ((l, r), (r, l)):
                if isinstance(a, ast.Call) and isinstance(a.func, ast.Name) and a.func.id == 'len' \
                        and len(a.args) == 1 and isinstance(a.args[0], ast.Name) \
                        and isinstance(b, ast.Constant) and isinstance(b.value, int) and b.value >= 2:
                    out[a.args[0].id] = b.value
    return out


def _stores(stmt):
    names = set()
    for n in ast.walk(stmt):
        if isinstance(n, ast.Name) and isinstance(n.ctx, (ast.Store, ast.Del)):
            names.add(n.id)
    return names


def k1(proj, rep, modules):
    rep.rule('K1', RULE_K1)
    nfun = 0
    ncast = 0
    for fi in proj.iter_functions(modules):
        nfun += 1
        rep.touch(fi.module)

        def scan(body, facts):
            facts = dict(facts)
            for st in body:
                # casts inside this statement (not nested function scopes)
                for n in ast.walk(st):
                    if isinstance(n, ast.Call) and isinstance(n.func, ast.Name) and n.func.id in ('int', 'float') \
                            and len(n.args) == 1 and isinstance(n.args[0], ast.Name):
                        nonlocal_count[0] += 1
                        nm = n.args[0].id
                        if nm in facts and not _rebinds_before(st, n, nm):
                            rep.violation('K1', fi.qual,
                                          f'{n.func.id}({nm}) although `{facts[nm][1]}` established that {nm} has length '
                                          f'{facts[nm][0]}: TypeError for every input', fi.module, st)
                        else:
                            pass
                if isinstance(st, ast.Assert):
                    for nm, k in _len_fact(st.test).items():
                        facts[nm] = (k, ' '.join(ast.unparse(st).split()))
                elif isinstance(st, ast.Assign) and len(st.targets) == 1 and isinstance(st.targets[0], (ast.Tuple, ast.List)) \
                        and isinstance(st.value, ast.Name) and len(st.targets[0].elts) >= 2 \
                        and not any(isinstance(e, ast.Starred) for e in st.targets[0].elts):
                    facts[st.value.id] = (len(st.targets[0].elts), ' '.join(ast.unparse(st).split()))
                for nm in _stores(st):
                    if not (isinstance(st, ast.Assign) and isinstance(st.value, ast.Name) and st.value.id == nm):
                        facts.pop(nm, None)
                for sub in ('body', 'orelse', 'finalbody'):
                    b = getattr(st, sub, None)
                    if isinstance(b, list) and b and isinstance(b[0], ast.stmt) and not isinstance(st, (ast.FunctionDef, ast.ClassDef)):
                        scan(b, facts)
                if isinstance(st, ast.Try):
                    for h in st.handlers:
                        scan(h.body, facts)
        nonlocal_count = [0]
        scan(fi.node.body, {})
        ncast += nonlocal_count[0]
    rep.count('K1.functions', nfun)
    rep.count('K1.int_float_casts_of_names', ncast)
    rep.ok('K1', 'scope', f'{ncast} int()/float() casts of plain names in {nfun} functions examined')
    return ncast


def _rebinds_before(stmt, call, name):
    """`x = int(x)`-style statement: the cast happens before the store, so no."""
    return False


def k2(proj, rep, modules):
    rep.rule('K2', RULE_K2)
    ndiv = 0
    for mname, m in sorted(proj.modules.items()):
        if modules is not None and mname not in modules:
            continue
        rep.touch(m)
        for n in ast.walk(m.tree):
            if isinstance(n, ast.BinOp) and isinstance(n.op, ast.Div):
                ndiv += 1
            if isinstance(n, ast.BinOp) and isinstance(n.op, ast.Mult) and isinstance(n.left, ast.BinOp) \
                    and isinstance(n.left.op, ast.Div):
                b, b2 = n.left.right, n.right
                if isinstance(b, (ast.Name, ast.Attribute, ast.Subscript)) and ast.dump(b) == ast.dump(b2):
                    fn = _enclosing_qual(proj, m, n)
                    rep.violation('K2', fn, f'`{ast.unparse(n)}` parses as ({ast.unparse(n.left)})*{ast.unparse(b2)} '
                                  f'== {ast.unparse(n.left.left)}: the division is cancelled', m, n)
    rep.count('K2.true_divisions', ndiv)
    rep.ok('K2', 'scope', f'{ndiv} true divisions examined')
    return ndiv


def _enclosing_qual(proj, m, node):
    names = []
    p = node
    while p is not None:
        if isinstance(p, (ast.FunctionDef, ast.AsyncFunctionDef, ast.ClassDef)):
            names.append(p.name)
        p = getattr(p, '_parent', None)
    return '.'.join([m.name] + names[::-1])


DTYPE_NAMES = {'float16', 'float32', 'float64', 'complex64', 'complex128', 'int8', 'int16', 'int32', 'int64',
               'uint8', 'bool', 'bool_', 'double', 'float', 'cfloat', 'cdouble', 'half'}


def _is_dtype_attr(proj, m, e):
    parts = dotted_parts(e)
    if not parts or len(parts) < 2 or parts[-1] not in DTYPE_NAMES:
        return False
    r = proj.resolve_expr(m, e)
    return r.kind == 'external' and r.qual.split('.')[0] in ('torch', 'numpy')


def k3(proj, rep, modules):
    rep.rule('K3', RULE_K3)
    ncmp = 0
    for fi in proj.iter_functions(modules):
        m = fi.module
        for n in own_nodes(fi.node):
            if not (isinstance(n, ast.Compare) and len(n.ops) == 1):
                continue
            l, r = n.left, n.comparators[0]
            sides = [(l, r), (r, l)]
            for a, b in sides:
                if isinstance(b, (ast.List, ast.Tuple, ast.Set)) and len(b.elts) >= 1 \
                        and all(_is_dtype_attr(proj, m, e) for e in b.elts) and isinstance(a, (ast.Name, ast.Attribute)):
                    ncmp += 1
                    if isinstance(n.ops[0], (ast.Eq, ast.NotEq)):
                        rep.violation('K3', fi.qual,
                                      f'`{ast.unparse(n)}` compares a dtype with a {type(b).__name__.lower()} display: '
                                      f'constantly {"False" if isinstance(n.ops[0], ast.Eq) else "True"}', m, n)
                    elif isinstance(n.ops[0], (ast.In, ast.NotIn)) and a is l:
                        rep.ok('K3', fi.qual, f'membership test `{ast.unparse(n)}`', m, n)
    rep.count('K3.dtype_display_comparisons', ncmp)
    return ncmp


def n1(proj, rep, modules):
    rep.rule('N1', RULE_N1)
    nsite = 0
    for fi in proj.iter_functions(modules):
        m = fi.module
        for n in own_nodes(fi.node):
            if not isinstance(n, ast.Call):
                continue
            r = resolve_callee(proj, m, n)
            if not (r.kind == 'external' and r.qual == 'numpy.linalg.norm'):
                continue
            ax = None
            for k in n.keywords:
                if k.arg == 'axis':
                    ax = k.value
            if ax is None and len(n.args) >= 3:
                ax = n.args[2]
            if ax is None:
                continue
            nsite += 1
            verdicts = []
            for o, m2, f2 in origins(proj, m, fi.node, ax):
                verdicts.append((_axis_kind(o), o, m2, f2))
            bad = [v for v in verdicts if v[0] == 'varlen']
            unk = [v for v in verdicts if v[0] == 'unknown']
            if bad:
                o = bad[0][1]
                where = f'{bad[0][2].relpath}:{getattr(o, "lineno", "?")}'
                rep.violation('N1', fi.qual,
                              f'axis={ast.unparse(ax)} is defined as `{ast.unparse(o)}` ({where}), a tuple whose length '
                              f'depends on the data; numpy.linalg.norm raises for length > 2', m, n)
            elif unk:
                rep.undecided('N1', fi.qual, f'axis={ast.unparse(ax)}: origin not classified', m, n)
            else:
                rep.ok('N1', fi.qual, f'axis={ast.unparse(ax)}', m, n)
    rep.count('N1.norm_axis_sites', nsite)
    return nsite


def _axis_kind(o):
    if isinstance(o, _Opaque):
        return 'unknown'
    if isinstance(o, ast.Constant) and (isinstance(o.value, int) or o.value is None):
        return 'ok'
    if isinstance(o, ast.UnaryOp) and isinstance(o.op, ast.USub) and isinstance(o.operand, ast.Constant):
        return 'ok'
    if isinstance(o, ast.Tuple):
        return 'ok' if len(o.elts) <= 2 else 'varlen'
    if isinstance(o, ast.Name):          # a parameter: caller's contract
        return 'ok'
    if isinstance(o, (ast.ListComp, ast.GeneratorExp)):
        return 'varlen'
    if isinstance(o, ast.Call) and isinstance(o.func, ast.Name) and o.func.id in ('tuple', 'list') and len(o.args) == 1:
        a = o.args[0]
        if isinstance(a, (ast.GeneratorExp, ast.ListComp)):
            return 'varlen'
        if isinstance(a, ast.Call) and isinstance(a.func, ast.Name) and a.func.id == 'range':
            if all(isinstance(x, ast.Constant) for x in a.args):
                return 'unknown'
            return 'varlen'
    if isinstance(o, ast.BinOp) or isinstance(o, ast.IfExp) or isinstance(o, ast.Attribute) or isinstance(o, ast.Subscript):
        return 'ok' if isinstance(o, (ast.BinOp,)) else 'unknown'
    return 'unknown'


RULE_RD1 = ('RD1: in a constructor with a `return_dm` option the density-matrix arm is the projector of the ket arm: it is computed from the '
            'ket by the outer-product idiom (x[:,None]*x.conj(), np.outer(x, x.conj()), x.reshape(-1,1)*x.conj()).  A density-matrix arm '
            'that is a multiple of the identity (np.eye(d)/d) is certainly not the projector of a ket for d >= 2.')


def rd1(proj, rep, modules=None):
    rep.rule('RD1', RULE_RD1)
    n = 0
    for fi in proj.iter_functions(modules):
        if 'return_dm' not in fi.all_params:
            continue
        m = fi.module
        rep.touch(m)
        for node in ast.walk(fi.node):
            if not (isinstance(node, ast.If) and isinstance(node.test, ast.Name) and node.test.id == 'return_dm'):
                continue
            n += 1
            dm_vals = [s.value for s in node.body if isinstance(s, ast.Assign)]
            if not dm_vals:
                rep.undecided('RD1', fi.qual, 'dm arm has no assignment', m, node)
                continue
            v = dm_vals[-1]
            t = ast.unparse(v).replace(' ', '')
            names = {x.id for x in ast.walk(v) if isinstance(x, ast.Name)}
            outer = ('.conj()' in t and ('[:,np.newaxis]' in t or '[:,None]' in t or '.reshape(-1,1)' in t)) or 'np.outer(' in t or 'einsum' in t \
                or ('[:,np.newaxis]*' in t)
            target = node.body[-1].targets[0].id if isinstance(node.body[-1], ast.Assign) and isinstance(node.body[-1].targets[0], ast.Name) else None
            if outer and target in names:
                rep.ok('RD1', fi.qual, f'dm arm `{ast.unparse(v)[:60]}` is the outer product of the ket', m, node)
            elif t.startswith('np.eye(') or t.startswith('numpy.eye('):
                rep.violation('RD1', fi.qual, f'with return_dm=True the function returns `{ast.unparse(v)}`, a multiple of the identity (the maximally '
                              f'mixed state), not the projector of the ket returned with return_dm=False', m, node.body[-1])
            else:
                rep.undecided('RD1', fi.qual, f'dm arm `{ast.unparse(v)[:60]}` is not the outer-product idiom', m, node)
    rep.count('RD1.return_dm_sites', n)
    return n
