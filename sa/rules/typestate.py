"""H1 — memo/cache typestate: every mutator of a memoised computation's source invalidates the memo.

Generic over classes: the memo fields and the source fields are *discovered* from the code
(`if self.F is None: ... self.F = <computed>`), nothing about CliffordCircuit is hard-wired except the anchor name
used for the instance floor.
"""
import ast
from ..flow import Forward
from ..callgraph import resolve_callee
from ..project import norm_text

RULE_H1 = ('H1: for a class that memoises a function of a mutable field (field F read under an `if self.F is None` guard and '
           'assigned in the guarded block; source = the self fields the guarded computation reads, directly or through '
           'properties), every function that mutates a source field (append/extend/insert/pop/remove/clear/sort/reverse/'
           '__setitem__/del/augmented or plain rebinding outside __init__) - methods and factory-made methods alike - '
           'resets every memo field to None on every normal path through the mutation, directly or through a helper '
           'method that does; or the memo guard itself compares a key derived from the source field.')

MUTATING_METHODS = {'append', 'extend', 'insert', 'pop', 'remove', 'clear', 'sort', 'reverse', '__setitem__', 'update',
                    'add', 'discard', 'popitem', 'setdefault', 'appendleft', 'popleft'}


def _self_attr(n, selfname='self'):
    if isinstance(n, ast.Attribute) and isinstance(n.value, ast.Name) and n.value.id == selfname:
        return n.attr
    return None


def class_functions(proj, ci):
    """(name, FunctionDef, selfname, how) for methods and for closures manufactured by factory calls in the class body."""
    out = []
    for name, fi in ci.methods.items():
        a = fi.node.args
        params = [x.arg for x in a.posonlyargs + a.args]
        if fi.is_static or not params:
            continue
        out.append((name, fi.node, params[0], 'method', fi.module))
    for name, val in ci.attr_assigns.items():
        if isinstance(val, ast.Call):
            r = resolve_callee(proj, ci.module, val)
            if r.kind == 'func':
                fac = r.node
                # the closure(s) returned by the factory
                rets = [n.value for n in ast.walk(fac.node) if isinstance(n, ast.Return) and isinstance(n.value, ast.Name)]
                inner = {n.name: n for n in fac.node.body if isinstance(n, ast.FunctionDef)}
                for rn in rets:
                    f = inner.get(rn.id)
                    if f is not None:
                        a = f.args
                        params = [x.arg for x in a.posonlyargs + a.args]
                        if params:
                            out.append((name, f, params[0], f'factory {fac.qual}', fac.module))
    return out


def discover_memo(proj, ci):
    """memo fields, source fields, and the guarded blocks."""
    memo = {}
    for name, fn, selfname, how, mod in class_functions(proj, ci):
        for n in ast.walk(fn):
            if not isinstance(n, ast.If):
                continue
            fields = _none_guard_fields(n.test, selfname)
            if not fields:
                continue
            assigned = set()
            for s in n.body:
                for w in ast.walk(s):
                    if isinstance(w, ast.Assign):
                        for t in w.targets:
                            for e in ([t] if not isinstance(t, ast.Tuple) else t.elts):
                                a = _self_attr(e, selfname)
                                if a:
                                    assigned.add(a)
            for f in fields & assigned:
                memo.setdefault(f, []).append((name, fn, n, selfname, mod))
            # sibling memo fields assigned in the same guarded block
            if fields & assigned:
                for f in assigned:
                    if f.startswith('_'):
                        memo.setdefault(f, []).append((name, fn, n, selfname, mod))
    return memo


def _none_guard_fields(test, selfname):
    out = set()
    for n in ast.walk(test):
        if isinstance(n, ast.Compare) and len(n.ops) == 1 and isinstance(n.ops[0], ast.Is) \
                and isinstance(n.comparators[0], ast.Constant) and n.comparators[0].value is None:
            a = _self_attr(n.left, selfname)
            if a:
                out.add(a)
    return out


def reads_of_block(proj, ci, block_if, selfname, depth=0):
    """self fields read inside the guarded computation (through properties / helper methods of the class)."""
    fields = set()
    for s in block_if.body:
        for n in ast.walk(s):
            a = _self_attr(n, selfname)
            if a and isinstance(n.ctx, ast.Load):
                fields.add(a)
    # expand properties / methods
    out = set()
    seen = set()
    work = list(fields)
    while work:
        f = work.pop()
        if f in seen:
            continue
        seen.add(f)
        m = proj.lookup_method(ci, f)
        if m is not None:
            a = m.node.args
            params = [x.arg for x in a.posonlyargs + a.args]
            sn = params[0] if params else 'self'
            for n in ast.walk(m.node):
                b = _self_attr(n, sn)
                if b and isinstance(n.ctx, ast.Load):
                    work.append(b)
        else:
            out.add(f)
    return out


class _MutFlow(Forward):
    def __init__(self, selfname, sources, memo_fields, resetting_methods, proj, ci):
        super().__init__()
        self.selfname = selfname
        self.sources = sources
        self.memo = memo_fields
        self.resetting = resetting_methods
        self.mut_sites = []

    def join(self, a, b):
        if a is None:
            return b
        if b is None:
            return a
        out = {}
        if a.get('mut') or b.get('mut'):
            out['mut'] = a.get('mut') or b.get('mut')
        for f in self.memo:
            k = 'reset:' + f
            # a path that did not mutate does not need a reset: treat "not mutated" as neutral
            ra = a.get(k) or not a.get('mut')
            rb = b.get(k) or not b.get('mut')
            if ra and rb and (a.get(k) or b.get(k)):
                out[k] = True
        return out

    def transfer(self, stmt, state, report):
        st = dict(state)
        if isinstance(stmt, (ast.FunctionDef, ast.ClassDef)):
            return st
        for n in ast.walk(stmt):
            site = self._mutation(n)
            if site is not None:
                st['mut'] = st.get('mut') or site
                if report:
                    self.mut_sites.append(site)
                # a mutation after a reset still leaves the memo valid-at-exit only if the reset happened in this call;
                # order within one call is irrelevant for a single-threaded history
        if isinstance(stmt, ast.Assign):
            for t in stmt.targets:
                for e in ([t] if not isinstance(t, (ast.Tuple, ast.List)) else t.elts):
                    a = _self_attr(e, self.selfname)
                    if a in self.memo and isinstance(stmt.value, ast.Constant) and stmt.value.value is None:
                        st['reset:' + a] = True
                    elif a in self.memo and isinstance(stmt.value, ast.Tuple) and isinstance(t, ast.Tuple):
                        i = t.elts.index(e)
                        v = stmt.value.elts[i] if i < len(stmt.value.elts) else None
                        if isinstance(v, ast.Constant) and v.value is None:
                            st['reset:' + a] = True
        for n in ast.walk(stmt):
            if isinstance(n, ast.Call) and isinstance(n.func, ast.Attribute) and _self_attr(n.func, self.selfname) in self.resetting:
                for f in self.memo:
                    st['reset:' + f] = True
        return st

    def _mutation(self, n):
        sn = self.selfname
        if isinstance(n, ast.Call) and isinstance(n.func, ast.Attribute) and n.func.attr in MUTATING_METHODS:
            a = _self_attr(n.func.value, sn)
            if a in self.sources:
                return (a, n.func.attr, n.lineno)
        if isinstance(n, (ast.Assign, ast.AugAssign, ast.Delete)):
            targets = n.targets if isinstance(n, (ast.Assign, ast.Delete)) else [n.target]
            for t in targets:
                for e in ([t] if not isinstance(t, (ast.Tuple, ast.List)) else t.elts):
                    if isinstance(e, ast.Subscript):
                        a = _self_attr(e.value, sn)
                        if a in self.sources:
                            return (a, 'item store/del', n.lineno)
                    a = _self_attr(e, sn)
                    if a in self.sources:
                        return (a, 'rebind', n.lineno)
        return None


def h1(proj, rep, class_quals, require_memo=()):
    rep.rule('H1', RULE_H1)
    n_mut = 0
    for cq in class_quals:
        ci = proj.cls(cq)
        rep.touch(ci.module)
        memo = discover_memo(proj, ci)
        if not memo:
            if cq in require_memo:
                # the memo may have been removed altogether: then there is nothing to invalidate
                stateless = True
                for name, fn, selfname, how, mod in class_functions(proj, ci):
                    if name in ('__init__',):
                        continue
                    for n in ast.walk(fn):
                        if isinstance(n, ast.Assign):
                            for t in n.targets:
                                a = _self_attr(t, selfname)
                                if a and a.startswith('_'):
                                    stateless = False
                if stateless:
                    rep.ok('H1', cq, 'no memoised state in this class: nothing to invalidate', ci.module, ci.node, text=cq)
                else:
                    rep.undecided('H1', cq, 'private state is written outside __init__ but no `if self.F is None` memo '
                                  'idiom was recognised', ci.module, ci.node, text=cq)
            continue
        memo_fields = set(memo)
        sources = set()
        guard_keyed = False
        for f, sites in memo.items():
            for (mname, fn, ifnode, selfname, mod) in sites:
                sources |= reads_of_block(proj, ci, ifnode, selfname)
                # guard keyed on the source (e.g. `or self._n != len(self.gate_index_list)`)
                for n in ast.walk(ifnode.test):
                    a = _self_attr(n, selfname)
                    if a and a not in memo_fields and not a.startswith('_'):
                        guard_keyed = True
        sources -= memo_fields
        rep.note(f'H1.{cq}.memo_fields', sorted(memo_fields))
        rep.note(f'H1.{cq}.source_fields', sorted(sources))
        if guard_keyed:
            rep.ok('H1', cq, 'memo guard compares a key derived from the source field', ci.module, ci.node, text=cq)
            n_mut += 1
            continue
        funcs = class_functions(proj, ci)
        # helper methods that reset every memo field on all paths
        resetting = set()
        for name, fn, selfname, how, mod in funcs:
            fl = _MutFlow(selfname, set(), memo_fields, set(), proj, ci)
            fl.exit_states = []
            # treat the helper as "mutated" so that resets are tracked
            exits = fl.run(fn, {'mut': ('<entry>', '', 0)})
            if exits and all(all(st.get('reset:' + f) for f in memo_fields) for _, st in exits) and name != '__init__':
                resetting.add(name)
        for name, fn, selfname, how, mod in funcs:
            if name == '__init__':
                continue
            fl = _MutFlow(selfname, sources, memo_fields, resetting, proj, ci)
            exits = fl.run(fn, {})
            if not fl.mut_sites:
                continue
            n_mut += 1
            bad = None
            for node, st in exits:
                if st.get('mut'):
                    missing = [f for f in sorted(memo_fields) if not st.get('reset:' + f)]
                    if missing:
                        bad = (node, st['mut'], missing)
                        break
            construct = f'{cq}.{name}'
            site = fl.mut_sites[0]
            if bad:
                node, mut, missing = bad
                rep.violation('H1', construct,
                              f'({how}) mutates self.{mut[0]} ({mut[1]}, line {mut[2]}) but reaches its exit at line '
                              f'{getattr(node, "lineno", "?")} without resetting memo field(s) {missing}: a query after this '
                              f'call returns the stale memo', mod, fn, text=f'{name}: self.{mut[0]}.{mut[1]} without reset of {missing}')
            else:
                rep.ok('H1', construct, f'({how}) mutates self.{site[0]} and resets {sorted(memo_fields)} on every path',
                       mod, fn, text=f'{name}: mutation of {site[0]} with reset')
    rep.count('H1.mutators', n_mut)
    return n_mut


# ------------------------------------------------------------------------------------------------ H5
RULE_H5 = ('H5: query methods of a gate container (methods that read `self.gate_index_list` and return a value) are not memoised in an attribute of the '
           'container: the gates are shared mutable objects (ParameterGate.set_args / setP / shift_qubit_index_ change them without changing the list), '
           'so a cached unitary / state keyed on the list length or on `is None` goes stale. A method that stores a value computed from the gate list '
           'into `self.<attr>` and returns that attribute on a later call is reported.')


def h5(proj, rep, class_quals):
    rep.rule('H5', RULE_H5)
    n = 0
    for cq in class_quals:
        ci = proj.cls(cq)
        m = ci.module
        rep.touch(m)
        for name, fi in ci.methods.items():
            fn = fi.node
            if name == '__init__':
                continue
            reads_gates = any(isinstance(x, ast.Attribute) and x.attr == 'gate_index_list' and isinstance(x.ctx, ast.Load) for x in ast.walk(fn)) or \
                any(isinstance(x, ast.Attribute) and isinstance(x.value, ast.Name) and x.value.id == 'self' and x.attr in ('apply_state', 'num_qubit')
                    for x in ast.walk(fn))
            rets = [r for r in ast.walk(fn) if isinstance(r, ast.Return) and r.value is not None]
            if not reads_gates or not rets:
                continue
            n += 1
            stored = {}
            for s in ast.walk(fn):
                if isinstance(s, ast.Assign):
                    for t in s.targets:
                        if isinstance(t, ast.Attribute) and isinstance(t.value, ast.Name) and t.value.id == 'self':
                            stored[t.attr] = s
            cached_ret = None
            for r in rets:
                for x in ast.walk(r.value):
                    if isinstance(x, ast.Attribute) and isinstance(x.value, ast.Name) and x.value.id == 'self' and x.attr in stored:
                        cached_ret = (x.attr, r)
            if cached_ret:
                a, r = cached_ret
                rep.violation('H5', f'{cq}.{name}', f'`{ast.unparse(stored[a])[:70]}` caches a value computed from the gate list and `{ast.unparse(r)[:60]}` hands it out again: '
                              f'after ParameterGate.set_args / setP / shift_qubit_index_ (same number of gates) the stale value is returned', m, r)
            else:
                rep.ok('H5', f'{cq}.{name}', 'recomputed from the gate list on every call', m, fn, text=f'{cq}.{name} memo')
    rep.count('H5.query_methods', n)
    return n


# ------------------------------------------------------------------------------------------------ H6 / O4
RULE_H6 = ('H6: a lazily computed (memo) field of an object is only ever set by the computation guarded with `if self.<field> is None` or reset to None: it '
           'is never copied from another object. A copy is only right when both objects have the same source data; the inverse / product / shifted copy '
           'of an operator does not (e.g. the sign of the inverse is the conjugate).')
RULE_O4 = ('O4: the source array of a memoising class (PauliOperator.F2) is never written through from outside the class (`op.F2[i] = ...`): the lazily '
           'computed fields (sign, string, matrices) would keep the value computed before the write.')


def h6(proj, rep, class_quals):
    rep.rule('H6', RULE_H6)
    n = 0
    for cq in class_quals:
        ci = proj.cls(cq)
        m = ci.module
        rep.touch(m)
        memo = set(discover_memo(proj, ci))
        if not memo:
            rep.undecided('H6', cq, 'no memo fields discovered', m, ci.node, text=cq)
            continue
        rep.note(f'H6.{cq}.memo_fields', sorted(memo))
        for name, fi in ci.methods.items():
            for s in ast.walk(fi.node):
                if not isinstance(s, ast.Assign):
                    continue
                tg = []
                for t in s.targets:
                    tg += list(t.elts) if isinstance(t, ast.Tuple) else [t]
                hit = [t for t in tg if isinstance(t, ast.Attribute) and t.attr in memo and isinstance(t.value, ast.Name)]
                if not hit:
                    continue
                n += 1
                owner = hit[0].value.id
                vals = list(s.value.elts) if isinstance(s.value, ast.Tuple) else [s.value]
                copied = [v for v in vals if isinstance(v, ast.Attribute) and v.attr in memo and isinstance(v.value, ast.Name) and v.value.id != owner]
                if copied:
                    rep.violation('H6', f'{cq}.{name}', f'`{ast.unparse(s)[:90]}` copies the memoised field(s) {sorted({v.attr for v in copied})} from another object: they were '
                                  f'computed from the data of THAT object, which differs (here: the phase bits of the result were just changed)', m, s)
                else:
                    rep.ok('H6', f'{cq}.{name}', f'`{ast.unparse(s)[:60]}`: memo field set from the own data of the object / reset', m, s)
    rep.count('H6.memo_field_stores', n)
    return n


def o4(proj, rep, class_qual, field):
    rep.rule('O4', RULE_O4)
    ci = proj.cls(class_qual)
    n = 0
    for fi in proj.iter_functions():
        if fi.cls is ci:
            continue
        m = fi.module
        for s in ast.walk(fi.node):
            tgt = None
            if isinstance(s, ast.Assign) and isinstance(s.targets[0], ast.Subscript):
                tgt = s.targets[0]
            elif isinstance(s, ast.AugAssign) and isinstance(s.target, ast.Subscript):
                tgt = s.target
            if tgt is None:
                continue
            base = tgt.value
            while isinstance(base, ast.Subscript):
                base = base.value
            if isinstance(base, ast.Attribute) and base.attr == field:
                n += 1
                rep.touch(m)
                rep.violation('O4', fi.qual, f'`{ast.unparse(s)[:80]}` writes into `.{field}` of a {class_qual.rsplit(".", 1)[1]} from outside the class: its lazily computed '
                              f'fields (sign / string / matrices) are not invalidated and may already hold values computed before the write', m, s)
    # positive control: the attribute is read outside the class somewhere
    reads = sum(1 for fi in proj.iter_functions() if fi.cls is not ci for x in ast.walk(fi.node) if isinstance(x, ast.Attribute) and x.attr == field)
    rep.count('O4.external_reads', reads)
    if n == 0:
        rep.ok('O4', class_qual, f'{reads} external reads of .{field}, no external write', ci.module, ci.node, text=f'{class_qual}.{field} external writes')
    return reads
