"""B1 — NumPy arm vs PyTorch arm of one function compute the same thing (C01, C03, C04, C12, C16, C19).

For every `if isinstance(x, torch.Tensor): <torch arm> else: <numpy arm>` both arms are rewritten into one neutral
vocabulary (function names, keyword names, plumbing such as view/reshape, dtype/device arguments, the repo's own
synonyms) and compared statement by statement.
  MATCH      every aligned statement pair is identical after normalisation;
  VIOLATION  the arms align one-to-one and exactly ONE pair differs at exactly ONE small subtree (a sign, a constant, an
             operator, a dropped .conj(), an axis, an operand order of a non-commutative op);
  UNDECIDED  anything else (a different algorithm per backend) - never reported.
The set of MATCH sites is calibrated on the reviewed tree; losing one is an analysis error (exit 2), not a violation.
"""
import ast
import copy
from ..callgraph import resolve_callee
from ..project import dotted_parts

RULE_B1 = ('B1: the NumPy arm and the PyTorch arm of a dual-backend function are the same computation: after mapping both arms '
           'into one vocabulary (torch.X/np.X, dim/axis, view/reshape, concat/concatenate, complex(a,b)/a+1j*b, transpose(1,2)/'
           'transpose(0,2,1), softplus/_np_softplus, sigmoid/expit, matrix_exp/expm, triu_indices conventions; dtype/device '
           'plumbing dropped) aligned statements are identical; a single small difference in one aligned statement pair is a '
           'defect of one backend.')

SAME_NAME = {'cos', 'sin', 'exp', 'sqrt', 'abs', 'log', 'cumsum', 'cumprod', 'einsum', 'maximum', 'minimum', 'stack', 'diag',
             'arange', 'zeros', 'ones', 'eye', 'zeros_like', 'ones_like', 'sum', 'dot', 'vdot', 'trace', 'triu', 'tril', 'diagonal',
             'square', 'real', 'imag', 'conj', 'kron', 'where', 'sign', 'log1p', 'outer', 'angle', 'tensordot', 'prod', 'mean'}
FUNC_SYNONYM = {
    'torch.concat': 'concatenate', 'torch.cat': 'concatenate', 'numpy.concatenate': 'concatenate',
    'torch.nn.functional.softplus': 'softplus', 'numqi.manifold._internal._np_softplus': 'softplus',
    'torch.sigmoid': 'expit', 'scipy.special.expit': 'expit',
    'torch.nn.functional.softmax': 'softmax', 'scipy.special.softmax': 'softmax',
    'torch.linalg.matrix_exp': 'expm', 'scipy.linalg.expm': 'expm',
    'torch.from_numpy': 'asarray', 'numpy.asarray': 'asarray',
}
KW_SYNONYM = {'dim': 'axis', 'keepdim': 'keepdims', 'diagonal': 'k', 'offset': 'k', 'dim1': 'axis1', 'dim2': 'axis2'}
DROP_KW = {'dtype', 'device', 'optimize', 'copy', 'requires_grad', 'out'}
PLUMB_METHODS = {'view': 'reshape', 'reshape': 'reshape', 'contiguous': None, 'resolve_conj': None, 'clone': 'copy', 'copy': 'copy',
                 'detach': None, 'cpu': None, 'numpy': None, 'item': None, 'to': None, 'astype': None}


def _fid(f):
    parts = dotted_parts(f)
    return '.'.join(parts) if parts else None


class Normaliser(ast.NodeTransformer):
    def __init__(self, proj, mod):
        self.proj, self.mod = proj, mod

    def visit_Call(self, node):
        node = self.generic_visit(node)
        f = node.func
        q = None
        parts = dotted_parts(f)
        if parts:
            r = self.proj.resolve_expr(self.mod, f)
            if r.kind in ('external', 'func'):
                q = r.qual
        kws = []
        for k in node.keywords:
            if k.arg in DROP_KW:
                continue
            kws.append(ast.keyword(arg=KW_SYNONYM.get(k.arg, k.arg), value=k.value))
        kws.sort(key=lambda k: k.arg or '')
        node.keywords = kws
        if q:
            if q in FUNC_SYNONYM:
                node.func = ast.Name(id='F.' + FUNC_SYNONYM[q], ctx=ast.Load())
            else:
                head, _, tail = q.rpartition('.')
                if head in ('torch', 'numpy') and tail in SAME_NAME:
                    node.func = ast.Name(id='F.' + tail, ctx=ast.Load())
                elif head in ('torch.linalg', 'numpy.linalg'):
                    node.func = ast.Name(id='F.linalg.' + tail, ctx=ast.Load())
                elif q == 'torch.complex' and len(node.args) == 2:
                    return ast.BinOp(left=node.args[0], op=ast.Add(),
                                     right=ast.BinOp(left=ast.Constant(value=1j), op=ast.Mult(), right=node.args[1]))
                elif q in ('torch.tensor',) and node.args:
                    return node.args[0]
                elif q in ('torch.triu_indices', 'torch.tril_indices'):
                    # torch: (row, col, offset)  ->  neutral (row, col, k)
                    a = list(node.args) + [None] * 3
                    off = a[2]
                    for k in node.keywords:
                        if k.arg == 'k':
                            off = k.value
                    node.func = ast.Name(id='F.' + q.split('.')[1], ctx=ast.Load())
                    node.args = [a[0], a[1] or a[0], off or ast.Constant(value=0)]
                    node.keywords = []
                elif q in ('numpy.triu_indices', 'numpy.tril_indices'):
                    # numpy: (n, k=0, m=None) -> neutral (n, m or n, k)
                    a = list(node.args) + [None] * 3
                    kk, mm = a[1], a[2]
                    for k in node.keywords:
                        if k.arg == 'k':
                            kk = k.value
                        if k.arg == 'm':
                            mm = k.value
                    node.func = ast.Name(id='F.' + q.split('.')[1], ctx=ast.Load())
                    node.args = [a[0], mm or a[0], kk or ast.Constant(value=0)]
                    node.keywords = []
        # numpy shape-as-tuple vs torch varargs: zeros((a,b)) == zeros(a,b)
        if _fid(node.func) in ('F.zeros', 'F.ones') and len(node.args) == 1 and isinstance(node.args[0], (ast.Tuple, ast.List)):
            node.args = list(node.args[0].elts)
        if isinstance(f, ast.Attribute):
            a = f.attr
            if a in PLUMB_METHODS:
                tgt = PLUMB_METHODS[a]
                if tgt is None:
                    return f.value
                node.func = ast.Attribute(value=f.value, attr=tgt, ctx=ast.Load())
                if tgt == 'reshape' and len(node.args) == 1 and isinstance(node.args[0], (ast.Tuple, ast.List)):
                    node.args = list(node.args[0].elts)
            if a == 'transpose':
                vals = [x.value if isinstance(x, ast.Constant) else None for x in node.args]
                sw = None
                if len(vals) == 2 and all(isinstance(v, int) and v >= 0 for v in vals):
                    sw = tuple(sorted(vals))                       # torch: transpose(i, j)
                elif len(vals) >= 3 and all(isinstance(v, int) for v in vals) and sorted(vals) == list(range(len(vals))):
                    moved = [i for i, v in enumerate(vals) if v != i]
                    if len(moved) == 2:
                        sw = tuple(moved)                          # numpy: full permutation that is one transposition
                if sw is not None:
                    node.args = [ast.Constant(value=f'swap{sw}')]
                    node.func = ast.Attribute(value=f.value, attr='transpose', ctx=ast.Load())
            if a == 'repeat' and node.args:
                return ast.Call(func=ast.Name(id='F.tile', ctx=ast.Load()), args=[f.value, ast.Tuple(elts=list(node.args), ctx=ast.Load())], keywords=[])
        if q == 'numpy.tile' and len(node.args) == 2:
            node.func = ast.Name(id='F.tile', ctx=ast.Load())
        if _fid(node.func) == 'abs':
            node.func = ast.Name(id='F.abs', ctx=ast.Load())
        # trace written as einsum over a repeated index
        if _fid(node.func) == 'F.einsum' and len(node.args) == 3 \
                and ast.unparse(node.args[1]).replace(' ', '') == '[0,1,1]' and ast.unparse(node.args[2]).replace(' ', '') == '[0]':
            return ast.Call(func=ast.Name(id='F.trace', ctx=ast.Load()), args=[node.args[0]],
                            keywords=[ast.keyword(arg='axis1', value=ast.Constant(value=1)), ast.keyword(arg='axis2', value=ast.Constant(value=2))])
        # column vector: x.reshape(-1, 1)  ==  x[:, None]
        if isinstance(node.func, ast.Attribute) and node.func.attr == 'reshape' and [ast.unparse(x) for x in node.args] == ['-1', '1']:
            return ast.Subscript(value=node.func.value, slice=ast.Tuple(elts=[ast.Slice(), ast.Constant(value=None)], ctx=ast.Load()), ctx=ast.Load())
        # concat of column vectors along the last axis == stack along the last axis (both are reshaped afterwards)
        if _fid(node.func) == 'F.concatenate' and node.args and isinstance(node.args[0], ast.ListComp) \
                and any(k.arg == 'axis' and ast.unparse(k.value) == '-1' for k in node.keywords):
            lc = node.args[0]
            if len(lc.generators) == 1 and isinstance(lc.generators[0].target, ast.Name) and not lc.generators[0].ifs:
                v = lc.generators[0].target.id
                if ast.unparse(lc.elt).replace(' ', '') == f'{v}[:,None]':
                    node.func = ast.Name(id='F.stack', ctx=ast.Load())
                    it = lc.generators[0].iter
                    if isinstance(it, ast.Tuple):
                        it = ast.List(elts=list(it.elts), ctx=ast.Load())
                    node.args = [it]
        return node

    def visit_ListComp(self, node):
        node = self.generic_visit(node)
        # [f(S[i]) for i in range(len(S))]  ->  [f(x) for x in S]
        if len(node.generators) == 1 and not node.generators[0].ifs and isinstance(node.generators[0].target, ast.Name):
            g = node.generators[0]
            it = g.iter
            if isinstance(it, ast.Call) and isinstance(it.func, ast.Name) and it.func.id == 'range' and len(it.args) == 1 \
                    and isinstance(it.args[0], ast.Call) and isinstance(it.args[0].func, ast.Name) and it.args[0].func.id == 'len' \
                    and isinstance(it.args[0].args[0], ast.Name):
                S = it.args[0].args[0].id
                i = g.target.id
                uses = [n for n in ast.walk(node.elt) if isinstance(n, ast.Name) and n.id == i]
                subs = [n for n in ast.walk(node.elt) if isinstance(n, ast.Subscript) and isinstance(n.value, ast.Name) and n.value.id == S
                        and isinstance(n.slice, ast.Name) and n.slice.id == i]
                if uses and len(uses) == len(subs):
                    class R(ast.NodeTransformer):
                        def visit_Subscript(self, n):
                            if isinstance(n.value, ast.Name) and n.value.id == S and isinstance(n.slice, ast.Name) and n.slice.id == i:
                                return ast.Name(id='x', ctx=ast.Load())
                            return self.generic_visit(n)
                    node.elt = R().visit(node.elt)
                    node.generators = [ast.comprehension(target=ast.Name(id='x', ctx=ast.Store()), iter=ast.Name(id=S, ctx=ast.Load()), ifs=[], is_async=0)]
        elif False:
            pass
        if len(node.generators) == 1 and isinstance(node.generators[0].target, ast.Name) and node.generators[0].target.id != 'x' \
                and not any(isinstance(n, ast.Name) and n.id == 'x' for n in ast.walk(node)):
            old = node.generators[0].target.id

            class R2(ast.NodeTransformer):
                def visit_Name(self, n):
                    return ast.Name(id='x', ctx=n.ctx) if n.id == old else n
            node = R2().visit(node)
        return node

    def visit_Subscript(self, node):
        node = self.generic_visit(node)
        # cholesky_ex(M)[0] -> cholesky(M)
        if isinstance(node.value, ast.Call) and _fid(node.value.func) == 'F.linalg.cholesky_ex' \
                and isinstance(node.slice, ast.Constant) and node.slice.value == 0:
            node.value.func = ast.Name(id='F.linalg.cholesky', ctx=ast.Load())
            return node.value
        return node

    def visit_Name(self, node):
        # backend-suffixed module-level twins: _hf_trace1_torch / _hf_trace1_np
        for suf in ('_torch', '_np', '_numpy'):
            if node.id.endswith(suf) and len(node.id) > len(suf) + 2 and node.id in self.mod.bindings:
                return ast.Name(id=node.id[:-len(suf)] + '_B', ctx=node.ctx)
        return node

    def visit_IfExp(self, node):
        node = self.generic_visit(node)
        if ast.dump(node.body) == ast.dump(node.orelse):
            return node.body
        return node

    def visit_Attribute(self, node):
        node = self.generic_visit(node)
        if node.attr == 'type' and isinstance(node.value, ast.Attribute) and node.value.attr == 'dtype':
            return node.value
        parts = dotted_parts(node)
        if parts and parts[0] in ('np', 'numpy', 'torch') and parts[-1] in ('newaxis',):
            return ast.Constant(value=None)
        if parts and len(parts) == 2 and parts[0] in ('np', 'numpy', 'torch') and parts[1] in ('float32', 'float64', 'complex64', 'complex128', 'int64', 'int32'):
            return ast.Name(id='DT.' + parts[1], ctx=ast.Load())
        # conjugation commutes with a transpose: X.conj().T == X.T.conj(); X.mH == X.mT.conj()
        if node.attr in ('T', 'mT') and isinstance(node.value, ast.Call) and isinstance(node.value.func, ast.Attribute) and node.value.func.attr in ('conj', 'conjugate') \
                and not node.value.args:
            inner = self.visit_Attribute(ast.Attribute(value=node.value.func.value, attr=node.attr, ctx=ast.Load()))
            return ast.Call(func=ast.Attribute(value=inner, attr='conj', ctx=ast.Load()), args=[], keywords=[])
        if node.attr in ('mH', 'H'):
            inner = ast.Call(func=ast.Attribute(value=node.value, attr='transpose', ctx=ast.Load()), args=[ast.Constant(value='swap_last_two')], keywords=[])
            return ast.Call(func=ast.Attribute(value=inner, attr='conj', ctx=ast.Load()), args=[], keywords=[])
        if node.attr == 'mT':
            return ast.Call(func=ast.Attribute(value=node.value, attr='transpose', ctx=ast.Load()),
                            args=[ast.Constant(value='swap_last_two')], keywords=[])
        return node


def _is_torch_test(t, fn=None):
    if isinstance(t, ast.Name) and fn is not None:
        asg = [s for s in ast.walk(fn) if isinstance(s, ast.Assign) and len(s.targets) == 1 and isinstance(s.targets[0], ast.Name)
               and s.targets[0].id == t.id]
        return len(asg) == 1 and _is_torch_test(asg[0].value)
    return isinstance(t, ast.Call) and isinstance(t.func, ast.Name) and t.func.id == 'isinstance' and len(t.args) == 2 \
        and ast.unparse(t.args[1]) in ('torch.Tensor',)


def dual_sites(proj, modules=None):
    """(FuncInfo, If node) for every `if isinstance(x, torch.Tensor)` with a non-empty else in the package."""
    out = []
    for fi in proj.iter_functions(modules):
        for n in ast.walk(fi.node):
            if isinstance(n, ast.If) and _is_torch_test(n.test, fi.node) and n.orelse:
                # only sites whose nearest enclosing function is fi
                p = getattr(n, '_parent', None)
                while p is not None and not isinstance(p, (ast.FunctionDef, ast.AsyncFunctionDef, ast.Lambda)):
                    p = getattr(p, '_parent', None)
                if p is fi.node:
                    out.append((fi, n))
    return out


ELEMENTWISE = {'F.cos', 'F.sin', 'F.exp', 'F.sqrt', 'F.abs', 'F.log', 'F.zeros_like', 'F.ones_like'}


def _uses(name, stmts):
    return sum(1 for st in stmts for n in ast.walk(st) if isinstance(n, ast.Name) and n.id == name and isinstance(n.ctx, ast.Load))


def _stores(name, stmts):
    return sum(1 for st in stmts for n in ast.walk(st) if isinstance(n, ast.Name) and n.id == name and isinstance(n.ctx, ast.Store))


class _Subst(ast.NodeTransformer):
    def __init__(self, name, value):
        self.name, self.value = name, value

    def visit_Name(self, n):
        if n.id == self.name and isinstance(n.ctx, ast.Load):
            return ast.parse(ast.unparse(self.value), mode='eval').body
        return n


def _inline(stmts):
    """Inline (a) constants, (b) locals assigned once and used once, (c) X.shape where X = elementwise(f(Y)) -> Y.shape."""
    stmts = list(stmts)
    # (c) shape aliases
    alias = {}
    for st in stmts:
        if isinstance(st, ast.Assign) and len(st.targets) == 1 and isinstance(st.targets[0], ast.Name) and isinstance(st.value, ast.Call) \
                and _fid(st.value.func) in ELEMENTWISE and st.value.args:
            names = {n.id for n in ast.walk(st.value.args[0]) if isinstance(n, ast.Name) and not n.id.startswith(('F.', 'DT.'))}
            if len(names) == 1:
                alias[st.targets[0].id] = names.pop()

    class Sh(ast.NodeTransformer):
        def visit_Attribute(self, n):
            n = self.generic_visit(n)
            if n.attr == 'shape' and isinstance(n.value, ast.Name):
                cur = n.value.id
                for _ in range(4):
                    if cur in alias:
                        cur = alias[cur]
                n.value = ast.Name(id=cur, ctx=ast.Load())
            return n
    stmts = [Sh().visit(st) for st in stmts]
    changed = True
    while changed:
        changed = False
        for i, st in enumerate(stmts):
            if isinstance(st, ast.Assign) and len(st.targets) == 1 and isinstance(st.targets[0], ast.Name):
                nm = st.targets[0].id
                rest = stmts[i + 1:]
                if _stores(nm, stmts) != 1:
                    continue
                nuse = _uses(nm, rest)
                is_const = isinstance(st.value, ast.Constant) or (isinstance(st.value, ast.UnaryOp) and isinstance(st.value.operand, ast.Constant))
                free = {n.id for n in ast.walk(st.value) if isinstance(n, ast.Name)}
                # do not move an expression across a rebinding of one of its free names
                safe = all(_stores(f, rest) == 0 for f in free)
                if (is_const and nuse >= 1) or (nuse == 1 and safe and isinstance(st.value, (ast.List, ast.Tuple, ast.ListComp, ast.Call, ast.BinOp, ast.Subscript, ast.Attribute))):
                    if nm in ('ret',):
                        continue
                    new_rest = [_Subst(nm, st.value).visit(r) for r in rest]
                    stmts = stmts[:i] + new_rest
                    changed = True
                    break
    for st in stmts:
        ast.fix_missing_locations(st)
    return stmts


def _norm_block(proj, mod, body):
    nz = Normaliser(proj, mod)

    def norm_list(stmts):
        out = []
        for st in stmts:
            if isinstance(st, ast.Assert):
                continue
            if isinstance(st, ast.If):
                st2 = ast.If(test=nz.visit(ast.parse(ast.unparse(st.test), mode='eval').body), body=norm_list(st.body) or [ast.Pass()],
                             orelse=norm_list(st.orelse))
            elif isinstance(st, (ast.For, ast.While, ast.With, ast.Try)):
                st2 = nz.visit(ast.parse(ast.unparse(st)).body[0])
            else:
                st2 = nz.visit(ast.parse(ast.unparse(st)).body[0])
            ast.fix_missing_locations(st2)
            if isinstance(st2, ast.Assign) and isinstance(st2.targets[0], ast.Name) and st2.targets[0].id in ('device',):
                continue
            out.append(st2)
        out = _inline(out)
        out2 = []
        for st in out:
            if isinstance(st, ast.If):
                out2.append(st)
                continue
            st3 = nz.visit(ast.parse(ast.unparse(st)).body[0])
            ast.fix_missing_locations(st3)
            out2.append(st3)
        return out2
    return norm_list(body)


def tree_diff(a, b, path=''):
    """Top-most differing positions between two ASTs: list of (path, subtree_a, subtree_b)."""
    if type(a) is not type(b):
        return [(path, a, b)]
    if isinstance(a, ast.AST):
        diffs = []
        for f in a._fields:
            if f in ('ctx', 'type_comment', 'kind'):
                continue
            va, vb = getattr(a, f, None), getattr(b, f, None)
            if isinstance(va, list) and isinstance(vb, list):
                if len(va) != len(vb):
                    return [(path, a, b)]
                for i, (x, y) in enumerate(zip(va, vb)):
                    diffs.extend(tree_diff(x, y, f'{path}/{f}[{i}]'))
            elif isinstance(va, ast.AST) or isinstance(vb, ast.AST):
                diffs.extend(tree_diff(va, vb, f'{path}/{f}'))
            elif va != vb:
                if isinstance(va, (str, int, float, complex)) and isinstance(vb, (str, int, float, complex)) and f in ('attr', 'id', 'value', 'arg'):
                    diffs.append((f'{path}/{f}', va, vb))     # a differing name / attribute / constant: a leaf
                else:
                    return [(path, a, b)]
        return diffs
    return [] if a == b else [(path, a, b)]


def _dtype_plumbing(d):
    path, a, b = d
    ta = ast.unparse(a) if isinstance(a, ast.AST) else str(a)
    tb = ast.unparse(b) if isinstance(b, ast.AST) else str(b)
    return any(k in ta or k in tb for k in ('dtype', 'DT.', 'device'))


def _size(n):
    return sum(1 for _ in ast.walk(n)) if isinstance(n, ast.AST) else 1


VALUE_WRAPPERS = {'maximum', 'minimum', 'clip', 'clamp', 'abs', 'sqrt', 'exp', 'log', 'conj', 'real', 'square', 'sign'}


def _wraps(big, small):
    """big is small wrapped by a few method/attribute/unary layers (e.g. X.conj() vs X)."""
    cur = big
    for _ in range(3):
        if ast.dump(cur) == ast.dump(small):
            return True
        if isinstance(cur, ast.Call) and (_fid(cur.func) or '').split('.')[-1] in VALUE_WRAPPERS and (_fid(cur.func) or '').startswith('F.'):
            # F.maximum(0, X) / F.clip(X, a, b) / F.abs(X) ... around X: one value-changing application more in one arm
            inner = [a for a in cur.args if not isinstance(a, ast.Constant)]
            if len(inner) != 1:
                return False
            cur = inner[0]
        elif isinstance(cur, ast.Call) and isinstance(cur.func, ast.Attribute):
            cur = cur.func.value
        elif isinstance(cur, ast.Attribute):
            cur = cur.value
        elif isinstance(cur, ast.UnaryOp):
            cur = cur.operand
        else:
            return False
    return ast.dump(cur) == ast.dump(small)


def _alpha(stmts, keep):
    """Rename arm-local names (stored in the arm, not in `keep`) to L0, L1, ... in order of first store."""
    order = []
    for st in stmts:
        for n in ast.walk(st):
            if isinstance(n, ast.Name) and isinstance(n.ctx, ast.Store) and n.id not in keep and n.id not in order:
                order.append(n.id)
    mp = {nm: f'L{i}' for i, nm in enumerate(order)}

    class R(ast.NodeTransformer):
        def visit_Name(self, n):
            return ast.Name(id=mp[n.id], ctx=n.ctx) if n.id in mp else n
    return [R().visit(st) for st in stmts]


def compare_arms(proj, mod, torch_body, numpy_body, keep=()):
    """('match'|'single'|'undecided', detail, node)"""
    A = _alpha(_norm_block(proj, mod, torch_body), keep)
    B = _alpha(_norm_block(proj, mod, numpy_body), keep)
    # one textual round trip so that both sides use the same node kinds for the neutral names (F.x)
    A = [ast.parse(ast.unparse(x)).body[0] for x in A]
    B = [ast.parse(ast.unparse(x)).body[0] for x in B]
    if len(A) != len(B):
        return 'undecided', f'{len(A)} vs {len(B)} statements after normalisation', None
    # nested control flow inside the arms is compared structurally as well
    diffs = []
    for i, (x, y) in enumerate(zip(A, B)):
        d = [z for z in tree_diff(x, y) if not _dtype_plumbing(z)]
        if d:
            diffs.append((i, d, x, y))
    if not diffs:
        return 'match', f'{len(A)} statements identical after normalisation', None
    if len(diffs) == 1 and len(diffs[0][1]) > 1:
        # several differences inside ONE subscript / slice (e.g. theta[:, :N1] vs theta[:, N1:2*N1]) count as one difference
        i, d, x, y = diffs[0]
        pre = [pth.split('/slice')[0] for pth, _, _ in d if '/slice' in pth]
        if len(pre) == len(d) and len(set(pre)) == 1:
            return 'single', (f'statement {i + 1}: the arms index differently: torch `{ast.unparse(x)[:80]}` vs numpy `{ast.unparse(y)[:80]}`'), (torch_body, numpy_body, i)
    if len(diffs) == 1 and len(diffs[0][1]) == 1:
        i, d, x, y = diffs[0]
        path, sa, sb = d[0]
        leafish = (ast.Constant, ast.Name, ast.operator, ast.unaryop, ast.cmpop)
        small = (type(sa) is type(sb) and isinstance(sa, leafish)) or \
                (isinstance(sa, ast.operator) and isinstance(sb, ast.operator)) or \
                (isinstance(sa, ast.cmpop) and isinstance(sb, ast.cmpop)) or \
                (not isinstance(sa, ast.AST) and not isinstance(sb, ast.AST))
        wrap = isinstance(sa, ast.AST) and isinstance(sb, ast.AST) and (_wraps(sa, sb) or _wraps(sb, sa))
        if small or wrap:
            ta = ast.unparse(sa) if isinstance(sa, ast.AST) else repr(sa)
            tb = ast.unparse(sb) if isinstance(sb, ast.AST) else repr(sb)
            return 'single', f'statement {i + 1}: torch arm has `{ta}` where the numpy arm has `{tb}` (torch: `{ast.unparse(x)[:90]}`)', (torch_body, numpy_body, i)
    nd = sum(len(d) for _, d, _, _ in diffs)
    return 'undecided', f'{len(diffs)} of {len(A)} statement pairs differ at {nd} positions (different algorithm per backend)', None


def b1(proj, rep, modules=None, expect_match=None):
    """expect_match: set of 'qual#k' site ids that were MATCH on the calibrated tree (floor by identity)."""
    rep.rule('B1', RULE_B1)
    sites = dual_sites(proj, modules)
    counts = {'match': 0, 'single': 0, 'undecided': 0}
    matched = set()
    seen_per_func = {}
    for fi, node in sites:
        m = fi.module
        rep.touch(m)
        k = seen_per_func.get(fi.qual, 0)
        seen_per_func[fi.qual] = k + 1
        sid = f'{fi.qual}#{k}'
        # names that are read outside this if-statement keep their identity; purely arm-local names are alpha-renamed
        inside = {id(x) for x in ast.walk(node)}
        keep = {x.id for x in ast.walk(fi.node) if isinstance(x, ast.Name) and isinstance(x.ctx, ast.Load) and id(x) not in inside}
        keep |= set(fi.all_params)
        verdict, detail, extra = compare_arms(proj, m, node.body, node.orelse, keep)
        counts[verdict] += 1
        if verdict == 'match':
            matched.add(sid)
            rep.ok('B1', sid, detail, m, node.test, text=f'{sid} match')
        elif verdict == 'single':
            tb, nb, i = extra
            rep.violation('B1', sid, 'the two backends differ in exactly one place: ' + detail, m, tb[min(i, len(tb) - 1)], text=f'{sid} single-diff')
        else:
            rep.ok('B1', sid, 'not comparable: ' + detail + ' (no claim)', m, node.test, text=f'{sid} undecided')
    rep.note('B1.match_sites', sorted(matched))
    rep.count('B1.sites', len(sites))
    for k, v in counts.items():
        rep.count(f'B1.{k}', v)
    if expect_match is not None:
        lost = sorted(set(expect_match) - matched)
        # a site that became a reported single-difference violation is not "lost": the violation is the verdict
        viol = {i['construct'] for i in rep.items if i['rule'] == 'B1' and i['status'] == 'violation'}
        lost = [s for s in lost if s not in viol]
        if lost:
            rep.error(f'B1: site(s) {lost} compared equal on the calibrated tree and are no longer comparable (arm rewritten with a '
                      f'different but possibly equal formula): re-calibrate')
    return len(sites), counts
